//! Engine `rawlane`: the real agent runtime (`AgentRouteTask::run_agent` through `vsim::Sim`) with a
//! harness implementation of `swimos_api::agent::Agent`. The agent opens 2-3 lanes through
//! `AgentContext::add_lane`, completes the initialisation handshake and hands the lane byte channels
//! to the harness, which then plays the lanes: every lane response (standard event, sync event,
//! synced, malformed tag) and every byte written or read is an operation of the generated op list.

use bytes::{BufMut, BytesMut};
use futures::future::BoxFuture;
use futures::FutureExt;
use parking_lot::Mutex;
use proptest::prelude::*;
use serde::{Deserialize, Serialize};
use std::collections::HashMap;
use std::pin::Pin;
use std::sync::atomic::AtomicU64;
use std::sync::Arc;
use std::task::Poll;
use swimos_agent_protocol::encoding::lane::{
    RawMapLaneRequestDecoder, RawMapLaneResponseEncoder, RawValueLaneRequestDecoder,
    RawValueLaneResponseEncoder,
};
use swimos_agent_protocol::{LaneRequest, LaneResponse, MapOperation};
use swimos_api::agent::{Agent, AgentConfig, AgentContext, AgentInitResult, LaneConfig, WarpLaneKind};
use swimos_api::error::AgentInitError;
use swimos_utilities::byte_channel::{ByteReader, ByteWriter};
use swimos_utilities::routing::RouteUri;
use swimos_utilities::trigger;
use tokio::io::{AsyncRead, AsyncWrite, AsyncWriteExt, ReadBuf};
#[allow(unused_imports)]
use tokio::io::AsyncRead as _AR;
use tokio_util::codec::{Decoder, Encoder};
use uuid::Uuid;
use vcommon::pick_index;
use vsim::{apply_op, arb_cap, arb_nbytes, arb_sched_op, arb_small_cap, block_on_paused, harness_op, Frame, Op, Req, Sim, SimParams};

#[derive(Clone, Copy, Debug, PartialEq, Eq, Serialize, Deserialize)]
pub enum LKind {
    Value,
    Map,
    Supply,
}

#[derive(Clone, Copy, Debug, Serialize, Deserialize)]
pub struct LaneSpec {
    pub kind: LKind,
    pub transient: bool,
}

pub const LANE_NAMES: [&str; 3] = ["la", "lb", "lc"];
pub const GHOST_NAMES: [&str; 2] = ["ghost", "la2"];

// ---------------------------------------------------------------------------------------------
// the agent

#[derive(Default)]
pub struct RawShared {
    pub lanes: Mutex<Vec<(ByteWriter, ByteReader)>>,
    pub end: Mutex<Option<trigger::Sender>>,
}

pub struct RawAgent {
    pub specs: Vec<LaneSpec>,
    pub shared: Arc<RawShared>,
}

impl Agent for RawAgent {
    fn run(
        &self,
        _route: RouteUri,
        _route_params: HashMap<String, String>,
        config: AgentConfig,
        context: Box<dyn AgentContext + Send>,
    ) -> BoxFuture<'static, AgentInitResult> {
        let specs = self.specs.clone();
        let shared = self.shared.clone();
        async move {
            let mut ios = vec![];
            for (i, spec) in specs.iter().enumerate() {
                let mut lc: LaneConfig = config.default_lane_config.unwrap_or_default();
                lc.transient = spec.transient;
                let kind = match spec.kind {
                    LKind::Value => WarpLaneKind::Value,
                    LKind::Map => WarpLaneKind::Map,
                    LKind::Supply => WarpLaneKind::Supply,
                };
                let (mut tx, rx) = context
                    .add_lane(LANE_NAMES[i], kind, lc)
                    .await
                    .map_err(|_| AgentInitError::FailedToStart)?;
                // Non-transient value and map lanes go through the initialisation handshake: the
                // runtime sends InitComplete and waits for Initialized.
                if !spec.transient && spec.kind != LKind::Supply {
                    let mut buf = BytesMut::new();
                    match spec.kind {
                        LKind::Map => {
                            let mut enc = RawMapLaneResponseEncoder::default();
                            let msg: LaneResponse<MapOperation<&[u8], &[u8]>> = LaneResponse::Initialized;
                            enc.encode(msg, &mut buf).expect("encode");
                        }
                        _ => {
                            let mut enc = RawValueLaneResponseEncoder::default();
                            let msg: LaneResponse<&[u8]> = LaneResponse::Initialized;
                            enc.encode(msg, &mut buf).expect("encode");
                        }
                    }
                    tx.write_all(&buf).await.map_err(|_| AgentInitError::FailedToStart)?;
                }
                ios.push((tx, rx));
            }
            *shared.lanes.lock() = ios;
            let (end_tx, end_rx) = trigger::trigger();
            *shared.end.lock() = Some(end_tx);
            let task: BoxFuture<'static, Result<(), swimos_api::error::AgentTaskError>> = async move {
                let _ = end_rx.await;
                // dropping the context tells the runtime that the agent has terminated
                drop(context);
                Ok(())
            }
            .boxed();
            Ok(task)
        }
        .boxed()
    }
}

// ---------------------------------------------------------------------------------------------
// cases

#[derive(Clone, Debug, PartialEq, Eq, Serialize, Deserialize)]
pub enum ROp {
    Sim(Op),
    /// The lane reads everything available on its input channel.
    LaneRead { lane: u8 },
    /// Standard event (body / map operation derived from `id` and `shape`).
    Emit { lane: u8, id: u32, shape: u8 },
    /// Sync event for one of the sync requests the lane has received and not yet completed.
    SyncEmit { lane: u8, pick: u16, id: u32, shape: u8 },
    /// `Synced` for one of the pending sync requests.
    SyncDone { lane: u8, pick: u16 },
    /// The lane writes at most n bytes of its queued output.
    LaneFlush { lane: u8, n: usize },
    /// The lane queues an invalid tag byte (the runtime must treat the lane as failed).
    BadTag { lane: u8 },
    /// The lane drops both channel halves (queued output is lost).
    CloseLane { lane: u8 },
    /// The agent task completes and drops its context.
    AgentEnd,
    /// Poll the system until it is idle, then the remote reads at most n bytes. (If the read wakes
    /// the idle system, the remote's writer was parked on a full channel.)
    ProbeRead { r: u16, n: usize },
}

#[derive(Clone, Debug, Serialize, Deserialize)]
pub struct Case {
    pub params: SimParams,
    pub lanes: Vec<LaneSpec>,
    /// lane 0 may emit events with an empty body
    pub allow_empty: bool,
    /// map lanes may emit an operation whose key is not UTF-8 (the runtime discards such events)
    pub bad_keys: bool,
    pub ops: Vec<ROp>,
}

fn arb_lane_spec() -> impl Strategy<Value = LaneSpec> {
    (
        prop_oneof![3 => Just(LKind::Value), 2 => Just(LKind::Map), 2 => Just(LKind::Supply)],
        any::<bool>(),
    )
        .prop_map(|(kind, transient)| LaneSpec { kind, transient })
}

fn arb_params() -> impl Strategy<Value = SimParams> {
    (
        any::<u64>(),
        prop_oneof![Just(1usize), Just(2), Just(4), Just(16)],
        arb_cap(),
        arb_cap(),
        prop_oneof![Just(2usize), Just(3), Just(8), Just(64)],
        prop_oneof![1 => Just(300u64), 3 => Just(10_000_000u64)],
        prop_oneof![1 => Just(200u64), 2 => Just(30_000u64)],
    )
        .prop_map(|(seed, attachment_queue, lane_in_buf, lane_out_buf, budget, inactive, prune)| SimParams {
            seed,
            attachment_queue,
            lane_in_buf: lane_in_buf.max(2),
            lane_out_buf: lane_out_buf.max(2),
            budget,
            inactive_timeout_ms: inactive,
            prune_remote_delay_ms: prune,
            // never abandon the shutdown epilogue: a remote that is read only by the final settle
            // must still get its unlinked frames
            shutdown_timeout_ms: 1_000_000_000,
            ..SimParams::default()
        })
}

/// Lane index for remote requests: mostly known lanes, sometimes a lane that does not exist.
fn arb_req_lane() -> impl Strategy<Value = u8> {
    prop_oneof![8 => 0u8..3, 1 => 3u8..5]
}

fn arb_rop() -> impl Strategy<Value = ROp> {
    prop_oneof![
        2 => (arb_small_cap(), arb_small_cap()).prop_map(|(in_cap, out_cap)| ROp::Sim(Op::Attach { in_cap, out_cap })),
        6 => (any::<u16>(), arb_req_lane()).prop_map(|(r, lane)| ROp::Sim(Op::Link { r, lane })),
        6 => (any::<u16>(), arb_req_lane()).prop_map(|(r, lane)| ROp::Sim(Op::Sync { r, lane })),
        4 => (any::<u16>(), arb_req_lane()).prop_map(|(r, lane)| ROp::Sim(Op::Unlink { r, lane })),
        2 => (any::<u16>(), arb_req_lane()).prop_map(|(r, lane)| ROp::Sim(Op::Cmd { r, lane, body: "7".into() })),
        22 => arb_sched_op().prop_map(ROp::Sim),
        8 => (any::<u16>(), arb_nbytes()).prop_map(|(r, n)| ROp::ProbeRead { r, n }),
        5 => (0u8..3).prop_map(|lane| ROp::LaneRead { lane }),
        14 => (0u8..3, any::<u8>()).prop_map(|(lane, shape)| ROp::Emit { lane, id: 0, shape }),
        7 => (0u8..3, any::<u16>(), any::<u8>()).prop_map(|(lane, pick, shape)| ROp::SyncEmit { lane, pick, id: 0, shape }),
        7 => (0u8..3, any::<u16>()).prop_map(|(lane, pick)| ROp::SyncDone { lane, pick }),
        8 => (0u8..3, arb_nbytes()).prop_map(|(lane, n)| ROp::LaneFlush { lane, n }),
    ]
}

fn arb_fault() -> impl Strategy<Value = ROp> {
    prop_oneof![
        3 => (0u8..3).prop_map(|lane| ROp::BadTag { lane }),
        2 => (0u8..3).prop_map(|lane| ROp::CloseLane { lane }),
        2 => Just(ROp::Sim(Op::Stop)),
        1 => Just(ROp::AgentEnd),
        2 => Just(ROp::Sim(Op::Advance { ms: 400 })),
        2 => any::<u16>().prop_map(|r| ROp::Sim(Op::Drop { r })),
    ]
}

/// The inactivity timeout used by cases that exercise the stop-vote window.
pub const T_VOTE: u64 = 300;

fn arb_request() -> impl Strategy<Value = ROp> {
    prop_oneof![
        5 => (any::<u16>(), arb_req_lane()).prop_map(|(r, lane)| ROp::Sim(Op::Link { r, lane })),
        2 => (any::<u16>(), arb_req_lane()).prop_map(|(r, lane)| ROp::Sim(Op::Sync { r, lane })),
        2 => (any::<u16>(), arb_req_lane()).prop_map(|(r, lane)| ROp::Sim(Op::Unlink { r, lane })),
        1 => (any::<u16>(), arb_req_lane()).prop_map(|(r, lane)| ROp::Sim(Op::Cmd { r, lane, body: "7".into() })),
    ]
}

fn arb_pump_all() -> impl Strategy<Value = ROp> {
    (any::<u16>(), prop_oneof![3 => Just(usize::MAX), 1 => 1usize..40]).prop_map(|(r, n)| ROp::Sim(Op::Pump { r, n }))
}

fn arb_small_poll() -> impl Strategy<Value = ROp> {
    (1usize..4).prop_map(|k| ROp::Sim(Op::Poll { k }))
}

/// Request, optionally written to the agent right away, optionally followed by a few polls.
fn arb_request_step() -> impl Strategy<Value = Vec<ROp>> {
    (arb_request(), proptest::option::weighted(0.7, arb_pump_all()), proptest::option::weighted(0.6, arb_small_poll())).prop_map(|(rq, pump, poll)| {
        let mut v = vec![rq];
        v.extend(pump);
        v.extend(poll);
        v
    })
}

fn arb_attach_small() -> impl Strategy<Value = ROp> {
    (arb_small_cap(), arb_small_cap()).prop_map(|(in_cap, out_cap)| ROp::Sim(Op::Attach { in_cap: in_cap.max(40), out_cap }))
}

/// "Stop-vote window": the agent is left quiet for about the inactivity timeout so that some of
/// the read / write / HTTP tasks have voted to stop (the read task's timer is restarted by traffic that
/// never reaches the write task: attachments, commands, unanswered syncs), then new attachments and
/// requests arrive with only a few polls in between, around a terminator (agent end, stop trigger, lane
/// failure, a further timeout), so that requests and lane events land between the individual votes
/// and the moment the stop becomes unanimous.
fn arb_window() -> impl Strategy<Value = Vec<ROp>> {
    let read_only = prop_oneof![
        2 => arb_attach_small().prop_map(|a| vec![a]),
        2 => (any::<u16>(), 0u8..3, arb_small_poll()).prop_map(|(r, lane, p)| vec![ROp::Sim(Op::Cmd { r, lane, body: "7".into() }), ROp::Sim(Op::Pump { r, n: usize::MAX }), p]),
        2 => (any::<u16>(), 0u8..3, arb_small_poll()).prop_map(|(r, lane, p)| vec![ROp::Sim(Op::Sync { r, lane }), ROp::Sim(Op::Pump { r, n: usize::MAX }), p]),
        1 => Just(vec![]),
    ];
    let terminator = prop_oneof![
        6 => Just(vec![ROp::AgentEnd]),
        1 => Just(vec![ROp::Sim(Op::Stop)]),
        2 => (0u8..3).prop_map(|lane| vec![ROp::BadTag { lane }, ROp::LaneFlush { lane, n: usize::MAX }]),
        2 => (0u8..3, any::<u8>()).prop_map(|(lane, shape)| vec![ROp::Emit { lane, id: 0, shape }, ROp::LaneFlush { lane, n: usize::MAX }]),
        2 => prop_oneof![Just(T_VOTE - 1), Just(T_VOTE), Just(T_VOTE + 1)].prop_map(|ms| vec![ROp::Sim(Op::Advance { ms })]),
        1 => Just(vec![]),
    ];
    let after = prop_oneof![
        3 => arb_request_step(),
        2 => arb_pump_all().prop_map(|p| vec![p]),
        3 => arb_small_poll().prop_map(|p| vec![p]),
        1 => (0u8..3, arb_nbytes()).prop_map(|(lane, n)| vec![ROp::LaneFlush { lane, n }]),
        1 => arb_attach_small().prop_map(|a| vec![a]),
    ];
    (
        (0u64..T_VOTE, read_only, prop_oneof![Just(-1i64), Just(0), Just(1), Just(50), Just(150)], any::<bool>(), 1usize..6),
        proptest::collection::vec(arb_attach_small(), 0..3),
        proptest::collection::vec(arb_request_step(), 1..4),
        proptest::option::weighted(0.5, arb_small_poll()),
        terminator,
        proptest::collection::vec(after, 0..5),
    )
        .prop_map(|((a, read_only, d, split, k1), attaches, requests, poll_before_end, terminator, after)| {
            let mut v = vec![ROp::Sim(Op::Settle), ROp::Sim(Op::Advance { ms: a })];
            v.extend(read_only);
            let b = (T_VOTE as i64 - a as i64 + d).max(1) as u64;
            if split && b > 2 {
                v.push(ROp::Sim(Op::Advance { ms: b / 2 }));
                v.push(ROp::Sim(Op::Poll { k: 1 }));
                v.push(ROp::Sim(Op::Advance { ms: b - b / 2 }));
            } else {
                v.push(ROp::Sim(Op::Advance { ms: b }));
            }
            v.push(ROp::Sim(Op::Poll { k: k1 }));
            v.extend(attaches);
            for r in requests {
                v.extend(r);
            }
            v.extend(poll_before_end);
            v.extend(terminator);
            for a in after {
                v.extend(a);
            }
            v
        })
}

/// The prune delay used by cases with the "surviving link past the prune delay" shape.
pub const T_PRUNE: u64 = 200;

/// "Surviving link past the prune delay": one remote links to two (or three) lanes while a prune
/// timer is pending for it (the one armed when it attached, or one left over from an "unlink, link
/// again" episode), one of the lanes fails (invalid tag) or closes, then the clock passes the prune
/// delay with the remote otherwise idle, then the surviving lane emits, and the agent may end. The
/// remote still has an open link, so it must not be pruned; the link must stay usable and be closed
/// with exactly one unlinked at the end.
fn arb_prune_shape() -> impl Strategy<Value = Vec<ROp>> {
    (
        (any::<bool>(), any::<bool>(), any::<bool>(), any::<bool>(), arb_small_cap()),
        (prop_oneof![4 => Just(0u8), 1 => Just(1), 1 => Just(2)], any::<bool>(), 1usize..4),
        (prop_oneof![Just(0u64), Just(1), Just(50), Just(300)], any::<bool>(), any::<bool>()),
        (any::<u8>(), any::<u8>(), 0usize..3),
        prop_oneof![3 => Just(0u8), 2 => Just(1), 1 => Just(2)],
    )
        .prop_map(|((new_remote, swap, third, relink, cap), (fail_kind, emit_before, k), (extra, split, settle_after), (s1, s2, more), term)| {
            // the remote: a fresh one (its attach-time prune timer is certainly pending) or remote 0
            let r: u16 = if new_remote { u16::MAX } else { 0 };
            let (a, b): (u8, u8) = if swap { (1, 0) } else { (0, 1) };
            let mut v = vec![];
            if new_remote {
                v.push(ROp::Sim(Op::Attach { in_cap: 128, out_cap: if cap < 8 { 64 } else { cap } }));
            }
            v.push(ROp::Sim(Op::Link { r, lane: a }));
            v.push(ROp::Sim(Op::Link { r, lane: b }));
            if third {
                v.push(ROp::Sim(Op::Sync { r, lane: 2 }));
            }
            if relink {
                // leaves a prune timer behind if this empties the remote's links at that moment
                v.push(ROp::Sim(Op::Unlink { r, lane: b }));
                v.push(ROp::Sim(Op::Link { r, lane: b }));
            }
            v.push(ROp::Sim(Op::Pump { r, n: usize::MAX }));
            v.push(ROp::Sim(Op::Settle));
            if emit_before {
                v.push(ROp::Emit { lane: a, id: 0, shape: s1 });
                v.push(ROp::LaneFlush { lane: a, n: usize::MAX });
            }
            match fail_kind {
                0 => {
                    v.push(ROp::BadTag { lane: b });
                    v.push(ROp::LaneFlush { lane: b, n: usize::MAX });
                }
                1 => {
                    v.push(ROp::Emit { lane: b, id: 0, shape: s2 });
                    v.push(ROp::BadTag { lane: b });
                    v.push(ROp::LaneFlush { lane: b, n: usize::MAX });
                }
                _ => v.push(ROp::CloseLane { lane: b }),
            }
            if settle_after {
                v.push(ROp::Sim(Op::Settle));
            } else {
                v.push(ROp::Sim(Op::Poll { k }));
            }
            let total = T_PRUNE + extra;
            if split {
                v.push(ROp::Sim(Op::Advance { ms: total / 2 }));
                v.push(ROp::Sim(Op::Poll { k: 2 }));
                v.push(ROp::Sim(Op::Advance { ms: total - total / 2 }));
            } else {
                v.push(ROp::Sim(Op::Advance { ms: total }));
            }
            v.push(ROp::Sim(Op::Poll { k: k + 2 }));
            for i in 0..=more {
                v.push(ROp::Emit { lane: a, id: 0, shape: s1.wrapping_add(i as u8) });
                v.push(ROp::LaneFlush { lane: a, n: usize::MAX });
                v.push(ROp::ProbeRead { r, n: usize::MAX });
            }
            match term {
                0 => v.push(ROp::AgentEnd),
                1 => v.push(ROp::Sim(Op::Stop)),
                _ => {}
            }
            v
        })
}

pub fn arb_case(max_ops: usize) -> impl Strategy<Value = Case> {
    (
        arb_params(),
        proptest::collection::vec(arb_lane_spec(), 2..=3),
        prop_oneof![3 => Just(false), 1 => Just(true)],
        prop_oneof![5 => Just(false), 1 => Just(true)],
        proptest::collection::vec(arb_rop(), 1..max_ops),
        // faults inserted at generated positions (0-2 per case)
        proptest::collection::vec((any::<u16>(), arb_fault(), any::<bool>()), 0..3),
        // a stop-vote window at the end of the case (30 %)
        proptest::option::weighted(0.3, (arb_window(), prop_oneof![3 => Just(1usize), 2 => Just(2), 1 => Just(4)], 1usize..4)),
        // or (15 %) the "surviving link past the prune delay" shape
        proptest::option::weighted(0.15, (arb_prune_shape(), 0usize..3)),
    )
        .prop_map(|(mut params, lanes, allow_empty, bad_keys, mut ops, faults, window, prune_shape)| {
            let window = if prune_shape.is_some() { None } else { window };
            for (pos, f, settle_first) in faults {
                let at = pick_index(pos, ops.len() + 1);
                ops.insert(at, f);
                if settle_first {
                    ops.insert(at, ROp::Sim(Op::Settle));
                }
            }
            if let Some((w, queue, keep)) = window {
                params.inactive_timeout_ms = T_VOTE;
                params.attachment_queue = queue;
                // a short random prologue (the window needs a running agent with remotes attached)
                ops.truncate(ops.len().min(keep * 8));
                ops.retain(|o| !matches!(o, ROp::AgentEnd | ROp::Sim(Op::Stop) | ROp::Sim(Op::Advance { .. })));
                ops.extend(w);
            }
            if let Some((shape, keep)) = prune_shape {
                params.prune_remote_delay_ms = T_PRUNE;
                params.inactive_timeout_ms = 10_000_000;
                // a short prologue in which no time passes (the attach-time prune timers stay pending)
                // and nothing ends the agent, fails a lane or drops a remote
                ops.truncate(ops.len().min(keep * 6));
                ops.retain(|o| {
                    !matches!(
                        o,
                        ROp::AgentEnd | ROp::BadTag { .. } | ROp::CloseLane { .. } | ROp::Sim(Op::Stop) | ROp::Sim(Op::Advance { .. }) | ROp::Sim(Op::Drop { .. })
                    )
                });
                ops.extend(shape);
            }
            let mut next = 1u32;
            for op in ops.iter_mut() {
                match op {
                    ROp::Emit { id, .. } | ROp::SyncEmit { id, .. } => {
                        *id = next;
                        next += 1;
                    }
                    _ => {}
                }
            }
            let mut all = vec![ROp::Sim(Op::Attach { in_cap: 64, out_cap: 16 })];
            all.extend(ops);
            Case {
                params,
                lanes,
                allow_empty,
                bad_keys,
                ops: all,
            }
        })
}

// ---------------------------------------------------------------------------------------------
// harness side of a lane

#[derive(Clone, Debug, PartialEq, Eq)]
pub enum EmKind {
    /// Event whose frame body must be exactly these bytes.
    Event(Vec<u8>),
    /// A map operation with a key that is not UTF-8 (the runtime discards it).
    InvalidKey,
    Synced,
    BadTag,
}

#[derive(Clone, Debug)]
pub struct Emission {
    /// global sequence number when the response was queued by the lane / when its last byte had
    /// been written to the lane's output channel
    pub queued: u64,
    pub flushed: Option<u64>,
    pub target: Option<Uuid>,
    pub kind: EmKind,
}

#[derive(Clone, Debug, PartialEq, Eq)]
pub enum LaneIn {
    Sync(Uuid),
    Command(Vec<u8>),
    InitComplete,
}

pub struct HLane {
    pub name: String,
    pub kind: LKind,
    tx: Option<ByteWriter>,
    rx: Option<ByteReader>,
    outbox: BytesMut,
    marks: Vec<(u64, usize)>,
    written_total: u64,
    queued_total: u64,
    inbox: BytesMut,
    vdec: RawValueLaneRequestDecoder,
    mdec: RawMapLaneRequestDecoder,
    pub pending_syncs: Vec<Uuid>,
    pub emissions: Vec<Emission>,
    pub received: Vec<(u64, LaneIn)>,
    /// a bad tag was queued: the lane emits nothing afterwards
    pub poisoned: bool,
    pub closed_at: Option<u64>,
    pub in_decode_error: bool,
}

impl HLane {
    fn new(name: &str, kind: LKind, tx: ByteWriter, rx: ByteReader) -> Self {
        HLane {
            name: name.to_string(),
            kind,
            tx: Some(tx),
            rx: Some(rx),
            outbox: BytesMut::new(),
            marks: vec![],
            written_total: 0,
            queued_total: 0,
            inbox: BytesMut::new(),
            vdec: Default::default(),
            mdec: Default::default(),
            pending_syncs: vec![],
            emissions: vec![],
            received: vec![],
            poisoned: false,
            closed_at: None,
            in_decode_error: false,
        }
    }

    fn can_emit(&self) -> bool {
        !self.poisoned && self.tx.is_some()
    }

    fn queue(&mut self, clock: &AtomicU64, target: Option<Uuid>, kind: EmKind, encode: impl FnOnce(&mut BytesMut)) {
        let before = self.outbox.len();
        encode(&mut self.outbox);
        self.queued_total += (self.outbox.len() - before) as u64;
        let seq = clock.fetch_add(1, std::sync::atomic::Ordering::SeqCst);
        self.emissions.push(Emission {
            queued: seq,
            flushed: None,
            target,
            kind,
        });
        self.marks.push((self.queued_total, self.emissions.len() - 1));
    }

    /// Body of a value / supply event.
    fn body_for(id: u32, shape: u8, allow_empty: bool) -> Vec<u8> {
        match shape % 8 {
            6 => format!("{}:{}", id, "x".repeat(20 + (shape as usize / 8) * 5)).into_bytes(),
            7 if allow_empty => vec![],
            _ => id.to_string().into_bytes(),
        }
    }

    fn emit(&mut self, clock: &AtomicU64, target: Option<Uuid>, id: u32, shape: u8, allow_empty: bool, bad_keys: bool) {
        if !self.can_emit() {
            return;
        }
        match self.kind {
            LKind::Value | LKind::Supply => {
                let body = Self::body_for(id, shape, allow_empty);
                let b2 = body.clone();
                self.queue(clock, target, EmKind::Event(body), move |dst| {
                    let mut enc = RawValueLaneResponseEncoder::default();
                    let msg: LaneResponse<&[u8]> = match target {
                        Some(t) => LaneResponse::SyncEvent(t, b2.as_slice()),
                        None => LaneResponse::StandardEvent(b2.as_slice()),
                    };
                    enc.encode(msg, dst).expect("encode");
                });
            }
            LKind::Map => {
                let key = format!("k{}", shape % 3).into_bytes();
                let val = id.to_string().into_bytes();
                let (op, expect): (MapOperation<Vec<u8>, Vec<u8>>, EmKind) = match shape % 10 {
                    0..=5 => {
                        let mut e = b"@update(key:".to_vec();
                        e.extend_from_slice(&key);
                        e.extend_from_slice(b") ");
                        e.extend_from_slice(&val);
                        (MapOperation::Update { key, value: val }, EmKind::Event(e))
                    }
                    6 | 7 => {
                        let mut e = b"@remove(key:".to_vec();
                        e.extend_from_slice(&key);
                        e.extend_from_slice(b")");
                        (MapOperation::Remove { key }, EmKind::Event(e))
                    }
                    8 => (MapOperation::Clear, EmKind::Event(b"@clear".to_vec())),
                    _ if !bad_keys => {
                        let mut e = b"@update(key:".to_vec();
                        e.extend_from_slice(&key);
                        e.extend_from_slice(b") ");
                        e.extend_from_slice(&val);
                        (MapOperation::Update { key, value: val }, EmKind::Event(e))
                    }
                    _ => (
                        MapOperation::Update {
                            key: vec![0xff, 0xfe],
                            value: val,
                        },
                        EmKind::InvalidKey,
                    ),
                };
                self.queue(clock, target, expect, move |dst| {
                    let mut enc = RawMapLaneResponseEncoder::default();
                    let msg: LaneResponse<MapOperation<Vec<u8>, Vec<u8>>> = match target {
                        Some(t) => LaneResponse::SyncEvent(t, op),
                        None => LaneResponse::StandardEvent(op),
                    };
                    enc.encode(msg, dst).expect("encode");
                });
            }
        }
    }

    fn synced(&mut self, clock: &AtomicU64, target: Uuid) {
        if !self.can_emit() {
            return;
        }
        let kind = self.kind;
        self.queue(clock, Some(target), EmKind::Synced, move |dst| match kind {
            LKind::Map => {
                let mut enc = RawMapLaneResponseEncoder::default();
                let msg: LaneResponse<MapOperation<Vec<u8>, Vec<u8>>> = LaneResponse::Synced(target);
                enc.encode(msg, dst).expect("encode");
            }
            _ => {
                let mut enc = RawValueLaneResponseEncoder::default();
                let msg: LaneResponse<&[u8]> = LaneResponse::Synced(target);
                enc.encode(msg, dst).expect("encode");
            }
        });
    }

    fn bad_tag(&mut self, clock: &AtomicU64) {
        if !self.can_emit() {
            return;
        }
        self.queue(clock, None, EmKind::BadTag, |dst| dst.put_u8(0xEE));
        self.poisoned = true;
    }

    /// Write at most `max` bytes of the queued output. Returns the number written.
    pub fn flush(&mut self, clock: &AtomicU64, max: usize) -> usize {
        let mut written = 0;
        while written < max && !self.outbox.is_empty() {
            let Some(w) = self.tx.as_mut() else { break };
            let n = (max - written).min(self.outbox.len());
            let chunk = &self.outbox[..n];
            match harness_op(|cx| Pin::new(&mut *w).poll_write(cx, chunk)) {
                Poll::Ready(Ok(0)) => break,
                Poll::Ready(Ok(k)) => {
                    let _ = self.outbox.split_to(k);
                    written += k;
                    self.written_total += k as u64;
                    let total = self.written_total;
                    let mut done = vec![];
                    self.marks.retain(|(mark, idx)| {
                        if *mark <= total {
                            done.push(*idx);
                            false
                        } else {
                            true
                        }
                    });
                    for idx in done {
                        let s = clock.fetch_add(1, std::sync::atomic::Ordering::SeqCst);
                        self.emissions[idx].flushed = Some(s);
                    }
                }
                Poll::Ready(Err(_)) => {
                    // the runtime dropped the lane's output reader (failure or shutdown)
                    self.tx = None;
                    self.outbox.clear();
                    break;
                }
                Poll::Pending => break,
            }
        }
        written
    }

    /// Read everything available on the lane's input channel. Returns bytes read.
    pub fn read_input(&mut self, clock: &AtomicU64) -> usize {
        let mut total = 0;
        loop {
            let Some(r) = self.rx.as_mut() else { break };
            let mut tmp = vec![0u8; 4096];
            let mut rb = ReadBuf::new(&mut tmp);
            match harness_op(|cx| Pin::new(&mut *r).poll_read(cx, &mut rb)) {
                Poll::Ready(Ok(())) => {
                    let n = rb.filled().len();
                    if n == 0 {
                        self.rx = None;
                        break;
                    }
                    self.inbox.extend_from_slice(rb.filled());
                    total += n;
                }
                Poll::Ready(Err(_)) => {
                    self.rx = None;
                    break;
                }
                Poll::Pending => break,
            }
        }
        if total > 0 && !self.in_decode_error {
            loop {
                let item: Result<Option<LaneIn>, ()> = match self.kind {
                    LKind::Map => self
                        .mdec
                        .decode(&mut self.inbox)
                        .map(|o| {
                            o.map(|r| match r {
                                LaneRequest::Sync(id) => LaneIn::Sync(id),
                                LaneRequest::InitComplete => LaneIn::InitComplete,
                                LaneRequest::Command(m) => LaneIn::Command(format!("{:?}", m).into_bytes()),
                            })
                        })
                        .map_err(|_| ()),
                    _ => self
                        .vdec
                        .decode(&mut self.inbox)
                        .map(|o| {
                            o.map(|r| match r {
                                LaneRequest::Sync(id) => LaneIn::Sync(id),
                                LaneRequest::InitComplete => LaneIn::InitComplete,
                                LaneRequest::Command(b) => LaneIn::Command(b.to_vec()),
                            })
                        })
                        .map_err(|_| ()),
                };
                match item {
                    Ok(Some(req)) => {
                        let seq = clock.fetch_add(1, std::sync::atomic::Ordering::SeqCst);
                        if let LaneIn::Sync(id) = &req {
                            self.pending_syncs.push(*id);
                        }
                        self.received.push((seq, req));
                    }
                    Ok(None) => break,
                    Err(()) => {
                        self.in_decode_error = true;
                        break;
                    }
                }
            }
        }
        total
    }

    fn close(&mut self, clock: &AtomicU64) {
        if self.tx.is_some() || self.rx.is_some() {
            self.tx = None;
            self.rx = None;
            self.outbox.clear();
            self.marks.clear();
            self.closed_at = Some(clock.fetch_add(1, std::sync::atomic::Ordering::SeqCst));
        }
    }

}

// ---------------------------------------------------------------------------------------------
// observation

#[derive(Clone, Debug)]
pub struct Wake {
    pub remote: usize,
    pub seq: u64,
    /// bytes the agent had written to the remote when the read found its writer parked: the channel
    /// was full, so exactly bytes_read + capacity
    pub written: u64,
}

pub struct RemoteObs {
    pub id: Uuid,
    pub frames: Vec<Frame>,
    pub sent: Vec<(String, Req, u64, Option<u64>)>,
    pub out_cap: usize,
    pub dropped_at: Option<u64>,
    pub reason: Option<String>,
    pub eof: bool,
    pub decode_error: Option<String>,
    /// number of frames read / requests queued at the quiescent checkpoint before the agent is ended
    pub frames_at_checkpoint: usize,
    pub sent_at_checkpoint: usize,
    pub reason_at_checkpoint: bool,
}

pub struct LaneObs {
    pub name: String,
    pub kind: LKind,
    pub emissions: Vec<Emission>,
    pub received: Vec<(u64, LaneIn)>,
    pub closed_at: Option<u64>,
}

pub struct Obs {
    pub remotes: Vec<RemoteObs>,
    pub lanes: Vec<LaneObs>,
    pub wakes: Vec<Wake>,
    /// global sequence numbers at which the harness ran the system to a fixpoint
    pub settles: Vec<u64>,
    /// (seq, lane index) of BadTag ops
    pub bad_tag_ops: Vec<(u64, usize)>,
    pub stop_at: Option<u64>,
    pub agent_end_at: Option<u64>,
    pub done_at_checkpoint: bool,
    pub checkpoint_seq: u64,
    pub done_at_end: bool,
    pub result: Option<Result<(), String>>,
    pub init_failed: bool,
    /// Stop-vote model (harness side, op granularity): a request was fully written while at least one
    /// but not all of the read / write / HTTP tasks had an outstanding stop vote and the agent ran.
    /// virtual milliseconds (sum of Advance ops) when each lane's invalid tag was flushed, and at the
    /// quiescent checkpoint
    pub bad_tag_flushed_ms: Vec<(usize, u64)>,
    pub checkpoint_ms: u64,
    pub req_while_vote: bool,
    /// A request that makes the write task schedule a write (link, unlink, anything but a command
    /// for a missing lane) was written while the write task's own vote was outstanding.
    pub coord_while_write_voted: bool,
}

fn settle_all(sim: &mut Sim, lanes: &mut [HLane], clock: &AtomicU64) {
    let mut rounds = 0;
    loop {
        rounds += 1;
        let mut progress = 0;
        for l in lanes.iter_mut() {
            progress += l.flush(clock, usize::MAX);
        }
        sim.settle();
        for l in lanes.iter_mut() {
            progress += l.read_input(clock);
        }
        // the system may have made room in a lane's output channel
        for l in lanes.iter_mut() {
            progress += l.flush(clock, usize::MAX);
        }
        if progress == 0 {
            break;
        }
        if rounds > 10_000 {
            panic!("settle_all did not reach a fixpoint");
        }
    }
}

pub fn lane_names_for_ops(nlanes: usize) -> Vec<&'static str> {
    // indices 0..3 address the case's lanes (wrapping when it has only two), 3 and 4 address lanes
    // that do not exist
    let mut v: Vec<&'static str> = (0..3).map(|i| LANE_NAMES[i % nlanes]).collect();
    v.extend(GHOST_NAMES);
    v
}

pub fn execute(case: &Case) -> Obs {
    block_on_paused(case.params.seed, async {
        let clock = Arc::new(AtomicU64::new(1));
        let shared = Arc::new(RawShared::default());
        let agent = RawAgent {
            specs: case.lanes.clone(),
            shared: shared.clone(),
        };
        let mut sim = Sim::start(&agent, &case.params, clock.clone(), None);
        sim.run_until_idle();
        let ios: Vec<(ByteWriter, ByteReader)> = std::mem::take(&mut *shared.lanes.lock());
        let init_failed = ios.len() != case.lanes.len() || sim.is_done();
        let mut lanes: Vec<HLane> = ios
            .into_iter()
            .enumerate()
            .map(|(i, (tx, rx))| HLane::new(LANE_NAMES[i], case.lanes[i].kind, tx, rx))
            .collect();
        let nl = lanes.len().max(1);
        let names = lane_names_for_ops(case.lanes.len());
        let mut wakes = vec![];
        let mut settles = vec![];
        let mut bad_tag_ops = vec![];
        let mut stop_at = None;
        let mut agent_end_at = None;
        let mut dropped_at: Vec<Option<u64>> = vec![];
        // stop-vote model
        let t_vote = case.params.inactive_timeout_ms;
        let (mut now_ms, mut last_write_act, mut last_read_act) = (0u64, 0u64, 0u64);
        let (mut write_voted, mut read_voted, mut http_voted) = (false, false, false);
        let mut seen_written: Vec<usize> = vec![];
        let mut seen_flushed: Vec<usize> = vec![0; lanes.len()];
        let (mut req_while_vote, mut coord_while_write_voted) = (false, false);
        let mut bad_tag_flushed_ms: Vec<(usize, u64)> = vec![];
        if !init_failed {
            for op in &case.ops {
                match op {
                    ROp::Sim(Op::Read { r, n }) | ROp::ProbeRead { r, n } if !sim.remotes.is_empty() => {
                        if matches!(op, ROp::ProbeRead { .. }) {
                            sim.poll(10_000);
                        }
                        let idx = pick_index(*r, sim.remotes.len());
                        let idle = !sim.is_woken() && !sim.is_done();
                        let before = sim.remotes[idx].bytes_read;
                        let cap = sim.remotes[idx].out_cap as u64;
                        let got = sim.remotes[idx].read(*n);
                        if idle && got > 0 && sim.is_woken() {
                            wakes.push(Wake {
                                remote: idx,
                                seq: sim.now(),
                                written: before + cap,
                            });
                        }
                    }
                    ROp::Sim(Op::Settle) => {
                        settle_all(&mut sim, &mut lanes, &clock);
                        settles.push(sim.tick());
                    }
                    ROp::Sim(Op::Drop { r }) if !sim.remotes.is_empty() => {
                        let idx = pick_index(*r, sim.remotes.len());
                        while dropped_at.len() < sim.remotes.len() {
                            dropped_at.push(None);
                        }
                        if dropped_at[idx].is_none() {
                            dropped_at[idx] = Some(sim.tick());
                        }
                        sim.remotes[idx].disconnect();
                    }
                    ROp::Sim(Op::Stop) => {
                        if stop_at.is_none() {
                            stop_at = Some(sim.tick());
                        }
                        sim.stop();
                    }
                    ROp::Sim(op) => apply_op(&mut sim, &names, op).await,
                    ROp::LaneRead { lane } => {
                        lanes[*lane as usize % nl].read_input(&clock);
                    }
                    ROp::Emit { lane, id, shape } => {
                        let li = *lane as usize % nl;
                        lanes[li].emit(&clock, None, *id, *shape, case.allow_empty && li == 0, case.bad_keys);
                    }
                    ROp::SyncEmit { lane, pick, id, shape } => {
                        let li = *lane as usize % nl;
                        if !lanes[li].pending_syncs.is_empty() {
                            let t = lanes[li].pending_syncs[pick_index(*pick, lanes[li].pending_syncs.len())];
                            lanes[li].emit(&clock, Some(t), *id, *shape, case.allow_empty && li == 0, case.bad_keys);
                        }
                    }
                    ROp::SyncDone { lane, pick } => {
                        let li = *lane as usize % nl;
                        if !lanes[li].pending_syncs.is_empty() && lanes[li].can_emit() {
                            let i = pick_index(*pick, lanes[li].pending_syncs.len());
                            let t = lanes[li].pending_syncs.remove(i);
                            lanes[li].synced(&clock, t);
                        }
                    }
                    ROp::LaneFlush { lane, n } => {
                        lanes[*lane as usize % nl].flush(&clock, *n);
                    }
                    ROp::BadTag { lane } => {
                        let li = *lane as usize % nl;
                        if lanes[li].can_emit() {
                            bad_tag_ops.push((sim.tick(), li));
                            lanes[li].bad_tag(&clock);
                        }
                    }
                    ROp::CloseLane { lane } => {
                        lanes[*lane as usize % nl].close(&clock);
                    }
                    ROp::AgentEnd => {
                        if let Some(tx) = shared.end.lock().take() {
                            agent_end_at = Some(sim.tick());
                            tx.trigger();
                        }
                    }
                    ROp::ProbeRead { .. } => {}
                }
                // ---- stop-vote model
                if let ROp::Sim(Op::Advance { ms }) = op {
                    now_ms += ms;
                }
                if matches!(op, ROp::Sim(Op::Attach { .. })) {
                    last_read_act = now_ms;
                    read_voted = false;
                }
                seen_written.resize(sim.remotes.len(), 0);
                for (ri, r) in sim.remotes.iter().enumerate() {
                    let written = r.sent.iter().filter(|s| s.3.is_some()).count();
                    for s in r.sent.iter().filter(|s| s.3.is_some()).skip(seen_written[ri]) {
                        let ghost = GHOST_NAMES.contains(&s.0.as_str());
                        let coord = match s.1 {
                            Req::Link | Req::Unlink => true,
                            Req::Sync => ghost,
                            Req::Command(_) => false,
                        };
                        let running = !sim.is_done();
                        let votes = [write_voted, read_voted, http_voted].iter().filter(|x| **x).count();
                        if running && votes >= 1 && votes < 3 {
                            req_while_vote = true;
                        }
                        if running && coord && write_voted {
                            coord_while_write_voted = true;
                        }
                        last_read_act = now_ms;
                        read_voted = false;
                        if coord {
                            last_write_act = now_ms;
                            write_voted = false;
                        }
                    }
                    seen_written[ri] = written;
                }
                for (li, l) in lanes.iter().enumerate() {
                    if l.emissions.iter().any(|e| e.kind == EmKind::BadTag && e.flushed.is_some()) && !bad_tag_flushed_ms.iter().any(|(x, _)| *x == li) {
                        bad_tag_flushed_ms.push((li, now_ms));
                    }
                    let flushed = l.emissions.iter().filter(|e| e.flushed.is_some()).count();
                    if flushed > seen_flushed[li] {
                        seen_flushed[li] = flushed;
                        last_write_act = now_ms;
                        write_voted = false;
                    }
                }
                if matches!(op, ROp::Sim(Op::Poll { .. }) | ROp::Sim(Op::Settle) | ROp::ProbeRead { .. }) && !sim.is_done() {
                    if !sim.remotes.is_empty() && now_ms - last_write_act >= t_vote {
                        write_voted = true;
                    }
                    if now_ms - last_read_act >= t_vote {
                        read_voted = true;
                    }
                    if now_ms >= t_vote {
                        http_voted = true;
                    }
                }
            }
        }
        // quiescent checkpoint with whatever is still running
        settle_all(&mut sim, &mut lanes, &clock);
        let checkpoint_seq = sim.tick();
        settles.push(checkpoint_seq);
        let done_at_checkpoint = sim.is_done();
        let mut at_cp: Vec<(usize, usize, bool)> = vec![];
        for r in sim.remotes.iter_mut() {
            let fired = r.disconnection_reason().is_some();
            at_cp.push((r.frames.len(), r.sent.len(), fired));
        }
        // the agent ends (if it has not already): the runtime must close every open link
        if let Some(tx) = shared.end.lock().take() {
            if agent_end_at.is_none() {
                agent_end_at = Some(sim.tick());
            }
            tx.trigger();
        }
        settle_all(&mut sim, &mut lanes, &clock);
        let done_at_end = sim.is_done();
        while dropped_at.len() < sim.remotes.len() {
            dropped_at.push(None);
        }
        let remotes = sim
            .remotes
            .iter_mut()
            .enumerate()
            .map(|(i, r)| RemoteObs {
                id: r.id,
                frames: r.frames.clone(),
                sent: r.sent.clone(),
                out_cap: r.out_cap,
                dropped_at: dropped_at[i],
                reason: r.disconnection_reason().map(|x| format!("{:?}", x)),
                eof: r.eof,
                decode_error: r.decode_error.clone(),
                frames_at_checkpoint: at_cp[i].0,
                sent_at_checkpoint: at_cp[i].1,
                reason_at_checkpoint: at_cp[i].2,
            })
            .collect();
        Obs {
            remotes,
            lanes: lanes
                .into_iter()
                .map(|l| LaneObs {
                    name: l.name,
                    kind: l.kind,
                    emissions: l.emissions,
                    received: l.received,
                    closed_at: l.closed_at,
                })
                .collect(),
            wakes,
            settles,
            bad_tag_ops,
            stop_at,
            agent_end_at,
            done_at_checkpoint,
            checkpoint_seq,
            done_at_end,
            result: sim.result.clone(),
            init_failed,
            bad_tag_flushed_ms,
            checkpoint_ms: now_ms,
            req_while_vote,
            coord_while_write_voted,
        }
    })
}

