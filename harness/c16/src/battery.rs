//! The battery of `#[derive(Form)]` types for C16, their proptest strategies and the `AnyCase`
//! wrapper that lets a case of any battery type be saved as a replay file.
//!
//! Every type derives serde so that cases can be written to / read from replay files. Floats are
//! serialised by bit pattern (JSON cannot carry NaN / infinities), big integers as decimal strings.
//! Equality of two instances (`same`) is equality of their serde_json trees: exact on float bits,
//! insensitive to `HashMap` iteration order.

use num_bigint::{BigInt, BigUint};
use proptest::prelude::*;
use proptest::strategy::Union;
use serde::de::DeserializeOwned;
use serde::{Deserialize, Serialize};
use std::collections::HashMap;
use std::fmt::Debug;
use swimos_form::{Form, Tag};

pub mod f64_bits {
    use serde::{Deserialize, Deserializer, Serializer};
    pub fn serialize<S: Serializer>(x: &f64, s: S) -> Result<S::Ok, S::Error> {
        s.serialize_u64(x.to_bits())
    }
    pub fn deserialize<'de, D: Deserializer<'de>>(d: D) -> Result<f64, D::Error> {
        Ok(f64::from_bits(u64::deserialize(d)?))
    }
}

pub mod opt_f64_bits {
    use serde::{Deserialize, Deserializer, Serialize, Serializer};
    pub fn serialize<S: Serializer>(x: &Option<f64>, s: S) -> Result<S::Ok, S::Error> {
        x.map(|x| x.to_bits()).serialize(s)
    }
    pub fn deserialize<'de, D: Deserializer<'de>>(d: D) -> Result<Option<f64>, D::Error> {
        Ok(Option::<u64>::deserialize(d)?.map(f64::from_bits))
    }
}

pub mod vec_f64_bits {
    use serde::{Deserialize, Deserializer, Serialize, Serializer};
    pub fn serialize<S: Serializer>(x: &[f64], s: S) -> Result<S::Ok, S::Error> {
        x.iter().map(|x| x.to_bits()).collect::<Vec<_>>().serialize(s)
    }
    pub fn deserialize<'de, D: Deserializer<'de>>(d: D) -> Result<Vec<f64>, D::Error> {
        Ok(Vec::<u64>::deserialize(d)?.into_iter().map(f64::from_bits).collect())
    }
}

pub mod bigint_str {
    use num_bigint::BigInt;
    use serde::{Deserialize, Deserializer, Serializer};
    use std::str::FromStr;
    pub fn serialize<S: Serializer>(x: &BigInt, s: S) -> Result<S::Ok, S::Error> {
        s.serialize_str(&x.to_string())
    }
    pub fn deserialize<'de, D: Deserializer<'de>>(d: D) -> Result<BigInt, D::Error> {
        BigInt::from_str(&String::deserialize(d)?).map_err(serde::de::Error::custom)
    }
}

pub mod biguint_str {
    use num_bigint::BigUint;
    use serde::{Deserialize, Deserializer, Serializer};
    use std::str::FromStr;
    pub fn serialize<S: Serializer>(x: &BigUint, s: S) -> Result<S::Ok, S::Error> {
        s.serialize_str(&x.to_string())
    }
    pub fn deserialize<'de, D: Deserializer<'de>>(d: D) -> Result<BigUint, D::Error> {
        BigUint::from_str(&String::deserialize(d)?).map_err(serde::de::Error::custom)
    }
}

/// A member of the battery.
pub trait Battery: Form + Clone + Debug + Serialize + DeserializeOwned + Send + 'static {
    fn arb() -> BoxedStrategy<Self>;

    fn same(&self, other: &Self) -> bool {
        match (serde_json::to_value(self), serde_json::to_value(other)) {
            (Ok(a), Ok(b)) => a == b,
            _ => false,
        }
    }
}

// ---------------------------------------------------------------------------------------------
// Leaf strategies

fn s() -> BoxedStrategy<String> {
    vgen::arb_text()
}

fn key() -> BoxedStrategy<String> {
    prop_oneof![
        4 => "[a-z][a-z0-9_]{0,5}",
        1 => vgen::arb_text(),
    ]
    .boxed()
}

fn i32s() -> BoxedStrategy<i32> {
    prop_oneof![
        2 => any::<i32>(),
        3 => -3i32..4,
        1 => proptest::sample::select(vec![i32::MIN, i32::MAX, 127, 128, -128, -129, 255, 256, 65535, 65536, -32768, -32769])
    ]
    .boxed()
}

fn i64s() -> BoxedStrategy<i64> {
    prop_oneof![
        2 => any::<i64>(),
        2 => -3i64..4,
        1 => any::<i32>().prop_map(|n| n as i64),
        1 => proptest::sample::select(vec![i64::MIN, i64::MAX, i32::MAX as i64 + 1, i32::MIN as i64 - 1, u32::MAX as i64, u32::MAX as i64 + 1])
    ]
    .boxed()
}

fn u32s() -> BoxedStrategy<u32> {
    prop_oneof![
        2 => any::<u32>(),
        2 => 0u32..4,
        1 => proptest::sample::select(vec![u32::MAX, i32::MAX as u32, i32::MAX as u32 + 1, 255, 256, 65535, 65536])
    ]
    .boxed()
}

fn u64s() -> BoxedStrategy<u64> {
    prop_oneof![
        2 => any::<u64>(),
        2 => 0u64..4,
        1 => proptest::sample::select(vec![u64::MAX, i64::MAX as u64, i64::MAX as u64 + 1, u32::MAX as u64, u32::MAX as u64 + 1, i32::MAX as u64 + 1])
    ]
    .boxed()
}

fn usizes() -> BoxedStrategy<usize> {
    u64s().prop_map(|n| n as usize).boxed()
}

fn f64s() -> BoxedStrategy<f64> {
    vgen::arb_f64()
}

fn bigints() -> BoxedStrategy<BigInt> {
    prop_oneof![
        2 => proptest::sample::select(vgen::boundary_bigs()),
        1 => any::<i64>().prop_map(BigInt::from),
        1 => (any::<i128>(), 0usize..70).prop_map(|(n, sh)| BigInt::from(n) << sh),
    ]
    .boxed()
}

fn biguints() -> BoxedStrategy<BigUint> {
    prop_oneof![
        2 => proptest::sample::select(vgen::boundary_bigs()).prop_map(|b| b.magnitude().clone()),
        1 => any::<u64>().prop_map(BigUint::from),
        1 => (any::<u128>(), 0usize..70).prop_map(|(n, sh)| BigUint::from(n) << sh),
    ]
    .boxed()
}

fn blobs() -> BoxedStrategy<Vec<u8>> {
    prop_oneof![
        3 => proptest::collection::vec(any::<u8>(), 0..12),
        1 => Just(vec![]),
        1 => proptest::collection::vec(any::<u8>(), 250..270),
    ]
    .boxed()
}

fn vec_of<S: Strategy + 'static>(s: S, max: usize) -> BoxedStrategy<Vec<S::Value>>
where
    S::Value: Debug,
{
    proptest::collection::vec(s, 0..=max).boxed()
}

fn opt<S: Strategy + 'static>(s: S) -> BoxedStrategy<Option<S::Value>>
where
    S::Value: Debug + Clone,
{
    proptest::option::of(s).boxed()
}

fn map_of<K: Strategy + 'static, V: Strategy + 'static>(k: K, v: V, max: usize) -> BoxedStrategy<HashMap<K::Value, V::Value>>
where
    K::Value: Debug + std::hash::Hash + Eq,
    V::Value: Debug,
{
    proptest::collection::hash_map(k, v, 0..=max).boxed()
}

macro_rules! impl_battery {
    ($ty:ty, $strat:expr) => {
        impl Battery for $ty {
            fn arb() -> BoxedStrategy<Self> {
                $strat.boxed()
            }
        }
    };
}

// ---------------------------------------------------------------------------------------------
// The battery

/// 1. unit struct
#[derive(Form, Clone, Debug, Serialize, Deserialize)]
pub struct Unit;
impl_battery!(Unit, Just(Unit));

/// 2. unit struct with a tag
#[derive(Form, Clone, Debug, Serialize, Deserialize)]
#[form(tag = "unit_renamed")]
pub struct UnitTagged;
impl_battery!(UnitTagged, Just(UnitTagged));

/// 3. labelled struct
#[derive(Form, Clone, Debug, Serialize, Deserialize)]
pub struct TwoFields {
    first: i32,
    second: String,
}
impl_battery!(TwoFields, (i32s(), s()).prop_map(|(first, second)| TwoFields { first, second }));

/// 4. tuple struct
#[derive(Form, Clone, Debug, Serialize, Deserialize)]
pub struct TupleTwo(i32, String);
impl_battery!(TupleTwo, (i32s(), s()).prop_map(|(a, b)| TupleTwo(a, b)));

/// 5. every numeric kind and the other primitives
#[derive(Form, Clone, Debug, Serialize, Deserialize)]
pub struct Numbers {
    a: i32,
    b: i64,
    c: u32,
    d: u64,
    #[serde(with = "f64_bits")]
    e: f64,
    f: bool,
    g: usize,
    #[serde(with = "bigint_str")]
    h: BigInt,
    #[serde(with = "biguint_str")]
    i: BigUint,
    j: Vec<u8>,
    k: (),
}
impl_battery!(
    Numbers,
    ((i32s(), i64s(), u32s(), u64s(), f64s()), (any::<bool>(), usizes(), bigints(), biguints(), blobs())).prop_map(
        |((a, b, c, d, e), (f, g, h, i, j))| Numbers { a, b, c, d, e, f, g, h, i, j, k: () }
    )
);

/// 6. tag + renamed field + field naming convention
#[derive(Form, Clone, Debug, Serialize, Deserialize)]
#[form(tag = "Ren", fields_convention = "camel")]
pub struct Renamed {
    #[form(name = "renamed")]
    first_field: i32,
    second_field: String,
    third_field_name: Option<i64>,
}
impl_battery!(
    Renamed,
    (i32s(), s(), opt(i64s())).prop_map(|(a, b, c)| Renamed { first_field: a, second_field: b, third_field_name: c })
);

/// 7. tuple struct with named (slot) fields and a kebab-case tag
#[derive(Form, Clone, Debug, Serialize, Deserialize)]
#[form(convention = "kebab")]
pub struct TupleNamed(#[form(name = "first")] i32, #[form(name = "second")] String);
impl_battery!(TupleNamed, (i32s(), s()).prop_map(|(a, b)| TupleNamed(a, b)));

/// 8. simple attribute
#[derive(Form, Clone, Debug, Serialize, Deserialize)]
pub struct AttrLift {
    #[form(attr)]
    in_attr: bool,
    first: i32,
    second: String,
}
impl_battery!(
    AttrLift,
    (any::<bool>(), i32s(), s()).prop_map(|(in_attr, first, second)| AttrLift { in_attr, first, second })
);

/// 9. collection in an attribute
#[derive(Form, Clone, Debug, Serialize, Deserialize)]
pub struct AttrVec {
    #[form(attr)]
    items: Vec<i32>,
    name: String,
}
impl_battery!(AttrVec, (vec_of(i32s(), 4), s()).prop_map(|(items, name)| AttrVec { items, name }));

/// 10. map in an attribute, several attributes
#[derive(Form, Clone, Debug, Serialize, Deserialize)]
pub struct AttrMap {
    #[form(attr)]
    m: HashMap<String, i32>,
    #[form(attr, name = "other")]
    o: Option<String>,
    x: i32,
}
impl_battery!(
    AttrMap,
    (map_of(key(), i32s(), 3), opt(s()), i32s()).prop_map(|(m, o, x)| AttrMap { m, o, x })
);

/// 11. header body (simple)
#[derive(Form, Clone, Debug, Serialize, Deserialize)]
pub struct HeaderBodyS {
    #[form(header_body)]
    hb: bool,
    first: i32,
}
impl_battery!(HeaderBodyS, (any::<bool>(), i32s()).prop_map(|(hb, first)| HeaderBodyS { hb, first }));

/// 12. header body (collection)
#[derive(Form, Clone, Debug, Serialize, Deserialize)]
pub struct HeaderBodyVec {
    #[form(header_body)]
    hb: Vec<bool>,
    first: i32,
}
impl_battery!(
    HeaderBodyVec,
    (vec_of(any::<bool>(), 4), i32s()).prop_map(|(hb, first)| HeaderBodyVec { hb, first })
);

/// 13. header slots
#[derive(Form, Clone, Debug, Serialize, Deserialize)]
pub struct HeaderSlots {
    #[form(header)]
    node: String,
    #[form(header)]
    lane: String,
    first: i32,
}
impl_battery!(
    HeaderSlots,
    (s(), s(), i32s()).prop_map(|(node, lane, first)| HeaderSlots { node, lane, first })
);

/// 14. header body + header slots (one optional, one renamed) + body slots
#[derive(Form, Clone, Debug, Serialize, Deserialize)]
#[form(tag = "complex")]
pub struct ComplexHeader {
    #[form(header_body)]
    count: i32,
    #[form(header)]
    node: String,
    #[form(header, name = "laneUri")]
    lane: Option<i32>,
    first: i32,
    second: String,
}
impl_battery!(
    ComplexHeader,
    (i32s(), s(), opt(i32s()), i32s(), s()).prop_map(|(count, node, lane, first, second)| ComplexHeader {
        count,
        node,
        lane,
        first,
        second
    })
);

/// 15. header body that is a record + header slot that is a collection
#[derive(Form, Clone, Debug, Serialize, Deserialize)]
pub struct HeaderNested {
    #[form(header_body)]
    hb: TwoFields,
    #[form(header)]
    list: Vec<i32>,
    z: Option<String>,
}
impl_battery!(
    HeaderNested,
    (TwoFields::arb(), vec_of(i32s(), 3), opt(s())).prop_map(|(hb, list, z)| HeaderNested { hb, list, z })
);

/// 16. body replaced by a simple field
#[derive(Form, Clone, Debug, Serialize, Deserialize)]
pub struct BodyRepl {
    first: i32,
    #[form(body)]
    second: String,
}
impl_battery!(BodyRepl, (i32s(), s()).prop_map(|(first, second)| BodyRepl { first, second }));

/// 17. body replaced by a nested record
#[derive(Form, Clone, Debug, Serialize, Deserialize)]
pub struct BodyNested {
    node: String,
    #[form(body)]
    inner: TwoFields,
}
impl_battery!(BodyNested, (s(), TwoFields::arb()).prop_map(|(node, inner)| BodyNested { node, inner }));

/// 18. body replaced by a collection of records, attribute and header too
#[derive(Form, Clone, Debug, Serialize, Deserialize)]
pub struct BodyVec {
    #[form(header)]
    n: u32,
    #[form(attr)]
    a: Option<i32>,
    #[form(body)]
    items: Vec<TupleTwo>,
}
impl_battery!(
    BodyVec,
    (u32s(), opt(i32s()), vec_of(TupleTwo::arb(), 3)).prop_map(|(n, a, items)| BodyVec { n, a, items })
);

#[derive(Tag, Clone, Copy, Debug, Serialize, Deserialize, PartialEq, Eq)]
pub enum Kind {
    Alpha,
    #[form(tag = "beta")]
    Beta,
    Gamma,
}

/// 19. tag taken from a field
#[derive(Form, Clone, Debug, Serialize, Deserialize)]
pub struct TagField {
    first: i32,
    #[form(tag)]
    kind: Kind,
    #[form(header)]
    h: Option<i32>,
}
impl_battery!(
    TagField,
    (i32s(), proptest::sample::select(vec![Kind::Alpha, Kind::Beta, Kind::Gamma]), opt(i32s()))
        .prop_map(|(first, kind, h)| TagField { first, kind, h })
);

/// 20. skipped fields (always at their default: a skipped field is by definition not carried)
#[derive(Form, Clone, Debug, Serialize, Deserialize)]
pub struct Skippy {
    present: i32,
    #[form(skip)]
    skipped: String,
    #[form(attr)]
    at: String,
    #[form(skip)]
    skipped2: Option<i32>,
}
impl_battery!(
    Skippy,
    (i32s(), s()).prop_map(|(present, at)| Skippy { present, skipped: String::new(), at, skipped2: None })
);

/// 21. skipped tuple field
#[derive(Form, Clone, Debug, Serialize, Deserialize)]
pub struct SkippyTuple(#[form(skip)] i32, String, #[form(skip)] u64, i64);
impl_battery!(SkippyTuple, (s(), i64s()).prop_map(|(a, b)| SkippyTuple(0, a, 0, b)));

/// 22/23. generic labelled struct (two instantiations)
#[derive(Form, Clone, Debug, Serialize, Deserialize)]
pub struct Generic<S, T> {
    first: S,
    second: T,
}
pub type GenericA = Generic<i32, String>;
pub type GenericB = Generic<Vec<u8>, Option<TupleTwo>>;
impl_battery!(GenericA, (i32s(), s()).prop_map(|(first, second)| Generic { first, second }));
impl_battery!(
    GenericB,
    (blobs(), opt(TupleTwo::arb())).prop_map(|(first, second)| Generic { first, second })
);

/// 24. generic header
#[derive(Form, Clone, Debug, Serialize, Deserialize)]
pub struct GenericHeader<S, T, U> {
    #[form(header)]
    first: S,
    #[form(header_body)]
    second: T,
    third: U,
}
pub type GenericHeaderA = GenericHeader<i32, String, Vec<i64>>;
impl_battery!(
    GenericHeaderA,
    (i32s(), s(), vec_of(i64s(), 3)).prop_map(|(first, second, third)| GenericHeader { first, second, third })
);

/// 25. newtype (ordinal)
#[derive(Form, Clone, Debug, Serialize, Deserialize)]
#[form(newtype)]
pub struct NewtypeI(i64);
impl_battery!(NewtypeI, i64s().prop_map(NewtypeI));

/// 26. newtype (labelled, around a record with a header, with skipped siblings)
#[derive(Form, Clone, Debug, Serialize, Deserialize)]
#[form(newtype)]
pub struct NewtypeS {
    #[form(skip)]
    ignored: i32,
    inner: ComplexHeader,
}
impl_battery!(NewtypeS, ComplexHeader::arb().prop_map(|inner| NewtypeS { ignored: 0, inner }));

/// 27. options in every position
#[derive(Form, Clone, Debug, Serialize, Deserialize)]
pub struct Opts {
    first: Option<i32>,
    second: Option<String>,
    #[form(header)]
    third: Option<bool>,
    #[form(attr)]
    fourth: Option<i32>,
    #[serde(with = "opt_f64_bits")]
    fifth: Option<f64>,
    sixth: Option<Vec<i32>>,
}
impl_battery!(
    Opts,
    (opt(i32s()), opt(s()), opt(any::<bool>()), opt(i32s()), opt(f64s()), opt(vec_of(i32s(), 2))).prop_map(
        |(first, second, third, fourth, fifth, sixth)| Opts { first, second, third, fourth, fifth, sixth }
    )
);

/// 28. collections
#[derive(Form, Clone, Debug, Serialize, Deserialize)]
pub struct Collections {
    v: Vec<i64>,
    m: HashMap<String, i32>,
    mm: HashMap<i32, Vec<String>>,
    blob: Vec<u8>,
    #[serde(with = "vec_f64_bits")]
    fs: Vec<f64>,
    vo: Vec<Option<i32>>,
    t: (i32, String),
}
impl_battery!(
    Collections,
    (
        vec_of(i64s(), 3),
        map_of(key(), i32s(), 3),
        map_of(i32s(), vec_of(s(), 2), 2),
        blobs(),
        vec_of(f64s(), 3),
        vec_of(opt(i32s()), 3),
        (i32s(), s())
    )
        .prop_map(|(v, m, mm, blob, fs, vo, t)| Collections { v, m, mm, blob, fs, vo, t })
);

/// 29. C-like enum
#[derive(Form, Clone, Copy, Debug, Serialize, Deserialize)]
pub enum Color {
    Red,
    Green,
    #[form(tag = "blue")]
    Blue,
}
impl_battery!(Color, proptest::sample::select(vec![Color::Red, Color::Green, Color::Blue]));

/// 30. data enum with every variant shape
#[derive(Form, Clone, Debug, Serialize, Deserialize)]
pub enum Mixed {
    V0,
    V1 {
        first: String,
        second: i64,
    },
    V2(String, i64),
    #[form(tag = "v3")]
    V3 {
        #[form(header)]
        h: i32,
        #[form(body)]
        b: Vec<i32>,
    },
    V4 {
        #[form(attr)]
        a: Vec<i32>,
        #[form(header_body)]
        hb: String,
        x: Option<i32>,
    },
    V5(#[form(header, name = "key")] String, #[form(body)] TwoFields),
    V6(#[form(header_body)] i32, #[form(name = "named")] bool),
}
impl_battery!(
    Mixed,
    prop_oneof![
        Just(Mixed::V0),
        (s(), i64s()).prop_map(|(first, second)| Mixed::V1 { first, second }),
        (s(), i64s()).prop_map(|(a, b)| Mixed::V2(a, b)),
        (i32s(), vec_of(i32s(), 3)).prop_map(|(h, b)| Mixed::V3 { h, b }),
        (vec_of(i32s(), 3), s(), opt(i32s())).prop_map(|(a, hb, x)| Mixed::V4 { a, hb, x }),
        (s(), TwoFields::arb()).prop_map(|(a, b)| Mixed::V5(a, b)),
        (i32s(), any::<bool>()).prop_map(|(a, b)| Mixed::V6(a, b)),
    ]
);

/// 31. generic enum, the map-update shape used by the runtime (header slot + replaced body)
#[derive(Form, Clone, Debug, Serialize, Deserialize)]
pub enum MapUpdate<K, V> {
    #[form(tag = "update")]
    Update(#[form(header, name = "key")] K, #[form(body)] V),
    #[form(tag = "remove")]
    Remove(#[form(header, name = "key")] K),
    #[form(tag = "clear")]
    Clear,
}
pub type MapUpdateA = MapUpdate<String, Option<Mixed>>;
impl_battery!(
    MapUpdateA,
    prop_oneof![
        (s(), opt(Mixed::arb())).prop_map(|(k, v)| MapUpdate::Update(k, v)),
        s().prop_map(MapUpdate::Remove),
        Just(MapUpdate::Clear),
    ]
);
pub type MapUpdateB = MapUpdate<i32, i32>;
impl_battery!(
    MapUpdateB,
    prop_oneof![
        (i32s(), i32s()).prop_map(|(k, v)| MapUpdate::Update(k, v)),
        i32s().prop_map(MapUpdate::Remove),
        Just(MapUpdate::Clear),
    ]
);

/// 33. enum with naming conventions
#[derive(Form, Clone, Debug, Serialize, Deserialize)]
#[form(convention = "kebab", fields_convention = "camel")]
pub enum Conv {
    FirstVariant,
    SecondVariant { field_one: i32, field_two_b: Option<String> },
    #[form(tag = "Explicit")]
    ThirdVariant(i32),
}
impl_battery!(
    Conv,
    prop_oneof![
        Just(Conv::FirstVariant),
        (i32s(), opt(s())).prop_map(|(a, b)| Conv::SecondVariant { field_one: a, field_two_b: b }),
        i32s().prop_map(Conv::ThirdVariant),
    ]
);

/// 34. nesting: records in slots, options, vectors and maps
#[derive(Form, Clone, Debug, Serialize, Deserialize)]
pub struct Nested {
    inner: TwoFields,
    opt: Option<AttrLift>,
    list: Vec<TupleTwo>,
    color: Color,
    mixed: Mixed,
    by_name: HashMap<String, HeaderSlots>,
}
impl_battery!(
    Nested,
    (
        TwoFields::arb(),
        opt(AttrLift::arb()),
        vec_of(TupleTwo::arb(), 3),
        Color::arb(),
        Mixed::arb(),
        map_of(key(), HeaderSlots::arb(), 2)
    )
        .prop_map(|(inner, opt, list, color, mixed, by_name)| Nested { inner, opt, list, color, mixed, by_name })
);

/// 35. sequences of records that themselves lift collections into attributes / headers (each
/// element re-uses the element recogniser after a reset)
#[derive(Form, Clone, Debug, Serialize, Deserialize)]
pub struct Sequences {
    attr_vecs: Vec<AttrVec>,
    attr_maps: Vec<AttrMap>,
    header_vecs: Vec<HeaderBodyVec>,
    headers: Vec<ComplexHeader>,
    bodies: Vec<BodyVec>,
    opts: Vec<Opts>,
}
impl_battery!(
    Sequences,
    (
        vec_of(AttrVec::arb(), 3),
        vec_of(AttrMap::arb(), 3),
        vec_of(HeaderBodyVec::arb(), 3),
        vec_of(ComplexHeader::arb(), 3),
        vec_of(BodyVec::arb(), 2),
        vec_of(Opts::arb(), 2)
    )
        .prop_map(|(attr_vecs, attr_maps, header_vecs, headers, bodies, opts)| Sequences {
            attr_vecs,
            attr_maps,
            header_vecs,
            headers,
            bodies,
            opts
        })
);

/// 36. records / enums placed in attribute, header and body positions of another record
#[derive(Form, Clone, Debug, Serialize, Deserialize)]
pub struct Holder {
    #[form(attr)]
    c: Color,
    #[form(attr)]
    r: TwoFields,
    #[form(header)]
    m: Mixed,
    #[form(header)]
    t: (i32, i32),
    #[form(body)]
    b: Mixed,
}
impl_battery!(
    Holder,
    (Color::arb(), TwoFields::arb(), Mixed::arb(), (i32s(), i32s()), Mixed::arb())
        .prop_map(|(c, r, m, t, b)| Holder { c, r, m, t, b })
);

/// 37. tuple struct with attribute, header body and ordinal body fields
#[derive(Form, Clone, Debug, Serialize, Deserialize)]
pub struct TupleAttr(
    #[form(attr, name = "a")] i32,
    #[form(header_body)] Option<String>,
    Vec<i32>,
    Option<bool>,
);
impl_battery!(
    TupleAttr,
    (i32s(), opt(s()), vec_of(i32s(), 2), opt(any::<bool>())).prop_map(|(a, b, c, d)| TupleAttr(a, b, c, d))
);

/// 38. newtype around a collection
#[derive(Form, Clone, Debug, Serialize, Deserialize)]
#[form(newtype)]
pub struct NewtypeV(Vec<i32>);
impl_battery!(NewtypeV, vec_of(i32s(), 3).prop_map(NewtypeV));

/// 39. less usual things in attribute position
#[derive(Form, Clone, Debug, Serialize, Deserialize)]
pub struct AttrExtras {
    #[form(attr)]
    vo: Vec<Option<i32>>,
    #[form(attr)]
    t: (i32, String),
    #[form(attr)]
    u: (),
    #[form(attr)]
    nv: NewtypeV,
    #[form(attr)]
    cs: Vec<Color>,
    #[form(attr)]
    #[serde(with = "f64_bits")]
    f: f64,
    x: i32,
}
impl_battery!(
    AttrExtras,
    (vec_of(opt(i32s()), 3), (i32s(), s()), NewtypeV::arb(), vec_of(Color::arb(), 2), f64s(), i32s())
        .prop_map(|(vo, t, nv, cs, f, x)| AttrExtras { vo, t, u: (), nv, cs, f, x })
);

/// 40. less usual things in header position
#[derive(Form, Clone, Debug, Serialize, Deserialize)]
pub struct HeaderExtras {
    #[form(header_body)]
    o: Option<i32>,
    #[form(header)]
    m: HashMap<String, i32>,
    #[form(header)]
    vo: Vec<Option<i32>>,
    #[form(header)]
    big: u64,
    #[form(header)]
    #[serde(with = "f64_bits")]
    f: f64,
    #[form(header)]
    nv: NewtypeV,
    y: Option<Vec<Option<i32>>>,
}
impl_battery!(
    HeaderExtras,
    (
        opt(i32s()),
        map_of(key(), i32s(), 2),
        vec_of(opt(i32s()), 3),
        u64s(),
        f64s(),
        NewtypeV::arb(),
        opt(vec_of(opt(i32s()), 2))
    )
        .prop_map(|(o, m, vo, big, f, nv, y)| HeaderExtras { o, m, vo, big, f, nv, y })
);

/// 41. body replaced by a map
#[derive(Form, Clone, Debug, Serialize, Deserialize)]
pub struct BodyMap {
    #[form(header)]
    h: Option<String>,
    #[form(body)]
    m: HashMap<String, Option<i32>>,
}
impl_battery!(BodyMap, (opt(s()), map_of(key(), opt(i32s()), 3)).prop_map(|(h, m)| BodyMap { h, m }));

/// 42. body replaced by a simple optional value
#[derive(Form, Clone, Debug, Serialize, Deserialize)]
pub struct BodyOpt {
    a: i32,
    #[form(body)]
    o: Option<i32>,
}
impl_battery!(BodyOpt, (i32s(), opt(i32s())).prop_map(|(a, o)| BodyOpt { a, o }));

pub use crate::extras::*;
use std::sync::Arc;
use std::time::Duration;
use swimos_model::{Blob, Text, Timestamp};
use swimos_utilities::future::RetryStrategy;
use swimos_utilities::routing::RouteUri;

pub type BodyBlobVec = BodyOf<Vec<u8>>;
pub type BodyBlob = BodyOf<Blob>;
pub type BareBlobVec = BareBodyOf<Vec<u8>>;
pub type BareBoxed = BareBodyOf<Box<[u8]>>;
pub type BodyBigInt = BodyOf<BigInt>;
pub type BareBigUint = BareBodyOf<BigUint>;
pub type BodyF64 = BodyOf<f64>;
pub type BareBool = BareBodyOf<bool>;
pub type BodyI64 = BodyOf<i64>;
pub type BareU64 = BareBodyOf<u64>;
pub type BodyTs = BodyOf<Timestamp>;
pub type BodyDur = BodyOf<Duration>;
pub type BodyUri = BodyOf<RouteUri>;
pub type BareText = BareBodyOf<Text>;
pub type BodyUnit = BodyOf<()>;
pub type BodyArcRec = BodyOf<Arc<TwoFields>>;
pub type BareRetry = BareBodyOf<RetryStrategy>;
pub type PosBlobVec = Positions<Vec<u8>>;
pub type PosBlob = Positions<Blob>;
pub type PosTs = Positions<Timestamp>;
pub type PosDur = Positions<Duration>;
pub type PosUri = Positions<RouteUri>;
pub type PosText = Positions<Text>;
pub type PosRetry = Positions<RetryStrategy>;
pub type PosBig = Positions<BigInt>;
pub type TopBlobVec = Top<Vec<u8>>;
pub type TopBlob = Top<Blob>;
pub type TopBoxed = Top<Box<[u8]>>;
pub type TopTs = Top<Timestamp>;
pub type TopDur = Top<Duration>;
pub type TopUri = Top<RouteUri>;
pub type TopText = Top<Text>;
pub type TopRetry = Top<RetryStrategy>;
pub type TopArcRec = Top<Arc<TwoFields>>;
pub type TopBig = Top<BigInt>;
pub type MapUpdArcBlob = MapUpdateArc<Text, Vec<u8>>;
pub type MapUpdArcRec = MapUpdateArc<RouteUri, TwoFields>;

// built-in implementations at top level (wrapped so that they have a name and serde)
macro_rules! builtin {
    ($name:ident, $ty:ty, $strat:expr) => {
        pub type $name = $ty;
        impl_battery!($name, $strat);
    };
}
builtin!(BVecI32, Vec<i32>, vec_of(i32s(), 4));
builtin!(BMap, HashMap<String, i64>, map_of(key(), i64s(), 3));
builtin!(BOptStr, Option<String>, opt(s()));
builtin!(BTuple, (i32, String, bool), (i32s(), s(), any::<bool>()));
builtin!(BString, String, s());
builtin!(BU64, u64, u64s());
builtin!(BVecRec, Vec<Mixed>, vec_of(Mixed::arb(), 3));

// ---------------------------------------------------------------------------------------------
// AnyCase

/// Visitor over a typed case.
pub trait Visitor {
    type Out;
    fn visit<T: Battery>(self, info: &'static TypeInfo, value: &T) -> Self::Out;
}

/// Visitor over a battery type (no instance).
pub trait TypeVisitor {
    type Out;
    fn visit<T: Battery>(self, info: &'static TypeInfo) -> Self::Out;
}

#[derive(Debug)]
pub struct TypeInfo {
    pub index: usize,
    pub name: &'static str,
    /// Which derive features the type exercises (for the non-triviality rule).
    pub features: &'static [&'static str],
}

macro_rules! battery {
    ($( $variant:ident : $ty:ty => [$($feat:literal),*] ),* $(,)?) => {
        #[derive(Clone, Debug, Serialize, Deserialize)]
        pub enum AnyCase {
            $( $variant($ty), )*
        }

        #[allow(non_camel_case_types, dead_code)]
        #[repr(usize)]
        enum Ix { $( $variant, )* }

        pub static TYPES: &[TypeInfo] = &[
            $( TypeInfo { index: Ix::$variant as usize, name: stringify!($variant), features: &[$($feat),*] }, )*
        ];

        impl AnyCase {
            pub fn info(&self) -> &'static TypeInfo {
                match self {
                    $( AnyCase::$variant(_) => &TYPES[Ix::$variant as usize], )*
                }
            }

            pub fn visit<V: Visitor>(&self, visitor: V) -> V::Out {
                match self {
                    $( AnyCase::$variant(v) => visitor.visit::<$ty>(&TYPES[Ix::$variant as usize], v), )*
                }
            }

            /// One strategy per battery type.
            pub fn strategies() -> Vec<BoxedStrategy<AnyCase>> {
                vec![
                    $( <$ty as Battery>::arb().prop_map(AnyCase::$variant).boxed(), )*
                ]
            }
        }

        pub fn visit_type<V: TypeVisitor>(index: usize, visitor: V) -> V::Out {
            $( if index == Ix::$variant as usize { return visitor.visit::<$ty>(&TYPES[index]); } )*
            panic!("no battery type {}", index)
        }
    };
}

battery! {
    Unit: Unit => [],
    UnitTagged: UnitTagged => ["tag"],
    TwoFields: TwoFields => [],
    TupleTwo: TupleTwo => [],
    Numbers: Numbers => [],
    Renamed: Renamed => ["tag", "rename", "convention"],
    TupleNamed: TupleNamed => ["rename", "convention"],
    AttrLift: AttrLift => ["attr"],
    AttrVec: AttrVec => ["attr", "collection"],
    AttrMap: AttrMap => ["attr", "collection", "rename"],
    HeaderBodyS: HeaderBodyS => ["header_body"],
    HeaderBodyVec: HeaderBodyVec => ["header_body", "collection"],
    HeaderSlots: HeaderSlots => ["header"],
    ComplexHeader: ComplexHeader => ["tag", "header", "header_body", "rename"],
    HeaderNested: HeaderNested => ["header", "header_body", "nested", "collection"],
    BodyRepl: BodyRepl => ["body"],
    BodyNested: BodyNested => ["body", "nested"],
    BodyVec: BodyVec => ["body", "header", "attr", "collection"],
    TagField: TagField => ["tag_field", "header"],
    Skippy: Skippy => ["skip", "attr"],
    SkippyTuple: SkippyTuple => ["skip"],
    GenericA: GenericA => ["generic"],
    GenericB: GenericB => ["generic", "nested"],
    GenericHeaderA: GenericHeaderA => ["generic", "header", "header_body"],
    NewtypeI: NewtypeI => ["newtype"],
    NewtypeS: NewtypeS => ["newtype", "skip", "nested"],
    Opts: Opts => ["header", "attr", "option"],
    Collections: Collections => ["collection"],
    Color: Color => ["enum", "tag"],
    Mixed: Mixed => ["enum", "tag", "header", "header_body", "attr", "body", "rename"],
    MapUpdateA: MapUpdateA => ["enum", "generic", "tag", "header", "body", "rename", "nested"],
    MapUpdateB: MapUpdateB => ["enum", "generic", "tag", "header", "body", "rename"],
    Conv: Conv => ["enum", "convention", "tag"],
    Nested: Nested => ["nested", "collection"],
    Sequences: Sequences => ["nested", "collection", "attr", "header", "header_body", "body"],
    Holder: Holder => ["attr", "header", "body", "nested"],
    TupleAttr: TupleAttr => ["attr", "header_body", "rename"],
    NewtypeV: NewtypeV => ["newtype", "collection"],
    AttrExtras: AttrExtras => ["attr", "collection", "nested", "newtype"],
    HeaderExtras: HeaderExtras => ["header", "header_body", "collection", "newtype"],
    BodyMap: BodyMap => ["header", "body", "collection"],
    BodyOpt: BodyOpt => ["body", "option"],
    BodyBlobVec: BodyBlobVec => ["generic", "header", "body", "blob"],
    BodyBlob: BodyBlob => ["generic", "header", "body", "blob"],
    BareBlobVec: BareBlobVec => ["generic", "tag", "body", "blob"],
    BareBoxed: BareBoxed => ["generic", "tag", "body", "blob"],
    BodyBigInt: BodyBigInt => ["generic", "header", "body"],
    BareBigUint: BareBigUint => ["generic", "tag", "body"],
    BodyF64: BodyF64 => ["generic", "header", "body"],
    BareBool: BareBool => ["generic", "tag", "body"],
    BodyI64: BodyI64 => ["generic", "header", "body"],
    BareU64: BareU64 => ["generic", "tag", "body"],
    BodyTs: BodyTs => ["generic", "header", "body", "builtin"],
    BodyDur: BodyDur => ["generic", "header", "body", "builtin"],
    BodyUri: BodyUri => ["generic", "header", "body", "builtin"],
    BareText: BareText => ["generic", "tag", "body", "builtin"],
    BodyUnit: BodyUnit => ["generic", "header", "body"],
    BodyArcRec: BodyArcRec => ["generic", "header", "body", "nested", "builtin"],
    BareRetry: BareRetry => ["generic", "tag", "body", "builtin"],
    PosBlobVec: PosBlobVec => ["generic", "attr", "header", "header_body", "collection", "blob"],
    PosBlob: PosBlob => ["generic", "attr", "header", "header_body", "collection", "blob"],
    PosTs: PosTs => ["generic", "attr", "header", "header_body", "collection", "builtin"],
    PosDur: PosDur => ["generic", "attr", "header", "header_body", "collection", "builtin"],
    PosUri: PosUri => ["generic", "attr", "header", "header_body", "collection", "builtin"],
    PosText: PosText => ["generic", "attr", "header", "header_body", "collection", "builtin"],
    PosRetry: PosRetry => ["generic", "attr", "header", "header_body", "collection", "builtin"],
    PosBig: PosBig => ["generic", "attr", "header", "header_body", "collection"],
    TopBlobVec: TopBlobVec => ["newtype", "blob"],
    TopBlob: TopBlob => ["newtype", "blob"],
    TopBoxed: TopBoxed => ["newtype", "blob"],
    TopTs: TopTs => ["newtype", "builtin"],
    TopDur: TopDur => ["newtype", "builtin"],
    TopUri: TopUri => ["newtype", "builtin"],
    TopText: TopText => ["newtype", "builtin"],
    TopRetry: TopRetry => ["newtype", "builtin"],
    TopArcRec: TopArcRec => ["newtype", "builtin", "nested"],
    TopBig: TopBig => ["newtype"],
    MapUpdArcBlob: MapUpdArcBlob => ["enum", "generic", "tag", "header", "body", "rename", "blob", "builtin"],
    MapUpdArcRec: MapUpdArcRec => ["enum", "generic", "tag", "header", "body", "rename", "nested", "builtin"],
    Builtins: Builtins => ["builtin", "attr", "header"],
    ManyAttrs: ManyAttrs => ["attr", "sizes"],
    ManyFields: ManyFields => ["header", "sizes"],
    Sizes: Sizes => ["attr", "header", "collection", "nested", "sizes"],
    BVecI32: BVecI32 => ["builtin"],
    BMap: BMap => ["builtin"],
    BOptStr: BOptStr => ["builtin"],
    BTuple: BTuple => ["builtin"],
    BString: BString => ["builtin"],
    BU64: BU64 => ["builtin"],
    BVecRec: BVecRec => ["builtin", "nested"],
}

pub fn any_case() -> BoxedStrategy<AnyCase> {
    Union::new(AnyCase::strategies()).boxed()
}
