//! Writes the seed corpus of the `codec_stream` fuzz target: for every C10 decoder family the output of the
//! encoder(s) the repository pairs it with (raw and Recon-printing ones mixed, as /verif/harness/c10 does),
//! prefixed with the 4 byte input header `[family][c0][c1][c2]`.
//!
//!   cd /verif/fuzz && CARGO_TARGET_DIR=/tmp/vt-fuzz cargo run --offline --example gen_corpus -- corpus/codec_stream
//!
//! Deterministic: running it again rewrites the same files.
use bytes::BytesMut;
use std::fmt::Debug;
use swimos_agent_protocol::encoding::{command::*, downlink::*, lane::*, map::*, store::*};
use swimos_agent_protocol::{
    CommandMessage, DownlinkNotification, DownlinkOperation, LaneRequest, LaneResponse, MapMessage, MapOperation,
    StoreInitMessage, StoreInitialized, StoreResponse,
};
use swimos_api::address::{Address, RelativeAddress};
use swimos_messages::protocol::{
    RawRequestMessageEncoder, RawResponseMessageEncoder, RequestMessage, ResponseMessage, ResponseMessageEncoder,
};
use swimos_model::Value;
use swimos_recon::parser::parse_recognize;
use swimos_recon::WithLenReconEncoder;
use swimos_utilities::encoding::WithLengthBytesCodec;
use tokio_util::codec::Encoder;
use uuid::Uuid;

include!("../fuzz_targets/codec_fams.rs");

type B = &'static [u8];

/// Recon bodies as they appear on the wire (the padded one only through raw encoders).
const BODIES: [B; 8] = [
    b"1",
    b"\"hello\"",
    b"@tag(1,2){a:3,b:{}}",
    b"  7 \n",
    b"-12.5e3",
    "\"\u{e9}\u{20ac}\"".as_bytes(),
    b"%AAEC",
    b"true",
];

fn val(b: B) -> Value {
    parse_recognize::<Value>(std::str::from_utf8(b).unwrap().trim(), false).expect("seed body parses")
}

fn frame<E: Encoder<T>, T>(mut e: E, item: T) -> Vec<u8>
where
    E::Error: Debug,
{
    let mut dst = BytesMut::new();
    e.encode(item, &mut dst).expect("encoder failed");
    dst.to_vec()
}

fn id(n: u8) -> Uuid {
    Uuid::from_u128(0x0102_0304_0506_0708_090a_0b0c_0d0e_0f10u128.wrapping_mul(n as u128 + 1))
}

fn map_msgs_raw() -> Vec<MapMessage<B, B>> {
    vec![
        MapMessage::Update { key: BODIES[0], value: BODIES[1] },
        MapMessage::Update { key: BODIES[2], value: BODIES[3] },
        MapMessage::Remove { key: BODIES[5] },
        MapMessage::Clear,
        MapMessage::Take(3),
        MapMessage::Drop(u64::MAX),
    ]
}
fn map_msgs_typed() -> Vec<MapMessage<Value, Value>> {
    vec![
        MapMessage::Update { key: val(BODIES[1]), value: val(BODIES[2]) },
        MapMessage::Remove { key: val(BODIES[4]) },
        MapMessage::Clear,
        MapMessage::Take(0),
        MapMessage::Drop(7),
    ]
}
fn map_ops_raw() -> Vec<MapOperation<B, B>> {
    vec![
        MapOperation::Update { key: BODIES[0], value: BODIES[1] },
        MapOperation::Update { key: BODIES[2], value: BODIES[3] },
        MapOperation::Remove { key: BODIES[5] },
        MapOperation::Clear,
    ]
}
fn map_ops_typed() -> Vec<MapOperation<Value, Value>> {
    vec![
        MapOperation::Update { key: val(BODIES[1]), value: val(BODIES[2]) },
        MapOperation::Remove { key: val(BODIES[4]) },
        MapOperation::Clear,
    ]
}

fn lane_req<T: Clone>(bodies: &[T]) -> Vec<LaneRequest<T>> {
    let mut v: Vec<LaneRequest<T>> = bodies.iter().cloned().map(LaneRequest::Command).collect();
    v.insert(1, LaneRequest::InitComplete);
    v.insert(2, LaneRequest::Sync(id(1)));
    v
}
fn lane_resp<T: Clone>(bodies: &[T]) -> Vec<LaneResponse<T>> {
    let mut v: Vec<LaneResponse<T>> = vec![LaneResponse::Initialized];
    for (i, b) in bodies.iter().cloned().enumerate() {
        v.push(if i % 2 == 0 { LaneResponse::StandardEvent(b) } else { LaneResponse::SyncEvent(id(i as u8), b) });
    }
    v.push(LaneResponse::Synced(id(9)));
    v
}
fn store_init<T: Clone>(bodies: &[T]) -> Vec<StoreInitMessage<T>> {
    let mut v: Vec<StoreInitMessage<T>> = bodies.iter().cloned().map(StoreInitMessage::Command).collect();
    v.push(StoreInitMessage::InitComplete);
    v
}
fn notifs(bodies: Vec<Vec<u8>>) -> Vec<Vec<u8>> {
    let mut v = vec![
        frame(DownlinkNotificationEncoder, DownlinkNotification::<B>::Linked),
        frame(DownlinkNotificationEncoder, DownlinkNotification::<B>::Synced),
    ];
    for body in bodies {
        v.push(frame(DownlinkNotificationEncoder, DownlinkNotification::Event { body }));
    }
    v.push(frame(DownlinkNotificationEncoder, DownlinkNotification::<B>::Unlinked));
    v
}
fn addr(host: bool) -> Address<&'static str> {
    Address { host: host.then_some("ws://h:9"), node: "/node/\u{e9}", lane: "lane" }
}
fn commands_raw() -> Vec<CommandMessage<&'static str, B>> {
    vec![
        CommandMessage::Register { address: addr(true), id: 2 },
        CommandMessage::Register { address: addr(false), id: 65535 },
        CommandMessage::Addressed { target: addr(true), command: BODIES[2], overwrite_permitted: true },
        CommandMessage::Addressed { target: addr(false), command: BODIES[3], overwrite_permitted: false },
        CommandMessage::Registered { target: 2, command: BODIES[1], overwrite_permitted: true },
        CommandMessage::Registered { target: 0, command: BODIES[0], overwrite_permitted: false },
    ]
}
fn commands_typed() -> Vec<CommandMessage<&'static str, Value>> {
    vec![
        CommandMessage::Addressed { target: addr(false), command: val(BODIES[5]), overwrite_permitted: true },
        CommandMessage::Registered { target: 513, command: val(BODIES[2]), overwrite_permitted: false },
    ]
}
fn path() -> RelativeAddress<&'static str> {
    RelativeAddress::new("/node", "lane")
}

/// The frames (one encoded message each) that seed family `i`.
fn frames(i: usize) -> Vec<Vec<u8>> {
    let raw: Vec<B> = BODIES.to_vec();
    let typed: Vec<Value> = BODIES.iter().map(|b| val(b)).collect();
    let mut out: Vec<Vec<u8>> = vec![];
    match FAMILIES[i] {
        "len-bytes" | "len-recon" => {
            out.extend(raw.iter().map(|b| frame(WithLengthBytesCodec, *b)));
            out.extend(typed.iter().map(|v| frame(WithLenReconEncoder, v.clone())));
            out.push(frame(WithLengthBytesCodec, b"" as B));
        }
        "lane-req-value-raw" | "lane-req-value" => {
            out.extend(lane_req(&raw).into_iter().map(|m| frame(RawValueLaneRequestEncoder::default(), m)));
            out.extend(lane_req(&typed[..3]).into_iter().map(|m| frame(ValueLaneRequestEncoder::default(), m)));
        }
        "lane-req-map-raw" | "lane-req-map" => {
            out.extend(lane_req(&map_msgs_raw()).into_iter().map(|m| frame(RawMapLaneRequestEncoder::default(), m)));
            out.extend(lane_req(&map_msgs_typed()).into_iter().map(|m| frame(MapLaneRequestEncoder::default(), m)));
        }
        "lane-resp-value-raw" | "lane-resp-value" => {
            out.extend(lane_resp(&raw).into_iter().map(|m| frame(RawValueLaneResponseEncoder::default(), m)));
            out.extend(lane_resp(&typed[..3]).into_iter().map(|m| frame(ValueLaneResponseEncoder::default(), m)));
        }
        "lane-resp-map-raw" | "lane-resp-map" => {
            out.extend(lane_resp(&map_ops_raw()).into_iter().map(|m| frame(RawMapLaneResponseEncoder::default(), m)));
            out.extend(lane_resp(&map_ops_typed()).into_iter().map(|m| frame(MapLaneResponseEncoder::default(), m)));
        }
        "map-msg-raw" | "map-msg" => {
            out.extend(map_msgs_raw().into_iter().map(|m| frame(RawMapMessageEncoder::default(), m)));
            out.extend(map_msgs_typed().into_iter().map(|m| frame(MapMessageEncoder::default(), m)));
        }
        "map-op-raw" | "map-op" => {
            out.extend(map_ops_raw().into_iter().map(|m| frame(RawMapOperationEncoder, m)));
            out.extend(map_ops_typed().into_iter().map(|m| frame(MapOperationEncoder, m)));
        }
        "store-init-value-raw" | "store-init-value" => {
            out.extend(store_init(&raw).into_iter().map(|m| frame(RawValueStoreInitEncoder::default(), m)));
        }
        "store-init-map-raw" | "store-init-map" => {
            out.extend(store_init(&map_msgs_raw()).into_iter().map(|m| frame(RawMapStoreInitEncoder::default(), m)));
        }
        "store-initialized" => {
            out.push(frame(StoreInitializedCodec, StoreInitialized));
            out.push(frame(StoreInitializedCodec, StoreInitialized));
        }
        "store-resp-value-raw" => {
            out.extend(typed.iter().map(|v| frame(ValueStoreResponseEncoder::default(), StoreResponse::new(v.clone()))));
        }
        "store-resp-map-raw" => {
            out.extend(map_ops_typed().into_iter().map(|m| frame(MapStoreResponseEncoder::default(), StoreResponse::new(m))));
        }
        "dl-notif-value" => out = notifs(raw.iter().map(|b| b.to_vec()).collect()),
        "dl-notif-map" => {
            // what swimos_runtime's MapInterpretation writes: a binary map message as the event body
            let mut bodies: Vec<Vec<u8>> = map_msgs_raw().into_iter().map(|m| frame(RawMapMessageEncoder::default(), m)).collect();
            bodies.extend(map_msgs_typed().into_iter().map(|m| frame(MapMessageEncoder::default(), m)));
            out = notifs(bodies);
        }
        "dl-op" => {
            out.extend(typed.iter().map(|v| frame(DownlinkOperationEncoder::default(), DownlinkOperation::new(v.clone()))));
        }
        "command-raw" | "command" => {
            out.extend(commands_raw().into_iter().map(|m| frame(RawCommandMessageEncoder::default(), m)));
            out.extend(commands_typed().into_iter().map(|m| frame(CommandMessageEncoder::default(), m)));
        }
        "routed-req-raw" | "routed-req" => {
            out.push(frame(RawRequestMessageEncoder, RequestMessage::<_, B>::link(id(1), path())));
            out.push(frame(RawRequestMessageEncoder, RequestMessage::<_, B>::sync(id(2), path())));
            for b in &raw {
                out.push(frame(RawRequestMessageEncoder, RequestMessage::command(id(3), path(), *b)));
            }
            out.push(frame(RawRequestMessageEncoder, &RequestMessage::<_, B>::unlink(id(4), path())));
        }
        "routed-resp-raw" => {
            out.push(frame(RawResponseMessageEncoder, ResponseMessage::<_, B, B>::linked(id(1), path())));
            out.push(frame(RawResponseMessageEncoder, ResponseMessage::<_, B, B>::synced(id(2), path())));
            for b in &raw {
                out.push(frame(RawResponseMessageEncoder, ResponseMessage::<_, B, B>::event(id(3), path(), *b)));
            }
            for v in &typed[..3] {
                out.push(frame(ResponseMessageEncoder, ResponseMessage::<_, Value, B>::event(id(5), path(), v.clone())));
            }
            out.push(frame(RawResponseMessageEncoder, ResponseMessage::<_, B, B>::unlinked(id(4), path(), Some(b"gone" as B))));
            out.push(frame(RawResponseMessageEncoder, ResponseMessage::<_, B, B>::unlinked(id(4), path(), None)));
        }
        other => panic!("no seed frames for family {}", other),
    }
    out
}

fn main() {
    let dir = std::env::args().nth(1).expect("usage: gen_corpus <output directory>");
    std::fs::create_dir_all(&dir).unwrap();
    let mut files = 0;
    let mut write = |name: String, fam: usize, chunk: [u8; 3], stream: &[u8]| {
        let mut data = vec![fam as u8, chunk[0], chunk[1], chunk[2]];
        assert_eq!(data.len(), HEADER_LEN);
        data.extend_from_slice(stream);
        std::fs::write(format!("{}/{}", dir, name), data).unwrap();
        files += 1;
    };
    for (i, name) in FAMILIES.iter().enumerate() {
        let fr = frames(i);
        assert!(!fr.is_empty());
        // every message on its own, one byte per read
        for (j, f) in fr.iter().enumerate() {
            write(format!("{}-msg{:02}", name, j), i, [0, 0, 0], f);
        }
        // all of them back to back: one byte per read, a single split in the middle, reads of 3 / 7 / 2 bytes
        let all: Vec<u8> = fr.concat();
        let mid = (all.len() / 2).clamp(1, 254) as u8;
        write(format!("{}-all-bytewise", name), i, [0, 0, 0], &all);
        write(format!("{}-all-split", name), i, [mid - 1, 255, 0], &all);
        write(format!("{}-all-mixed", name), i, [2, 6, 1], &all);
    }
    println!("{} files written to {}", files, dir);
}
