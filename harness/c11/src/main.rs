//! C11 WARP envelopes cross the socket unchanged and reach only their addressee.
//!
//! Three sub-checks (see NOTES.md): `pure-roundtrip` (writer vs reader), `socket` (two real
//! `RemoteTask`s joined through a harness relay), `multi-reader` (the multiplexer on its own).

mod gen;
mod mr;
mod pure;
mod sock;

use vcommon::Ctx;

fn main() {
    let args: Vec<String> = std::env::args().skip(1).collect();
    let mut ctx = Ctx::new("C11", &args);
    ctx.rule(
        "pure-roundtrip: envelope kind (8 kinds + NoSuchAgent) x node x lane x body; names from identifier / URI / \
         boundary-pool / arbitrary-char / very-long generators, bodies printed by the real Recon printers from generated \
         values or taken from the runtime's own body pool; non-trivial = node or lane is not a Recon identifier (needs \
         quoting). reader-total: valid envelopes truncated or with one character removed / replaced / inserted, plus a pool \
         of near-envelopes; non-trivial = the reader rejects the text. socket: op lists (attach downlink / one-way client, write request from a client, write response from an \
         agent, detach, relay <=n bytes either way, poll either task <=k, settle, inject hand-written (optionally fragmented, with control frames between fragments) or invalid frame; message sizes incl. routed frames of 4 KiB / 8 KiB / 64 KiB +-1) over \
         2-12 (node,lane) pairs incl. pairs differing only in quoting-relevant characters; non-trivial = >=3 distinct sources \
         had a message delivered and some name needed quoting. multi-reader: 1..130 scripted streams (item / gate / \
         self-wake steps) and add / poll / open-gate op lists; non-trivial = >=3 streams with items. Distinct by the Debug \
         form of the case.",
    );
    ctx.assume("names and bodies are valid UTF-8 (lanes print Recon text); bodies do not begin with a blank (no Recon printer emits one)");
    ctx.assume("socket: the harness relay forwards web socket bytes unmodified and only injects whole frames at frame boundaries");
    ctx.assume("multi-reader: one task waker for the life of the MultiReader (as in OutgoingTask::run)");

    let n = ctx.pick(1_500_000, 60_000_000);
    ctx.prop("pure-roundtrip", n, pure::arb_case, pure::check);

    let n = ctx.pick(200_000, 10_000_000);
    ctx.prop("reader-total", n, pure::arb_text_case, pure::check_text);

    let n = ctx.pick(200_000, 10_000_000);
    ctx.prop("multi-reader", n, mr::arb_case, mr::check);

    let n = ctx.pick(sock::QUICK_CASES, sock::THOROUGH_CASES);
    let max_ops = ctx.pick(60, 160);
    ctx.prop("socket", n, move || sock::arb_case(max_ops), sock::check);

    ctx.finish();
}
