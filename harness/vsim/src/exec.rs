//! Harness-owned executor for one agent instance.

use crate::remote::Remote;
use futures::future::BoxFuture;
use futures::FutureExt;
use serde::{Deserialize, Serialize};
use std::collections::{HashMap, VecDeque};
use std::future::Future;
use std::num::NonZeroUsize;
use std::sync::atomic::{AtomicBool, AtomicU64, Ordering};
use std::sync::Arc;
use std::task::{Context, Poll, Wake, Waker};
use std::time::Duration;
use swimos_api::agent::{Agent, AgentConfig, HttpLaneRequest, LaneConfig};
use swimos_api::error::StoreError;
use swimos_api::persistence::NodePersistence;
use swimos_runtime::agent::{
    AgentAttachmentRequest, AgentExecError, AgentRouteChannels, AgentRouteDescriptor,
    AgentRouteTask, AgentRuntimeConfig, CombinedAgentConfig, LinkRequest, NodeReporting,
};
use swimos_utilities::byte_channel::{byte_channel, BudgetedFutureExt};
use swimos_utilities::routing::RouteUri;
use swimos_utilities::trigger;
use tokio::sync::mpsc;
use uuid::Uuid;

pub struct Flag(AtomicBool);
impl Wake for Flag {
    fn wake(self: Arc<Self>) {
        self.0.store(true, Ordering::SeqCst);
    }
    fn wake_by_ref(self: &Arc<Self>) {
        self.0.store(true, Ordering::SeqCst);
    }
}

/// Run a future on a fresh current-thread runtime with paused time and a pinned `select!` RNG.
pub fn block_on_paused<F: Future>(seed: u64, fut: F) -> F::Output {
    let mut bytes = [0u8; 32];
    for (i, c) in bytes.chunks_mut(8).enumerate() {
        c.copy_from_slice(&(seed.wrapping_add(i as u64).wrapping_mul(0x9E3779B97F4A7C15)).to_le_bytes());
    }
    let rt = tokio::runtime::Builder::new_current_thread()
        .enable_time()
        .start_paused(true)
        .rng_seed(tokio::runtime::RngSeed::from_bytes(&bytes))
        .build()
        .expect("runtime");
    // The harness future almost never yields to the runtime, so tokio's own cooperative budget
    // (128 units per poll of the block_on future, consumed by every mpsc/oneshot/timer operation of the
    // system under test) would never be refilled: after 128 operations every tokio resource would
    // report Pending with a deferred wake and the system would look idle. Run unconstrained.
    rt.block_on(tokio::task::unconstrained(fut))
}

#[derive(Clone, Debug, Serialize, Deserialize)]
pub struct SimParams {
    /// Seeds tokio's `select!` branch order.
    pub seed: u64,
    pub attachment_queue: usize,
    pub lane_in_buf: usize,
    pub lane_out_buf: usize,
    /// Cooperative budget the system future runs under (as `RunWithBudget` in the server).
    pub budget: usize,
    pub inactive_timeout_ms: u64,
    pub prune_remote_delay_ms: u64,
    pub shutdown_timeout_ms: u64,
    pub command_msg_buffer: usize,
}

impl Default for SimParams {
    fn default() -> Self {
        SimParams {
            seed: 0,
            attachment_queue: 16,
            lane_in_buf: 4096,
            lane_out_buf: 4096,
            budget: 64,
            inactive_timeout_ms: 30_000,
            prune_remote_delay_ms: 30_000,
            shutdown_timeout_ms: 30_000,
            command_msg_buffer: 4096,
        }
    }
}

fn nz(n: usize) -> NonZeroUsize {
    NonZeroUsize::new(n.max(1)).unwrap()
}

pub const NODE_URI: &str = "/node";

pub struct Sim {
    sys: Option<BoxFuture<'static, Result<(), AgentExecError>>>,
    flag: Arc<Flag>,
    waker: Waker,
    /// `Some` once the system future has completed.
    pub result: Option<Result<(), String>>,
    att_tx: Option<mpsc::Sender<AgentAttachmentRequest>>,
    pending_att: VecDeque<AgentAttachmentRequest>,
    _http_tx: mpsc::Sender<HttpLaneRequest>,
    pub link_rx: mpsc::Receiver<LinkRequest>,
    stop_tx: Option<trigger::Sender>,
    pub remotes: Vec<Remote>,
    pub clock: Arc<AtomicU64>,
    pub polls: u64,
    pub agent_id: Uuid,
    pub node: String,
}

impl Sim {
    /// Start an agent without persistence.
    pub fn start<A: Agent + 'static>(
        agent: &A,
        params: &SimParams,
        clock: Arc<AtomicU64>,
        reporting: Option<NodeReporting>,
    ) -> Sim {
        Self::start_inner(agent, params, clock, reporting, |task| task.run_agent().boxed())
    }

    /// Start an agent with a node store.
    pub fn start_with_store<A, S>(
        agent: &A,
        params: &SimParams,
        clock: Arc<AtomicU64>,
        reporting: Option<NodeReporting>,
        store: S,
    ) -> Sim
    where
        A: Agent + 'static,
        S: NodePersistence + Send + Sync + 'static,
    {
        Self::start_inner(agent, params, clock, reporting, move |task| {
            task.run_agent_with_store(async move { Ok::<S, StoreError>(store) })
                .boxed()
        })
    }

    fn start_inner<A: Agent + 'static>(
        agent: &A,
        params: &SimParams,
        clock: Arc<AtomicU64>,
        reporting: Option<NodeReporting>,
        make: impl FnOnce(AgentRouteTask<'_, A>) -> BoxFuture<'static, Result<(), AgentExecError>>,
    ) -> Sim {
        let agent_id = Uuid::from_u128(0xA6E47);
        let (att_tx, att_rx) = mpsc::channel(params.attachment_queue.max(1));
        let (http_tx, http_rx) = mpsc::channel(4);
        let (link_tx, link_rx) = mpsc::channel(64);
        let (stop_tx, stop_rx) = trigger::trigger();
        let lane_config = LaneConfig {
            input_buffer_size: nz(params.lane_in_buf),
            output_buffer_size: nz(params.lane_out_buf),
            transient: false,
        };
        let agent_config = AgentConfig {
            default_lane_config: Some(lane_config),
            ..AgentConfig::default()
        };
        let runtime_config = AgentRuntimeConfig {
            attachment_queue_size: nz(params.attachment_queue),
            inactive_timeout: Duration::from_millis(params.inactive_timeout_ms),
            prune_remote_delay: Duration::from_millis(params.prune_remote_delay_ms),
            shutdown_timeout: Duration::from_millis(params.shutdown_timeout_ms),
            command_msg_buffer: nz(params.command_msg_buffer),
            ..AgentRuntimeConfig::default()
        };
        let route: RouteUri = NODE_URI.parse().expect("route");
        let task = AgentRouteTask::new(
            agent,
            AgentRouteDescriptor {
                identity: agent_id,
                route,
                route_params: HashMap::new(),
            },
            AgentRouteChannels::new(att_rx, http_rx, link_tx),
            stop_rx,
            CombinedAgentConfig {
                agent_config,
                runtime_config,
            },
            reporting,
        );
        let fut = make(task);
        let sys = fut.with_budget(nz(params.budget)).boxed();
        let flag = Arc::new(Flag(AtomicBool::new(true)));
        let waker = Waker::from(flag.clone());
        Sim {
            sys: Some(sys),
            flag,
            waker,
            result: None,
            att_tx: Some(att_tx),
            pending_att: VecDeque::new(),
            _http_tx: http_tx,
            link_rx,
            stop_tx: Some(stop_tx),
            remotes: vec![],
            clock,
            polls: 0,
            agent_id,
            node: NODE_URI.to_string(),
        }
    }

    pub fn tick(&self) -> u64 {
        self.clock.fetch_add(1, Ordering::SeqCst)
    }

    pub fn now(&self) -> u64 {
        self.clock.load(Ordering::SeqCst)
    }

    pub fn is_done(&self) -> bool {
        self.sys.is_none()
    }

    pub fn is_woken(&self) -> bool {
        self.flag.0.load(Ordering::SeqCst)
    }

    /// Poll the system future at most `max` times, stopping as soon as it is not woken.
    /// Returns the number of polls performed.
    pub fn poll(&mut self, max: usize) -> usize {
        let mut n = 0;
        while n < max {
            self.flush_attachments();
            let Some(sys) = self.sys.as_mut() else {
                break;
            };
            if !self.flag.0.swap(false, Ordering::SeqCst) {
                break;
            }
            let mut cx = Context::from_waker(&self.waker);
            n += 1;
            self.polls += 1;
            match sys.as_mut().poll(&mut cx) {
                Poll::Ready(r) => {
                    self.result = Some(r.map_err(|e| format!("{:?}", e)));
                    self.sys = None;
                    break;
                }
                Poll::Pending => {}
            }
        }
        n
    }

    /// Poll until the system is idle (not woken) or finished. Used to complete initialisation,
    /// which needs no external input.
    pub fn run_until_idle(&mut self) {
        let mut n = 0u64;
        while self.poll(1_000) > 0 {
            n += 1;
            if n > 100_000 {
                panic!("system did not become idle (livelock)");
            }
        }
    }

    /// Poll (whenever woken) until `cond` holds, the system finishes, goes idle, or `max` polls.
    pub fn poll_until(&mut self, max: usize, cond: impl Fn() -> bool) -> bool {
        let mut n = 0;
        while n < max && !cond() && self.sys.is_some() {
            if self.poll(1) == 0 {
                break;
            }
            n += 1;
        }
        cond()
    }

    /// Drop the system future (all agent tasks are killed at exactly this point).
    pub fn crash(&mut self) {
        self.sys = None;
        if self.result.is_none() {
            self.result = Some(Err("crashed by harness".into()));
        }
    }

    fn flush_attachments(&mut self) {
        while let Some(req) = self.pending_att.pop_front() {
            let Some(tx) = self.att_tx.as_ref() else {
                return;
            };
            match tx.try_send(req) {
                Ok(()) => {
                    // a message was made available to the system
                    self.flag.0.store(true, Ordering::SeqCst);
                }
                Err(mpsc::error::TrySendError::Full(req)) => {
                    self.pending_att.push_front(req);
                    break;
                }
                Err(mpsc::error::TrySendError::Closed(_)) => {
                    self.att_tx = None;
                    self.pending_att.clear();
                    break;
                }
            }
        }
    }

    /// Attach a new two-way remote. `in_cap` is the capacity of the request channel (remote ->
    /// agent), `out_cap` of the response channel (agent -> remote). Returns its index.
    pub fn attach(&mut self, in_cap: usize, out_cap: usize) -> usize {
        let idx = self.remotes.len();
        let id = Uuid::from_u128(0x1000 + idx as u128);
        let (req_tx, req_rx) = byte_channel(nz(in_cap));
        let (resp_tx, resp_rx) = byte_channel(nz(out_cap));
        let (done_tx, done_rx) = trigger::promise::promise();
        self.pending_att.push_back(AgentAttachmentRequest::TwoWay {
            id,
            io: (resp_tx, req_rx),
            on_attached: None,
            completion: done_tx,
        });
        self.flush_attachments();
        self.remotes.push(Remote::new(
            id,
            self.node.clone(),
            req_tx,
            resp_rx,
            done_rx,
            out_cap,
            self.clock.clone(),
        ));
        idx
    }

    /// Attachment requests the system has not yet accepted.
    pub fn pending_attachments(&self) -> usize {
        self.pending_att.len()
    }

    /// Send an HTTP request for `lane` (which need not exist: the runtime's HTTP task then answers 404)
    /// to the agent's HTTP request channel. Any request re-arms the HTTP task's inactivity timeout.
    /// Returns false if the channel is full or closed. The response is not awaited.
    pub fn http_request(&mut self, lane: &str) -> bool {
        use swimos_api::http::{HttpRequest, Method, Uri, Version};
        let Ok(uri) = format!("http://example/{}?lane={}", self.node.trim_start_matches('/'), lane).parse::<Uri>() else {
            return false;
        };
        let request = HttpRequest {
            method: Method::GET,
            version: Version::default(),
            uri,
            headers: vec![],
            payload: bytes::Bytes::new(),
        };
        let (req, _response_rx) = HttpLaneRequest::new(request);
        let ok = self._http_tx.try_send(req).is_ok();
        if ok {
            self.flag.0.store(true, Ordering::SeqCst);
        }
        ok
    }

    /// Trigger the external stop signal (clean shutdown).
    pub fn stop(&mut self) {
        if let Some(tx) = self.stop_tx.take() {
            tx.trigger();
        }
    }

    /// Advance the paused clock. Timers that fire wake the system's flag waker.
    pub async fn advance(&mut self, d: Duration) {
        tokio::time::advance(d).await;
    }

    /// Deliver everything and run to a fixpoint: all outboxes written, system polled until idle,
    /// all remotes read to exhaustion; repeated until nothing moves. Returns the number of rounds.
    pub fn settle(&mut self) -> usize {
        let mut rounds = 0;
        loop {
            rounds += 1;
            let mut progress = 0usize;
            for r in self.remotes.iter_mut() {
                progress += r.pump(usize::MAX);
            }
            progress += self.poll(10_000);
            for r in self.remotes.iter_mut() {
                progress += r.read(usize::MAX);
            }
            if progress == 0 && !self.is_woken_and_live() {
                break;
            }
            if rounds > 100_000 {
                panic!("settle did not reach a fixpoint in 100000 rounds (livelock)");
            }
        }
        rounds
    }

    fn is_woken_and_live(&self) -> bool {
        self.sys.is_some() && self.is_woken()
    }
}
