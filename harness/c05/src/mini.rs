//! Sub-check `twin-items`: a minimal agent with ONE persistent value lane (`v0`) and ONE persistent value
//! store (`vs`) and nothing else, so that the lane's runtime item id (lane registry, 0) and the store's
//! (store counter, 0) always coincide, driven over the value alphabet {1,2,3}: remote commands set the
//! lane, the lane's `on_event` handler sets the store according to a generated script. States of the
//! two items (and successive states of one item) are therefore often byte-identical; the oracles work
//! on states and sequence positions, not on unique tags.

use crate::store::{Call, Entry, Fault, RecStore, SharedData};
use crate::{Cut, CutSel, Runner};
use parking_lot::Mutex;
use proptest::prelude::*;
use serde::{Deserialize, Serialize};
use std::collections::BTreeSet;
use std::sync::atomic::{AtomicU64, AtomicUsize, Ordering};
use std::sync::Arc;
use swimos::agent::agent_lifecycle::HandlerContext;
use swimos::agent::agent_model::AgentModel;
use swimos::agent::event_handler::{ActionContext, EventHandler, HandlerAction, HandlerActionExt, StepResult};
use swimos::agent::lanes::ValueLane;
use swimos::agent::stores::ValueStore;
use swimos::agent::{lifecycle, projections, AgentLaneModel};
use swimos_agent::AgentMetadata;
use swimos_recon::parser::parse_recognize;
use vcommon::{pick_index, Bulk, Verdict};
use vsim::{arb_sched_op, arb_small_cap, block_on_paused, Frame, FrameKind, Op, Req, Sim, SimParams};

#[projections]
#[derive(AgentLaneModel)]
pub struct MiniAgent {
    v0: ValueLane<i64>,
    vs: ValueStore<i64>,
}

#[derive(Clone, Debug, PartialEq, Eq)]
pub enum MEv {
    Start { v0: i64, vs: i64 },
    Value(i64),
    StoreSet(i64),
}

pub struct MShared {
    clock: Arc<AtomicU64>,
    trace: Mutex<Vec<(u64, MEv)>>,
    /// `script[n]` = what the n-th `on_event` of the lane sets the store to (if anything).
    script: Vec<Option<i64>>,
    events: AtomicUsize,
}

impl MShared {
    fn new(clock: Arc<AtomicU64>, script: Vec<Option<i64>>) -> Arc<Self> {
        Arc::new(MShared { clock, trace: Mutex::new(vec![]), script, events: AtomicUsize::new(0) })
    }
    fn rec(&self, ev: MEv) {
        let s = self.clock.fetch_add(1, Ordering::SeqCst);
        self.trace.lock().push((s, ev));
    }
}

#[derive(Clone)]
pub struct MiniLifecycle {
    shared: Arc<MShared>,
}

struct StartSnap {
    shared: Arc<MShared>,
    done: bool,
}

impl HandlerAction<MiniAgent> for StartSnap {
    type Completion = ();
    fn step(&mut self, _a: &mut ActionContext<MiniAgent>, _m: AgentMetadata, agent: &MiniAgent) -> StepResult<()> {
        if self.done {
            return StepResult::after_done();
        }
        self.done = true;
        self.shared.rec(MEv::Start { v0: agent.v0.read(|v| *v), vs: agent.vs.read(|v| *v) });
        StepResult::done(())
    }
}

#[lifecycle(MiniAgent)]
impl MiniLifecycle {
    #[on_start]
    fn on_start(&self, _context: HandlerContext<MiniAgent>) -> impl EventHandler<MiniAgent> {
        StartSnap { shared: self.shared.clone(), done: false }
    }

    #[on_event(v0)]
    fn v0_event(&self, context: HandlerContext<MiniAgent>, value: &i64) -> impl EventHandler<MiniAgent> {
        let sh = self.shared.clone();
        let v = *value;
        let n = sh.events.fetch_add(1, Ordering::SeqCst);
        let to_store = sh.script.get(n).copied().flatten();
        let sh2 = sh.clone();
        context.effect(move || sh.rec(MEv::Value(v))).followed_by(
            to_store
                .map(move |y| context.set_value(MiniAgent::VS, y).followed_by(context.effect(move || sh2.rec(MEv::StoreSet(y)))))
                .discard(),
        )
    }
}

fn make_mini(shared: Arc<MShared>) -> impl swimos::api::Agent + Send + 'static {
    AgentModel::new(MiniAgent::default, MiniLifecycle { shared }.into_lifecycle())
}

#[derive(Clone, Debug, Serialize, Deserialize)]
pub struct MiniCase {
    params: SimParams,
    script: Vec<Option<i64>>,
    ops: Vec<Op>,
    cuts: Vec<CutSel>,
    /// The write task's start-up lookup of the lane's store id (the 2nd `id_for("v0")`; the init task's
    /// succeeded a moment earlier) fails once with `KeyNotFound`.
    #[serde(default)]
    id_fault: bool,
}

pub fn arb_mini(max_ops: usize) -> impl Strategy<Value = MiniCase> {
    let op = prop_oneof![
        6 => (any::<u16>(), 1i64..4).prop_map(|(r, x)| Op::Cmd { r, lane: 0, body: x.to_string() }),
        1 => any::<u16>().prop_map(|r| Op::Sync { r, lane: 0 }),
        1 => (arb_small_cap(), arb_small_cap()).prop_map(|(in_cap, out_cap)| Op::Attach { in_cap, out_cap }),
        1 => any::<u16>().prop_map(|r| Op::Link { r, lane: 0 }),
        5 => arb_sched_op(),
    ];
    (
        crate::arb_params(),
        proptest::collection::vec(prop_oneof![1 => Just(None), 2 => (1i64..4).prop_map(Some)], 0..24),
        proptest::collection::vec(op, 3..max_ops),
        proptest::collection::vec(crate::arb_cutsel(), 3..=3),
        prop_oneof![7 => Just(false), 1 => Just(true)],
    )
        .prop_map(|(params, script, ops, cuts, id_fault)| {
            let mut all = vec![Op::Attach { in_cap: 4096, out_cap: 32 }, Op::Link { r: 0, lane: 0 }];
            all.extend(ops);
            all.push(Op::Settle);
            MiniCase { params, script, ops: all, cuts, id_fault }
        })
}

struct MiniObs {
    cut: Cut,
    fired: bool,
    result1: Option<Result<(), String>>,
    remotes1: Vec<Vec<Frame>>,
    trace1: Vec<(u64, MEv)>,
    log: Vec<Entry>,
    log_end1: usize,
    lane_id: Option<u64>,
    store_id: Option<u64>,
    counts: (u64, usize, u64),
    result2: Option<Result<(), String>>,
    start2: Option<(i64, i64)>,
    sync2: Option<i64>,
}

fn execute(case: &MiniCase, cut: Cut) -> MiniObs {
    block_on_paused(case.params.seed, async {
        let clock = Arc::new(AtomicU64::new(1));
        let data: SharedData = SharedData::default();
        let shared = MShared::new(clock.clone(), case.script.clone());
        if case.id_fault {
            data.lock().id_fault = Some(("v0".to_string(), 2));
        }
        let agent = make_mini(shared.clone());
        let mut sim = Sim::start_with_store(&agent, &case.params, clock.clone(), None, RecStore::new(data.clone(), clock.clone(), 1));
        sim.run_until_idle();
        let base_mut = data.lock().mutations;
        match cut {
            Cut::StoreCall { n, after } => data.lock().fault = Some(Fault { at: base_mut + n, after_apply: after, error: false }),
            Cut::StoreError(n) => data.lock().fault = Some(Fault { at: base_mut + n, after_apply: false, error: true }),
            _ => {}
        }
        let polls0 = sim.polls;
        let mut run = Runner { sim, cut, frames: 0, polls0, hit: false };
        for (j, op) in case.ops.iter().enumerate() {
            if cut == Cut::Stop(j) {
                run.sim.stop();
                run.settle();
                break;
            }
            run.apply(op).await;
            if run.hit {
                break;
            }
        }
        let fired = match cut {
            Cut::End | Cut::Stop(_) => true,
            Cut::StoreError(_) => data.lock().fired,
            _ => run.hit,
        };
        let result1 = if run.hit { None } else { run.sim.result.clone() };
        let counts = (data.lock().mutations - base_mut, run.frames, run.sim.polls - polls0);
        let remotes1 = run.sim.remotes.iter().map(|r| r.frames.clone()).collect();
        run.sim.crash();
        drop(run);
        drop(agent);
        let log_end1 = {
            let mut g = data.lock();
            g.fault = None;
            g.id_fault = None;
            g.log.len()
        };
        tokio::task::yield_now().await;
        // restart
        let shared2 = MShared::new(clock.clone(), vec![]);
        let agent2 = make_mini(shared2.clone());
        let mut sim2 = Sim::start_with_store(&agent2, &case.params, clock.clone(), None, RecStore::new(data.clone(), clock.clone(), 2));
        sim2.run_until_idle();
        let r = sim2.attach(4096, 4096);
        sim2.remotes[r].send("v0", Req::Sync);
        sim2.settle();
        let mut sync2 = None;
        for f in &sim2.remotes[r].frames {
            match &f.kind {
                FrameKind::Event(b) => sync2 = parse_i64(b),
                FrameKind::Synced => break,
                _ => {}
            }
        }
        let start2 = shared2.trace.lock().iter().find_map(|(_, e)| match e {
            MEv::Start { v0, vs } => Some((*v0, *vs)),
            _ => None,
        });
        let result2 = sim2.result.clone();
        drop(sim2);
        let trace1 = shared.trace.lock().clone();
        let g = data.lock();
        MiniObs {
            cut,
            fired,
            result1,
            remotes1,
            trace1,
            log: g.log.clone(),
            log_end1,
            lane_id: g.ids.get("v0").copied(),
            store_id: g.ids.get("vs").copied(),
            counts,
            result2,
            start2,
            sync2,
        }
    })
}

fn parse_i64(b: &[u8]) -> Option<i64> {
    parse_recognize::<i64>(std::str::from_utf8(b).ok()?, false).ok()
}

/// (seq, value) of the applied puts of one store id before the cut.
fn puts(obs: &MiniObs, id: Option<u64>) -> Vec<(u64, i64)> {
    obs.log[..obs.log_end1]
        .iter()
        .filter(|e| e.applied)
        .filter_map(|e| match &e.call {
            Call::PutValue(i, b) if Some(*i) == id => parse_i64(b).map(|v| (e.seq, v)),
            _ => None,
        })
        .collect()
}

fn judge(obs: &MiniObs, v: &mut Verdict) -> (bool, Vec<&'static str>) {
    let mut classes = vec![];
    let ctx = format!("[cut {:?} fired={}]", obs.cut, obs.fired);
    if std::env::var("VERIF_DUMP").is_ok() {
        eprintln!("==== {} trace {:?}", ctx, obs.trace1);
        for e in &obs.log {
            eprintln!("log seq={} inc={} applied={} {:?}", e.seq, e.inc, e.applied, e.call);
        }
        eprintln!("frames {:?}", obs.remotes1);
    }
    let id_fault_fired = obs.log.iter().any(|e| matches!(e.call, Call::IdFor(_)) && !e.applied);
    if id_fault_fired {
        classes.push(if obs.result1.is_some() {
            "id-lookup-failed-at-write-task-start:runtime-stopped"
        } else {
            "id-lookup-failed-at-write-task-start:runtime-went-on"
        });
    }
    if let Some(Err(e)) = &obs.result1 {
        if !(matches!(obs.cut, Cut::StoreError(_)) && obs.fired) && !id_fault_fired {
            v.fail("twin:agent-failed", format!("{} the agent task ended with an error: {}", ctx, e));
        }
    }
    if let Some(r) = &obs.result2 {
        v.fail("twin:restart:agent-ended", format!("{} the restarted agent ended: {:?}", ctx, r));
        return (false, classes);
    }
    // lane history (index 0 = initial 0 at seq 0), store history
    let mut hist: Vec<(u64, i64)> = vec![(0, 0)];
    let mut store_hist: Vec<i64> = vec![0];
    let mut twin_pattern = false;
    for (s, e) in &obs.trace1 {
        match e {
            MEv::Value(x) => {
                // the lane takes the value the store holds while its own previous value differs
                if *store_hist.last().unwrap() == *x && hist.last().unwrap().1 != *x {
                    twin_pattern = true;
                }
                hist.push((*s, *x));
            }
            MEv::StoreSet(y) => store_hist.push(*y),
            _ => {}
        }
    }
    let lane_puts = puts(obs, obs.lane_id);
    let store_puts = puts(obs, obs.store_id);
    let lane_fold = lane_puts.last().map(|p| p.1).unwrap_or(0);
    let store_fold = store_puts.last().map(|p| p.1).unwrap_or(0);

    // ---- order: the state implied by the store log before a frame is read is at least as new as the frame's
    // state. With repeated values the most lenient reading is used: earliest position of the frame's value
    // against the latest position (not after the put) of the value of the last put before the read.
    let mut frames_read = 0usize;
    let mut seen_min = 0usize;
    for (ri, frames) in obs.remotes1.iter().enumerate() {
        for f in frames.iter().filter(|f| f.lane == "v0") {
            let FrameKind::Event(b) = &f.kind else { continue };
            frames_read += 1;
            let Some(x) = parse_i64(b) else { continue };
            let Some(i_min) = hist.iter().position(|(_, h)| *h == x) else { continue };
            let last_put = lane_puts.iter().filter(|(s, _)| *s < f.seq).next_back().copied();
            let j_max = match last_put {
                None => 0,
                Some((ps, y)) => hist.iter().rposition(|(s, h)| *h == y && *s < ps).unwrap_or(0),
            };
            if j_max < i_min {
                v.fail(
                    "twin:order:value-frame-newer-than-store",
                    format!(
                        "{} remote {} read the event {} of lane v0 at seq {} (earliest history position {}) but the last value handed to the store before that, {:?}, is at best position {}; lane history (seq, value) {:?}; puts of the lane {:?}; puts of the store {:?}",
                        ctx, ri, x, f.seq, i_min, last_put, j_max, hist, lane_puts, store_puts
                    ),
                );
            }
            seen_min = seen_min.max(i_min);
        }
    }
    // ---- quiescence: everything delivered, agent alive, a remote's last event (read after the lane's last
    // change) carries the final value: the store must hold it
    if obs.cut == Cut::End && obs.result1.is_none() && hist.len() > 1 {
        let (set_seq, fin) = *hist.last().unwrap();
        let published = obs.remotes1.iter().any(|frames| {
            frames
                .iter()
                .rev()
                .find(|f| f.lane == "v0" && matches!(f.kind, FrameKind::Event(_)))
                .map(|f| f.seq > set_seq && matches!(&f.kind, FrameKind::Event(b) if parse_i64(b) == Some(fin)))
                .unwrap_or(false)
        });
        if published {
            classes.push("final-value-published-at-quiescence");
            if lane_fold != fin {
                v.fail(
                    "twin:quiescence:published-final-state-not-in-store",
                    format!(
                        "{} at quiescence a remote had read the lane's final value {} (set at seq {}) but the last value handed to the store for the lane is {}; lane history {:?}; puts of the lane {:?}; puts of the store {:?}",
                        ctx, fin, set_seq, lane_fold, hist, lane_puts, store_puts
                    ),
                );
            }
        }
    }
    // ---- restart: both items come back as the fold of what was handed over; never older than seen
    match obs.start2 {
        None => v.fail("twin:restart:no-on-start", format!("{} on_start of the restarted agent did not run", ctx)),
        Some((lv, sv)) => {
            if lv != lane_fold {
                v.fail("twin:restart:value-lane", format!("{} lane v0 restarted with {} but the last value handed to the store is {}; puts {:?}", ctx, lv, lane_fold, lane_puts));
            }
            if sv != store_fold {
                v.fail("twin:restart:value-store", format!("{} store vs restarted with {} but the last value handed to the store is {}; puts {:?}", ctx, sv, store_fold, store_puts));
            }
            if let Some(j) = hist.iter().rposition(|(_, h)| *h == lv) {
                if j < seen_min {
                    v.fail(
                        "twin:restart:older-than-seen",
                        format!("{} lane v0 restarted with {} (latest history position {}) but a subscriber had read a value whose earliest position is {}; history {:?}; puts of the lane {:?}; puts of the store {:?}", ctx, lv, j, seen_min, hist, lane_puts, store_puts),
                    );
                }
            }
        }
    }
    if obs.sync2 != Some(lane_fold) {
        v.fail("twin:restart:value-lane/sync", format!("{} the sync after the restart shows {:?}, expected {}", ctx, obs.sync2, lane_fold));
    }
    if twin_pattern {
        classes.push("lane-takes-the-value-the-store-holds");
    }
    classes.push(match (obs.fired, obs.cut) {
        (false, _) => "cut:not-reached(end)",
        (_, Cut::End) => "cut:end",
        (_, Cut::StoreCall { .. }) => "cut:store-call",
        (_, Cut::StoreError(_)) => "cut:store-call-returns-error",
        (_, Cut::Poll(_)) => "cut:poll",
        (_, Cut::Frame(_)) => "cut:frame",
        (_, Cut::Stop(_)) => "cut:stop",
        (_, Cut::Timeout) => "cut:timeout",
    });
    let nontrivial = !lane_puts.is_empty() && frames_read >= 1 && hist.len() + store_hist.len() >= 5;
    (nontrivial, classes)
}

pub fn check(case: &MiniCase) -> Verdict {
    let mut v = Verdict::new();
    let mut bulk = Bulk::default();
    let mut classes: std::collections::BTreeMap<&'static str, u64> = Default::default();
    let reference = execute(case, Cut::End);
    let (n_store, n_frames, n_polls) = reference.counts;
    let mut cuts: Vec<Cut> = vec![];
    for s in &case.cuts {
        cuts.push(match s {
            CutSel::StoreCall { i, after } if n_store > 0 => Cut::StoreCall { n: pick_index(*i, n_store as usize) as u64, after: *after },
            CutSel::StoreError { i } if n_store > 0 => Cut::StoreError(pick_index(*i, n_store as usize) as u64),
            CutSel::Poll { i } if n_polls > 0 => Cut::Poll(pick_index(*i, n_polls as usize) as u64),
            CutSel::Frame { i } if n_frames > 0 => Cut::Frame(pick_index(*i, n_frames)),
            CutSel::Stop { i } => Cut::Stop(pick_index(*i, case.ops.len()) + 1),
            _ => continue,
        });
    }
    let mut done: BTreeSet<Cut> = BTreeSet::new();
    done.insert(Cut::End);
    let mut runs = vec![reference];
    for c in cuts {
        if done.insert(c) {
            runs.push(execute(case, c));
            vcommon::tick();
        }
    }
    for obs in &runs {
        let (nt, cls) = judge(obs, &mut v);
        bulk.evaluations += 1;
        if nt {
            bulk.distinct_nontrivial += 1;
        }
        for c in cls {
            *classes.entry(c).or_default() += 1;
        }
    }
    bulk.classes = classes.into_iter().collect();
    v.bulk = Some(bulk);
    v
}
