//! C09 (oracle inside the target):
//!  * valid UTF-8: the incremental decoder agrees with the one-shot parser for the whole buffer and for every
//!    single cut (same value kind-exactly or both errors; for a value the same number of bytes consumed);
//!  * a text that parses gives a value that each of the three printers writes back to a text that parses to
//!    exactly that value (exempt: a value that contains a non-finite float -- the one OPEN C09 finding
//!    `{value-roundtrip,cycle-undefined}:nonfinite-float`; nothing else is skipped);
//!  * any input, also invalid UTF-8: no panic.
#![no_main]
use bytes::{BufMut, BytesMut};
use libfuzzer_sys::fuzz_target;
use swimos_form::read::RecognizerReadable;
use swimos_recon::parser::{parse_recognize, RecognizerDecoder};
use swimos_recon::{print_recon, print_recon_compact, print_recon_pretty};
use tokio_util::codec::Decoder;

include!("common.rs");

#[derive(Debug)]
enum Outcome {
    Val(Value),
    Err,
    Nothing,
}

fn run(chunks: &[&[u8]]) -> (Outcome, usize) {
    let mut dec = RecognizerDecoder::new(Value::make_recognizer());
    let mut buf = BytesMut::new();
    let mut consumed = 0;
    for (i, ch) in chunks.iter().enumerate() {
        buf.put_slice(ch);
        let before = buf.len();
        let r = if i + 1 == chunks.len() { dec.decode_eof(&mut buf) } else { dec.decode(&mut buf) };
        consumed += before - buf.len();
        match r {
            Ok(None) => {}
            Ok(Some(v)) => return (Outcome::Val(v), consumed),
            Err(_) => return (Outcome::Err, consumed),
        }
    }
    (Outcome::Nothing, consumed)
}

fn agrees(a: &Outcome, b: &Outcome) -> bool {
    match (a, b) {
        (Outcome::Val(x), Outcome::Val(y)) => structural_eq(x, y),
        (Outcome::Err, Outcome::Err) => true,
        _ => false,
    }
}

fuzz_target!(|data: &[u8]| {
    if data.len() > 4096 {
        return;
    }
    let Ok(text) = std::str::from_utf8(data) else {
        // invalid UTF-8: only "no panic"
        let _ = run(&[data]);
        if data.len() >= 2 {
            let _ = run(&[&data[..data.len() / 2], &data[data.len() / 2..]]);
        }
        return;
    };
    let oneshot = match parse_recognize::<Value>(text, false) {
        Ok(v) => Outcome::Val(v),
        Err(_) => Outcome::Err,
    };
    let _ = parse_recognize::<Value>(text, true);
    let (whole, whole_consumed) = run(&[data]);
    assert!(
        agrees(&whole, &oneshot),
        "whole-buffer decoder {:?} != one-shot parser {:?} for {:?}",
        whole,
        oneshot,
        text
    );
    if let Outcome::Val(v) = &oneshot {
        // OPEN finding (C09 *:nonfinite-float): only the print -> parse law is exempt, only for such a value.
        if !has_nonfinite_float(v) {
            for (name, printed) in [
                ("print_recon", format!("{}", print_recon(v))),
                ("print_recon_compact", format!("{}", print_recon_compact(v))),
                ("print_recon_pretty", format!("{}", print_recon_pretty(v))),
            ] {
                match parse_recognize::<Value>(printed.as_str(), false) {
                    Ok(back) => assert!(
                        structural_eq(&back, v),
                        "{}: {:?} parsed from {:?} prints as {:?} which parses as {:?}",
                        name,
                        v,
                        text,
                        printed,
                        back
                    ),
                    Err(e) => panic!("{}: {:?} parsed from {:?} prints as {:?} which does not parse: {:?}", name, v, text, printed, e),
                }
            }
        }
    }
    let n = data.len();
    let stride = n / 256 + 1;
    for cut in (1..n).step_by(stride) {
        let (got, consumed) = run(&[&data[..cut], &data[cut..]]);
        assert!(
            agrees(&got, &oneshot),
            "cut at {}: chunked decoder {:?} != one-shot parser {:?} for {:?}",
            cut,
            got,
            oneshot,
            text
        );
        if matches!(got, Outcome::Val(_)) {
            assert_eq!(consumed, whole_consumed, "cut at {}: bytes consumed differ for {:?}", cut, text);
        }
    }
});
