//! C04 Every uplink follows the WARP link state machine; no fabricated frames.
mod oracle;
mod raw;
mod simgram;

use vcommon::{Ctx, Verdict};

fn check_raw(case: &raw::Case) -> Verdict {
    // VERIF_TRACE_RT=1: print the runtime's own tracing events (debugging aid for replays)
    let obs = if std::env::var("VERIF_TRACE_RT").is_ok() {
        let sub = tracing_subscriber::fmt().with_max_level(tracing::Level::TRACE).with_writer(std::io::stderr).without_time().with_ansi(false).finish();
        tracing::subscriber::with_default(sub, || raw::execute(case))
    } else {
        raw::execute(case)
    };
    if std::env::var("VERIF_DUMP").is_ok() {
        for (i, r) in obs.remotes.iter().enumerate() {
            eprintln!("remote {} id={} cap={} dropped={:?} reason={:?} eof={} sent:", i, r.id, r.out_cap, r.dropped_at, r.reason, r.eof);
            for s in &r.sent {
                eprintln!("    {:?}", s);
            }
            for (k, f) in r.frames.iter().enumerate() {
                eprintln!("  frame{} {} {} {:?} body={:?}{}", k, f.seq, f.lane, f.kind, f.body_str(), if k + 1 == r.frames_at_checkpoint { "   <-- checkpoint" } else { "" });
            }
        }
        for l in &obs.lanes {
            eprintln!("lane {} {:?} closed={:?}", l.name, l.kind, l.closed_at);
            for e in &l.emissions {
                eprintln!("    emit q={} f={:?} target={:?} {:?}", e.queued, e.flushed, e.target, match &e.kind { raw::EmKind::Event(b) => format!("Event({:?})", String::from_utf8_lossy(b)), k => format!("{:?}", k) });
            }
            for (s, r) in &l.received {
                eprintln!("    recv {} {:?}", s, r);
            }
        }
        eprintln!("wakes {:?} settles {:?} bad_tags {:?} stop {:?} agent_end {:?} done_cp {} (cp {}) done_end {} result {:?}", obs.wakes, obs.settles, obs.bad_tag_ops, obs.stop_at, obs.agent_end_at, obs.done_at_checkpoint, obs.checkpoint_seq, obs.done_at_end, obs.result);
    }
    oracle::check(case, &obs)
}

fn main() {
    let args: Vec<String> = std::env::args().skip(1).collect();
    let mut ctx = Ctx::new("C04", &args);
    ctx.rule(
        "rawlane: the real agent runtime (AgentRouteTask::run_agent) around a harness Agent that opens 2-3 lanes (value / map / supply, \
         transient or not) and lets the op list play them: lane reads its input, emits standard events / sync events / synced (only for \
         sync requests it has received) with unique bodies, writes <= n bytes of its output, writes an invalid tag, closes; 1-4 remotes \
         send link / sync / unlink / command in any order to existing and non-existing lanes, write <= n bytes, read <= n bytes, drop; \
         stop trigger, agent end, inactivity and prune timeouts; channel capacities 1..4096 bytes. Every case ends with a drain to \
         quiescence, then the agent is ended and everything is drained again. Non-trivial = at an instant where a remote's writer was \
         provably lent out and parked on a full channel (a harness read woke an otherwise idle system) more link / lane-not-found answers \
         or synced markers had been caused than had been written to that remote, i.e. a special action or synced marker was queued behind \
         the busy writer. Distinct by the Debug form of the case.",
    );
    ctx.assume("the harness lanes obey the lane protocol: sync events and synced only for remote ids whose sync request the lane has read");
    ctx.assume("single-threaded harness-owned schedule; paused clock; shutdown_timeout is never allowed to expire");
    ctx.assume("a lane that merely closes its channels (no malformed output) is not counted as a failed lane: no unlinked is demanded for it before the agent stops");
    let n = ctx.pick(500_000, 6_000_000);
    let max_ops = ctx.pick(80, 200);
    ctx.prop("rawlane", n, move || raw::arb_case(max_ops), check_raw);
    let n = ctx.pick(300_000, 4_000_000);
    let max_ops = ctx.pick(70, 200);
    ctx.prop("simagent-grammar", n, move || simgram::arb_case(max_ops), simgram::check);
    ctx.finish();
}
