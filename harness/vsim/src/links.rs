//! Harness side of the agent's outgoing command channels: the "link request server". The agent
//! runtime's external links task sends `LinkRequest::Commander` on `Sim::link_rx` whenever it needs a
//! channel to a target endpoint (one per local target lane, one per remote host). The harness answers
//! each request, when the op list says so, with the writer half of a byte channel of generated
//! capacity and drains the reader half at a generated pace, decoding the `RequestMessage` frames the
//! runtime forwards. Every decoded frame is stamped with the global sequence number at which its last
//! byte was read. (Downlink requests are refused by dropping their promise.)

use crate::remote::harness_op;
use bytes::BytesMut;
use std::collections::VecDeque;
use std::num::NonZeroUsize;
use std::pin::Pin;
use std::sync::atomic::{AtomicU64, Ordering};
use std::sync::Arc;
use std::task::Poll;
use swimos_messages::protocol::{Operation, RawRequestMessageDecoder};
use swimos_runtime::agent::{CommanderKey, CommanderRequest, LinkRequest};
use swimos_utilities::byte_channel::{byte_channel, ByteReader};
use tokio::io::{AsyncRead, ReadBuf};
use tokio::sync::mpsc;
use tokio_util::codec::Decoder;
use uuid::Uuid;

#[derive(Clone, Debug, PartialEq, Eq)]
pub enum CmdFrameKind {
    Command(Vec<u8>),
    Link,
    Sync,
    Unlink,
}

/// One `RequestMessage` read from a command channel.
#[derive(Clone, Debug, PartialEq, Eq)]
pub struct CmdFrame {
    /// Global sequence number when the last byte of the frame was read.
    pub seq: u64,
    pub origin: Uuid,
    pub node: String,
    pub lane: String,
    pub kind: CmdFrameKind,
}

impl CmdFrame {
    /// Exact encoded size of the frame on the channel.
    pub fn wire_len(&self) -> usize {
        let body = match &self.kind {
            CmdFrameKind::Command(b) => b.len(),
            _ => 0,
        };
        32 + self.node.len() + self.lane.len() + body
    }
}

/// Printable form of a commander key: `local:<node>|<lane>` or `remote:<scheme>://<host>:<port>`.
pub fn key_string(key: &CommanderKey) -> String {
    match key {
        CommanderKey::Local(addr) => format!("local:{}|{}", addr.node, addr.lane),
        CommanderKey::Remote(shp) => format!("remote:{}", shp),
    }
}

/// A request the harness has taken from `link_rx` but not answered yet.
pub struct PendingCommander {
    pub key: String,
    pub agent_id: Uuid,
    /// Sequence number at which the harness took the request from the queue.
    pub seq: u64,
    request: CommanderRequest,
}

/// The reader half of a command channel handed to the agent.
pub struct CmdChannel {
    pub key: String,
    pub agent_id: Uuid,
    pub cap: usize,
    /// Sequence number at which the channel was handed over.
    pub opened_seq: u64,
    reader: Option<ByteReader>,
    inbox: BytesMut,
    pub frames: Vec<CmdFrame>,
    /// The agent side dropped its writer (EOF seen after the remaining bytes).
    pub eof: bool,
    pub decode_error: Option<String>,
    pub bytes_read: u64,
    /// The agent dropped the request before it was answered (the writer could not be delivered).
    pub refused_by_agent: bool,
    clock: Arc<AtomicU64>,
}

impl CmdChannel {
    fn tick(&self) -> u64 {
        self.clock.fetch_add(1, Ordering::SeqCst)
    }

    /// Read up to `max` bytes and decode any complete frames. Returns the number of bytes read.
    pub fn read(&mut self, max: usize) -> usize {
        let mut total = 0;
        while total < max {
            let Some(r) = self.reader.as_mut() else {
                break;
            };
            let want = (max - total).min(4096);
            let mut tmp = vec![0u8; want];
            let mut rb = ReadBuf::new(&mut tmp);
            match harness_op(|cx| Pin::new(&mut *r).poll_read(cx, &mut rb)) {
                Poll::Ready(Ok(())) => {
                    let n = rb.filled().len();
                    if n == 0 {
                        self.eof = true;
                        self.reader = None;
                        break;
                    }
                    self.inbox.extend_from_slice(rb.filled());
                    total += n;
                    self.bytes_read += n as u64;
                    self.decode();
                }
                Poll::Ready(Err(_)) => {
                    self.eof = true;
                    self.reader = None;
                    break;
                }
                Poll::Pending => break,
            }
        }
        total
    }

    fn decode(&mut self) {
        if self.decode_error.is_some() {
            return;
        }
        let mut dec = RawRequestMessageDecoder;
        loop {
            match dec.decode(&mut self.inbox) {
                Ok(Some(msg)) => {
                    let kind = match msg.envelope {
                        Operation::Link => CmdFrameKind::Link,
                        Operation::Sync => CmdFrameKind::Sync,
                        Operation::Unlink => CmdFrameKind::Unlink,
                        Operation::Command(b) => CmdFrameKind::Command(b.to_vec()),
                    };
                    let seq = self.tick();
                    self.frames.push(CmdFrame {
                        seq,
                        origin: msg.origin,
                        node: msg.path.node.as_str().to_string(),
                        lane: msg.path.lane.as_str().to_string(),
                        kind,
                    });
                }
                Ok(None) => break,
                Err(e) => {
                    self.decode_error = Some(format!("{:?}", e));
                    break;
                }
            }
        }
    }

    /// Bytes of an incomplete frame held by the harness.
    pub fn partial_bytes(&self) -> usize {
        self.inbox.len()
    }

    /// Drop the reader (the target goes away).
    pub fn close(&mut self) {
        self.reader = None;
    }

    pub fn is_open(&self) -> bool {
        self.reader.is_some()
    }
}

pub struct LinkServer {
    clock: Arc<AtomicU64>,
    pub pending: VecDeque<PendingCommander>,
    pub channels: Vec<CmdChannel>,
    /// Downlink requests seen (all refused by dropping the promise).
    pub downlink_requests: usize,
    /// The request queue was closed by the agent (agent stopped).
    pub closed: bool,
}

impl LinkServer {
    pub fn new(clock: Arc<AtomicU64>) -> Self {
        LinkServer {
            clock,
            pending: VecDeque::new(),
            channels: vec![],
            downlink_requests: 0,
            closed: false,
        }
    }

    fn tick(&self) -> u64 {
        self.clock.fetch_add(1, Ordering::SeqCst)
    }

    /// Take every request currently queued by the agent. Returns the number of commander requests
    /// taken.
    pub fn accept(&mut self, rx: &mut mpsc::Receiver<LinkRequest>) -> usize {
        let mut n = 0;
        loop {
            match rx.try_recv() {
                Ok(LinkRequest::Commander(request)) => {
                    let seq = self.tick();
                    self.pending.push_back(PendingCommander {
                        key: key_string(&request.key),
                        agent_id: request.agent_id,
                        seq,
                        request,
                    });
                    n += 1;
                }
                Ok(LinkRequest::Downlink(_)) => {
                    self.downlink_requests += 1;
                }
                Err(mpsc::error::TryRecvError::Empty) => break,
                Err(mpsc::error::TryRecvError::Disconnected) => {
                    self.closed = true;
                    break;
                }
            }
        }
        n
    }

    /// Answer the oldest pending commander request with a channel of the given capacity. Returns the
    /// index of the new channel.
    pub fn answer_next(&mut self, cap: usize) -> Option<usize> {
        let PendingCommander {
            key,
            agent_id,
            request,
            ..
        } = self.pending.pop_front()?;
        let cap = cap.max(1);
        let (tx, rx) = byte_channel(NonZeroUsize::new(cap).unwrap());
        let refused = request.promise.send(Ok(tx)).is_err();
        let opened_seq = self.tick();
        self.channels.push(CmdChannel {
            key,
            agent_id,
            cap,
            opened_seq,
            reader: Some(rx),
            inbox: BytesMut::new(),
            frames: vec![],
            eof: false,
            decode_error: None,
            bytes_read: 0,
            refused_by_agent: refused,
            clock: self.clock.clone(),
        });
        Some(self.channels.len() - 1)
    }

    /// Read up to `max` bytes from channel `ch`.
    pub fn read(&mut self, ch: usize, max: usize) -> usize {
        match self.channels.get_mut(ch) {
            Some(c) => c.read(max),
            None => 0,
        }
    }

    /// Read every channel to exhaustion. Returns the number of bytes read.
    pub fn drain_all(&mut self) -> usize {
        self.channels.iter_mut().map(|c| c.read(usize::MAX)).sum()
    }
}
