//! A harness "remote": two byte channel halves plus an outbox of not yet written request bytes and
//! the decoded response frames, each stamped with the global sequence number at which it was read.

use bytes::{Bytes, BytesMut};
use serde::{Deserialize, Serialize};
use std::future::Future;
use std::num::NonZeroUsize;
use std::pin::Pin;
use std::sync::atomic::{AtomicU64, Ordering};
use std::sync::Arc;
use std::task::{Context, Poll, Wake, Waker};
use swimos_api::address::RelativeAddress;
use swimos_messages::protocol::{
    Notification, Operation, RawRequestMessageEncoder, RawResponseMessageDecoder, RequestMessage,
};
use swimos_runtime::agent::DisconnectionReason;
use swimos_utilities::byte_channel::{BudgetedFutureExt, ByteReader, ByteWriter};
use swimos_utilities::trigger::promise;
use tokio::io::{AsyncRead, AsyncWrite, ReadBuf};
use tokio_util::codec::{Decoder, Encoder};
use uuid::Uuid;

struct Noop;
impl Wake for Noop {
    fn wake(self: Arc<Self>) {}
}

pub fn noop_waker() -> Waker {
    Waker::from(Arc::new(Noop))
}

/// Run a harness-side channel operation under a large cooperative budget so that the channel's
/// coop accounting (a thread local shared with the system under test) never makes a harness
/// operation return a spurious `Pending`.
pub fn harness_op<T>(mut f: impl FnMut(&mut Context<'_>) -> Poll<T>) -> Poll<T> {
    let waker = noop_waker();
    let mut cx = Context::from_waker(&waker);
    let fut = std::future::poll_fn(|cx| f(cx)).with_budget(NonZeroUsize::new(1 << 30).unwrap());
    let mut fut = std::pin::pin!(fut);
    fut.as_mut().poll(&mut cx)
}

#[derive(Clone, Debug, PartialEq, Eq, Serialize, Deserialize)]
pub enum FrameKind {
    Linked,
    Synced,
    Unlinked(Option<Vec<u8>>),
    Event(Vec<u8>),
}

#[derive(Clone, Debug, PartialEq, Eq, Serialize, Deserialize)]
pub struct Frame {
    /// Global sequence number when the last byte of the frame was read by the remote.
    pub seq: u64,
    pub node: String,
    pub lane: String,
    pub kind: FrameKind,
}

impl Frame {
    pub fn body_str(&self) -> Option<String> {
        match &self.kind {
            FrameKind::Event(b) => Some(String::from_utf8_lossy(b).to_string()),
            FrameKind::Unlinked(Some(b)) => Some(String::from_utf8_lossy(b).to_string()),
            _ => None,
        }
    }
}

#[derive(Clone, Debug, PartialEq, Eq)]
pub enum Req {
    Link,
    Sync,
    Unlink,
    Command(Vec<u8>),
}

pub struct Remote {
    pub id: Uuid,
    pub node: String,
    to_agent: Option<ByteWriter>,
    from_agent: Option<ByteReader>,
    outbox: BytesMut,
    /// Sequence numbers at which each queued request finishes leaving the outbox:
    /// (absolute outbox offset of its last byte, index into `sent`).
    pending_marks: Vec<(u64, usize)>,
    written_total: u64,
    queued_total: u64,
    inbox: BytesMut,
    pub frames: Vec<Frame>,
    /// One entry per request: (lane, request, seq when queued, seq when its last byte was written).
    pub sent: Vec<(String, Req, u64, Option<u64>)>,
    pub completion: Option<promise::Receiver<DisconnectionReason>>,
    /// The agent side closed the response channel (EOF seen).
    pub eof: bool,
    /// The agent side dropped the request channel (write failed).
    pub write_closed: bool,
    pub decode_error: Option<String>,
    pub out_cap: usize,
    pub bytes_read: u64,
    clock: Arc<AtomicU64>,
}

impl Remote {
    pub(crate) fn new(
        id: Uuid,
        node: String,
        to_agent: ByteWriter,
        from_agent: ByteReader,
        completion: promise::Receiver<DisconnectionReason>,
        out_cap: usize,
        clock: Arc<AtomicU64>,
    ) -> Self {
        Remote {
            id,
            node,
            to_agent: Some(to_agent),
            from_agent: Some(from_agent),
            outbox: BytesMut::new(),
            pending_marks: vec![],
            written_total: 0,
            queued_total: 0,
            inbox: BytesMut::new(),
            frames: vec![],
            sent: vec![],
            completion: Some(completion),
            eof: false,
            write_closed: false,
            decode_error: None,
            out_cap,
            bytes_read: 0,
            clock,
        }
    }

    fn tick(&self) -> u64 {
        self.clock.fetch_add(1, Ordering::SeqCst)
    }

    /// Queue a request envelope in the outbox (nothing is written yet).
    pub fn send(&mut self, lane: &str, req: Req) {
        let path = RelativeAddress::new(self.node.as_str(), lane);
        let envelope: Operation<&[u8]> = match &req {
            Req::Link => Operation::Link,
            Req::Sync => Operation::Sync,
            Req::Unlink => Operation::Unlink,
            Req::Command(body) => Operation::Command(body.as_slice()),
        };
        let msg: RequestMessage<&str, &[u8]> = RequestMessage {
            origin: self.id,
            path,
            envelope,
        };
        let before = self.outbox.len();
        let mut enc = RawRequestMessageEncoder;
        enc.encode(msg, &mut self.outbox).expect("encoding a request cannot fail");
        self.queued_total += (self.outbox.len() - before) as u64;
        let seq = self.tick();
        self.sent.push((lane.to_string(), req, seq, None));
        self.pending_marks.push((self.queued_total, self.sent.len() - 1));
    }

    pub fn outbox_len(&self) -> usize {
        self.outbox.len()
    }

    /// Write up to `max` bytes of the outbox to the agent. Returns the number written.
    pub fn pump(&mut self, max: usize) -> usize {
        let mut written = 0;
        while written < max && !self.outbox.is_empty() {
            let Some(w) = self.to_agent.as_mut() else {
                break;
            };
            let n = (max - written).min(self.outbox.len());
            let chunk = &self.outbox[..n];
            match harness_op(|cx| Pin::new(&mut *w).poll_write(cx, chunk)) {
                Poll::Ready(Ok(0)) => break,
                Poll::Ready(Ok(k)) => {
                    let _ = self.outbox.split_to(k);
                    written += k;
                    self.written_total += k as u64;
                    let total = self.written_total;
                    let mut done = vec![];
                    self.pending_marks.retain(|(mark, idx)| {
                        if *mark <= total {
                            done.push(*idx);
                            false
                        } else {
                            true
                        }
                    });
                    for idx in done {
                        let s = self.tick();
                        self.sent[idx].3 = Some(s);
                    }
                }
                Poll::Ready(Err(_)) => {
                    self.write_closed = true;
                    self.to_agent = None;
                    break;
                }
                Poll::Pending => break,
            }
        }
        written
    }

    /// Read up to `max` bytes from the agent and decode any complete frames. Returns bytes read.
    pub fn read(&mut self, max: usize) -> usize {
        let mut total = 0;
        while total < max {
            let Some(r) = self.from_agent.as_mut() else {
                break;
            };
            let want = (max - total).min(4096);
            let mut tmp = vec![0u8; want];
            let mut rb = ReadBuf::new(&mut tmp);
            match harness_op(|cx| Pin::new(&mut *r).poll_read(cx, &mut rb)) {
                Poll::Ready(Ok(())) => {
                    let n = rb.filled().len();
                    if n == 0 {
                        self.eof = true;
                        self.from_agent = None;
                        break;
                    }
                    self.inbox.extend_from_slice(rb.filled());
                    total += n;
                    self.bytes_read += n as u64;
                    self.decode();
                }
                Poll::Ready(Err(_)) => {
                    self.eof = true;
                    self.from_agent = None;
                    break;
                }
                Poll::Pending => break,
            }
        }
        total
    }

    fn decode(&mut self) {
        if self.decode_error.is_some() {
            return;
        }
        let mut dec = RawResponseMessageDecoder;
        loop {
            match dec.decode(&mut self.inbox) {
                Ok(Some(msg)) => {
                    let kind = match msg.envelope {
                        Notification::Linked => FrameKind::Linked,
                        Notification::Synced => FrameKind::Synced,
                        Notification::Unlinked(b) => {
                            FrameKind::Unlinked(b.map(|b: Bytes| b.to_vec()))
                        }
                        Notification::Event(b) => FrameKind::Event(b.to_vec()),
                    };
                    let seq = self.tick();
                    self.frames.push(Frame {
                        seq,
                        node: msg.path.node.as_str().to_string(),
                        lane: msg.path.lane.as_str().to_string(),
                        kind,
                    });
                }
                Ok(None) => break,
                Err(e) => {
                    self.decode_error = Some(format!("{:?}", e));
                    break;
                }
            }
        }
    }

    /// Bytes of an incomplete frame held by the remote.
    pub fn partial_bytes(&self) -> usize {
        self.inbox.len()
    }

    /// Drop both channel halves (the remote disconnects).
    pub fn disconnect(&mut self) {
        self.to_agent = None;
        self.from_agent = None;
    }

    pub fn is_connected(&self) -> bool {
        self.to_agent.is_some() || self.from_agent.is_some()
    }

    pub fn disconnection_reason(&mut self) -> Option<Result<DisconnectionReason, ()>> {
        let c = self.completion.as_mut()?;
        let waker = noop_waker();
        let mut cx = Context::from_waker(&waker);
        match Pin::new(c).poll(&mut cx) {
            Poll::Ready(Ok(r)) => Some(Ok(r)),
            Poll::Ready(Err(_)) => Some(Err(())),
            Poll::Pending => None,
        }
    }

    pub fn frames_for<'a>(&'a self, lane: &'a str) -> impl Iterator<Item = &'a Frame> + 'a {
        self.frames.iter().filter(move |f| f.lane == lane)
    }
}
