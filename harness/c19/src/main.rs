mod c19;
fn main() {
    let args: Vec<String> = std::env::args().skip(1).collect();
    let mut ctx = vcommon::Ctx::new("C19", &args);
    c19::run(&mut ctx);
    ctx.finish();
}
