//! Sub-check 2: two real `RemoteTask`s (A: server role with a `FindNode` channel, B: client role,
//! with or without one) whose web sockets (`ratchet::WebSocket::from_upgraded` over
//! `tokio::io::duplex`) are joined by a harness relay that forwards bytes unmodified, records the
//! frames on the wire and can inject whole frames at frame boundaries. The harness plays the agents
//! (answers `FindNode`), the downlinks (`AttachClient::AttachDownlink`) and send-only clients
//! (`AttachClient::OneWay`) on both sides. Both task futures are polled by hand with flag wakers
//! inside a paused current-thread runtime: the op list owns the schedule.

use crate::gen::{arb_body, arb_warp_text, needs_quoting};
use bytes::{Buf, BytesMut};
use futures::future::BoxFuture;
use futures::FutureExt;
use proptest::prelude::*;
use ratchet::{NoExt, Role, WebSocket, WebSocketConfig};
use serde::{Deserialize, Serialize};
use std::collections::{HashSet, VecDeque};
use std::future::Future;
use std::num::NonZeroUsize;
use std::pin::Pin;
use std::sync::atomic::{AtomicBool, Ordering};
use std::sync::Arc;
use std::task::{Context, Poll, Wake, Waker};
use std::time::Duration;
use swimos_api::address::RelativeAddress;
use swimos_messages::protocol::{
    Notification, Operation, RawRequestMessageDecoder, RawRequestMessageEncoder,
    RawResponseMessageDecoder, RawResponseMessageEncoder, RequestMessage, ResponseMessage,
};
use swimos_messages::remote_protocol::{
    AgentResolutionError, AttachClient, FindNode, LinkError, NoSuchAgent, NodeConnectionRequest,
};
use swimos_remote::RemoteTask;
use swimos_utilities::byte_channel::{byte_channel, BudgetedFutureExt, ByteReader, ByteWriter};
use swimos_utilities::trigger;
use tokio::io::{duplex, AsyncRead, AsyncWrite, DuplexStream, ReadBuf};
use tokio::sync::{mpsc, oneshot};
use tokio_util::codec::{Decoder, Encoder};
use uuid::Uuid;
use vcommon::{pick_index, Verdict};

pub const QUICK_CASES: u64 = 120_000;
pub const THOROUGH_CASES: u64 = 6_000_000;

// ---------------------------------------------------------------------------------------------
// executor plumbing (same technique as vsim::exec / vsim::remote)

pub struct Flag(AtomicBool);
impl Wake for Flag {
    fn wake(self: Arc<Self>) {
        self.0.store(true, Ordering::SeqCst);
    }
    fn wake_by_ref(self: &Arc<Self>) {
        self.0.store(true, Ordering::SeqCst);
    }
}

struct Noop;
impl Wake for Noop {
    fn wake(self: Arc<Self>) {}
}

fn nz(n: usize) -> NonZeroUsize {
    NonZeroUsize::new(n.max(1)).unwrap()
}

/// Run a harness-side channel operation under a large cooperative budget (the byte channel's coop
/// accounting is a thread local shared with the tasks under test).
fn harness_op<T>(mut f: impl FnMut(&mut Context<'_>) -> Poll<T>) -> Poll<T> {
    let waker = Waker::from(Arc::new(Noop));
    let mut cx = Context::from_waker(&waker);
    let fut = std::future::poll_fn(|cx| f(cx)).with_budget(nz(1 << 30));
    let mut fut = std::pin::pin!(fut);
    fut.as_mut().poll(&mut cx)
}

fn block_on_paused<F: Future>(seed: u64, fut: F) -> F::Output {
    let mut bytes = [0u8; 32];
    for (i, c) in bytes.chunks_mut(8).enumerate() {
        c.copy_from_slice(&(seed.wrapping_add(i as u64).wrapping_mul(0x9E3779B97F4A7C15)).to_le_bytes());
    }
    let rt = tokio::runtime::Builder::new_current_thread()
        .enable_time()
        .start_paused(true)
        .rng_seed(tokio::runtime::RngSeed::from_bytes(&bytes))
        .build()
        .expect("runtime");
    // the harness future never yields to the scheduler: tokio's own coop budget must not starve it
    rt.block_on(tokio::task::unconstrained(fut))
}

// ---------------------------------------------------------------------------------------------
// model of a message

#[derive(Clone, Copy, Debug, PartialEq, Eq, Hash, Serialize, Deserialize)]
pub enum K {
    Link,
    Sync,
    Unlink,
    Command,
    Linked,
    Synced,
    Unlinked,
    Event,
}

const REQ_KINDS: [K; 4] = [K::Link, K::Sync, K::Unlink, K::Command];
const RESP_KINDS: [K; 4] = [K::Linked, K::Synced, K::Unlinked, K::Event];

impl K {
    fn name(&self) -> &'static str {
        match self {
            K::Link => "link",
            K::Sync => "sync",
            K::Unlink => "unlink",
            K::Command => "command",
            K::Linked => "linked",
            K::Synced => "synced",
            K::Unlinked => "unlinked",
            K::Event => "event",
        }
    }
    fn is_request(&self) -> bool {
        matches!(self, K::Link | K::Sync | K::Unlink | K::Command)
    }
    fn has_body(&self) -> bool {
        matches!(self, K::Command | K::Unlinked | K::Event)
    }
}

/// `body` is "" for kinds without a body; `Unlinked(None)` and `Unlinked(Some(""))` are the same
/// message (the byte-channel codec does not distinguish them either).
#[derive(Clone, Debug, PartialEq, Eq, Hash)]
struct Msg {
    k: K,
    node: String,
    lane: String,
    body: String,
}

fn short(s: &str) -> String {
    if s.len() > 120 {
        format!("{:?}..({}B)", s.chars().take(60).collect::<String>(), s.len())
    } else {
        format!("{:?}", s)
    }
}

impl Msg {
    fn show(&self) -> String {
        format!("@{}(node:{},lane:{}) body={}", self.k.name(), short(&self.node), short(&self.lane), short(&self.body))
    }
}

// ---------------------------------------------------------------------------------------------
// case

#[derive(Clone, Debug, Serialize, Deserialize)]
pub struct BodySpec {
    pub style: u8,
    pub extra: String,
    /// when set: pad the body so that the routed frame (32 byte header + node + lane + body) of
    /// the message has exactly this many bytes (if the message is not already larger)
    #[serde(default)]
    pub size: Option<u32>,
}

/// Sizes at which buffers in the path change behaviour: byte-channel / codec buffer sizes (4 KiB,
/// 8 KiB) and the 64 KiB reserve cap of the routed-frame decoders, each -1 / exact / +1.
pub const SIZE_CLASSES: &[u32] = &[4095, 4096, 4097, 8191, 8192, 8193, 65535, 65536, 65537, 70001, 131073];

#[derive(Clone, Debug, Serialize, Deserialize)]
pub enum Inj {
    /// binary frame (its payload is a well formed envelope for an existing pair)
    Binary,
    /// text frame whose payload is a well formed envelope with one invalid UTF-8 byte spliced in
    BadUtf8(u8),
    /// text frame that is not a WARP envelope
    Garbage(u8),
    /// ping control frame: answered with a pong by the web socket layer, delivered to no one
    Ping,
    /// `@auth` / `@deauth` envelopes: valid, documented as not implemented, delivered to no one
    Auth(bool),
    /// a hand-written valid envelope in an alternative (equivalent) Recon surface syntax
    Valid {
        k: u8,
        node: u8,
        lane: u8,
        body: BodySpec,
        style: u8,
        esc: u64,
        /// cut points (fractions of the payload) at which the text message is split into a
        /// FIN=0 text frame + continuation frames
        #[serde(default)]
        frag: Vec<u16>,
        /// additionally cut exactly where the body starts
        #[serde(default)]
        cut_at_body: bool,
        /// control frames interleaved between the fragments: bit i of `ctl` set = a ping (even i)
        /// or pong (odd i) after fragment i
        #[serde(default)]
        ctl: u8,
    },
}

#[derive(Clone, Debug, Serialize, Deserialize)]
pub enum Op {
    AttachDl { side: bool, node: u8, lane: u8, in_cap: u16, out_cap: u16 },
    AttachOneWay { side: bool, cap: u16 },
    /// a downlink writes a request for its own (node,lane); a one-way client a command for (node,lane)
    ClientSend { c: u16, k: u8, node: u8, lane: u8, body: BodySpec },
    /// an agent writes a response for one of its lanes
    AgentSend { a: u16, k: u8, lane: u8, body: BodySpec },
    DetachClient { c: u16, keep_reader: bool },
    DetachAgent { a: u16 },
    Pump { src: u16, n: u16 },
    Read { sink: u16, n: u16 },
    Answer { side: bool },
    Poll { side: bool, k: u8 },
    Relay { from_b: bool, n: u16 },
    Inject { to_b: bool, frame: Inj },
    Settle,
}

#[derive(Clone, Debug, Serialize, Deserialize)]
pub struct Case {
    pub seed: u64,
    /// (node uri, exists on A, exists on B)
    pub nodes: Vec<(String, bool, bool)>,
    pub lanes: Vec<String>,
    pub duplex_cap: usize,
    pub agent_cap: usize,
    pub reg_buf: usize,
    pub attach_q: usize,
    pub find_q: usize,
    pub budget: usize,
    pub b_has_find: bool,
    pub ops: Vec<Op>,
}

fn esc_lit(t: &str) -> String {
    let mut o = String::new();
    for c in t.chars() {
        match c {
            '"' => o.push_str("\\\""),
            '\\' => o.push_str("\\\\"),
            '\n' => o.push_str("\\n"),
            '\r' => o.push_str("\\r"),
            '\t' => o.push_str("\\t"),
            '\u{8}' => o.push_str("\\b"),
            '\u{c}' => o.push_str("\\f"),
            c if (c as u32) < 0x20 => o.push_str(&format!("\\u{:04x}", c as u32)),
            c => o.push(c),
        }
    }
    o
}

/// Strings that differ from `t` only in characters that matter to quoting / escaping / URI encoding.
fn variants(t: &str) -> Vec<String> {
    vec![
        t.to_string(),
        format!("\"{}\"", t),
        format!("{} ", t),
        format!(" {}", t),
        esc_lit(t),
        format!("{}\\", t),
        format!("\\{}", t),
        t.replace('/', "%2F"),
        t.replace(' ', "%20"),
        t.replace("%20", " "),
        format!("{}\u{0}", t),
        format!("{}\n", t),
        t.to_uppercase(),
        format!("{}/", t),
        format!("{0}{0}", t),
        format!("{}\"", t),
    ]
}

fn arb_names(min: usize, max: usize, prefix: &'static str) -> BoxedStrategy<Vec<String>> {
    (
        arb_warp_text(),
        arb_warp_text(),
        proptest::collection::vec(any::<u16>(), min..=max),
        proptest::bool::weighted(0.7),
    )
        .prop_map(move |(b1, b2, picks, confusable)| {
            // very long names belong to the pure sub-check; here they only make the byte-by-byte
            // schedules slow
            let cut = |s: String| -> String { s.chars().take(if s.len() % 7 == 0 { 300 } else { 48 }).collect() };
            let (b1, b2) = (cut(b1), cut(b2));
            let mut pool = variants(&b1);
            if confusable {
                pool.extend(variants(&b2).into_iter().take(3));
            } else {
                pool = vec![b1.clone(), b2.clone(), format!("{}x", b1), format!("{}y", b2)];
            }
            let mut out: Vec<String> = vec![];
            for p in picks {
                let s = pool[pick_index(p, pool.len())].clone();
                if !out.contains(&s) {
                    out.push(s);
                }
            }
            let mut i = 0;
            while out.len() < min {
                let s = format!("{}{}", prefix, i);
                if !out.contains(&s) {
                    out.push(s);
                }
                i += 1;
            }
            out
        })
        .boxed()
}

fn arb_body_spec() -> impl Strategy<Value = BodySpec> {
    (
        0u8..8,
        prop_oneof![3 => Just(String::new()), 2 => arb_body()],
        prop_oneof![400 => Just(None), 3 => proptest::sample::select(&SIZE_CLASSES[..6]).prop_map(Some), 1 => proptest::sample::select(&SIZE_CLASSES[6..]).prop_map(Some)],
    )
        .prop_map(|(style, extra, size)| BodySpec { style, extra, size })
}

fn arb_cap() -> impl Strategy<Value = u16> {
    prop_oneof![Just(1u16), Just(2), Just(7), Just(33), Just(64), Just(256), Just(4096)]
}

fn arb_n() -> impl Strategy<Value = u16> {
    prop_oneof![Just(1u16), Just(2), Just(3), Just(9), Just(40), Just(200), Just(u16::MAX)]
}

fn arb_inj() -> impl Strategy<Value = Inj> {
    prop_oneof![
        1 => Just(Inj::Binary),
        1 => any::<u8>().prop_map(Inj::BadUtf8),
        2 => any::<u8>().prop_map(Inj::Garbage),
        1 => Just(Inj::Ping),
        1 => any::<bool>().prop_map(Inj::Auth),
        16 => (0u8..8, any::<u8>(), any::<u8>(), arb_body_spec(), 0u8..9, any::<u64>())
            .prop_flat_map(|(k, node, lane, body, style, esc)| {
                (
                    Just((k, node, lane, body, style, esc)),
                    prop_oneof![3 => Just(vec![]), 2 => proptest::collection::vec(any::<u16>(), 1..4)],
                    proptest::bool::weighted(0.3),
                    prop_oneof![1 => Just(0u8), 2 => any::<u8>()],
                )
            })
            .prop_map(|((k, node, lane, body, style, esc), frag, cut_at_body, ctl)| Inj::Valid { k, node, lane, body, style, esc, frag, cut_at_body, ctl }),
    ]
}

fn arb_op() -> impl Strategy<Value = Op> {
    prop_oneof![
        4 => (any::<bool>(), any::<u8>(), any::<u8>(), arb_cap(), arb_cap())
            .prop_map(|(side, node, lane, in_cap, out_cap)| Op::AttachDl { side, node, lane, in_cap, out_cap }),
        1 => (any::<bool>(), arb_cap()).prop_map(|(side, cap)| Op::AttachOneWay { side, cap }),
        14 => (any::<u16>(), 0u8..4, any::<u8>(), any::<u8>(), arb_body_spec())
            .prop_map(|(c, k, node, lane, body)| Op::ClientSend { c, k, node, lane, body }),
        14 => (any::<u16>(), 0u8..4, any::<u8>(), arb_body_spec()).prop_map(|(a, k, lane, body)| Op::AgentSend { a, k, lane, body }),
        1 => (any::<u16>(), any::<bool>()).prop_map(|(c, keep_reader)| Op::DetachClient { c, keep_reader }),
        1 => any::<u16>().prop_map(|a| Op::DetachAgent { a }),
        2 => (any::<u16>(), arb_n()).prop_map(|(src, n)| Op::Pump { src, n }),
        2 => (any::<u16>(), arb_n()).prop_map(|(sink, n)| Op::Read { sink, n }),
        2 => any::<bool>().prop_map(|side| Op::Answer { side }),
        4 => (any::<bool>(), 1u8..40).prop_map(|(side, k)| Op::Poll { side, k }),
        4 => (any::<bool>(), arb_n()).prop_map(|(from_b, n)| Op::Relay { from_b, n }),
        2 => (any::<bool>(), arb_inj()).prop_map(|(to_b, frame)| Op::Inject { to_b, frame }),
        4 => Just(Op::Settle),
    ]
}

/// Opening moves that make the rest of the op list meaningful: a few downlinks on both sides, each
/// linking (which makes the peer resolve the agent), then a drain.
fn arb_prelude() -> impl Strategy<Value = Vec<Op>> {
    proptest::collection::vec((any::<bool>(), any::<u8>(), any::<u8>(), arb_cap(), arb_cap(), any::<bool>()), 0..6).prop_map(|dls| {
        let mut ops = vec![];
        for (i, (side, node, lane, in_cap, out_cap, link)) in dls.iter().enumerate() {
            ops.push(Op::AttachDl { side: *side, node: *node, lane: *lane, in_cap: *in_cap, out_cap: *out_cap });
            if *link {
                // `c` picks the newest live client
                ops.push(Op::ClientSend { c: u16::MAX, k: (i % 2) as u8, node: 0, lane: 0, body: BodySpec { style: 0, extra: String::new(), size: None } });
            }
        }
        if !ops.is_empty() {
            ops.push(Op::Settle);
        }
        ops
    })
}

pub fn arb_case(max_ops: usize) -> impl Strategy<Value = Case> {
    (
        (
            any::<u64>(),
            arb_names(2, 4, "/node"),
            arb_names(1, 3, "lane"),
            proptest::collection::vec((proptest::bool::weighted(0.85), proptest::bool::weighted(0.85)), 4),
        ),
        (
            prop_oneof![Just(16usize), Just(61), Just(256), Just(4096), Just(65536)],
            prop_oneof![Just(1usize), Just(8), Just(47), Just(512), Just(8192)],
            prop_oneof![1 => Just(1usize), 8 => 2usize..9],
            1usize..9,
            1usize..5,
            prop_oneof![Just(2usize), Just(3), Just(8), Just(64)],
            proptest::bool::weighted(0.75),
        ),
        arb_prelude(),
        proptest::collection::vec(arb_op(), 1..max_ops),
        // a node or lane name so long that even a body-less envelope for (node 0, lane 0) is a
        // routed frame of one of the boundary sizes
        prop_oneof![
            200 => Just(None),
            2 => (any::<bool>(), proptest::sample::select(&SIZE_CLASSES[..6]), 0u8..3).prop_map(Some),
            1 => (any::<bool>(), proptest::sample::select(&SIZE_CLASSES[6..9]), 0u8..3).prop_map(Some),
        ],
    )
        .prop_map(
            |((seed, mut nodes, mut lanes, exists), (duplex_cap, agent_cap, reg_buf, attach_q, find_q, budget, b_has_find), prelude, ops, big)| {
            if let Some((lane, target, fill)) = big {
                let fixed = 32 + nodes[0].len() + lanes[0].len();
                if (target as usize) > fixed {
                    let pad = ["a", " ", "/"][fill as usize].repeat(target as usize - fixed);
                    if lane {
                        lanes[0].push_str(&pad);
                    } else {
                        nodes[0].push_str(&pad);
                    }
                }
            }
            Case {
                seed,
                nodes: nodes.into_iter().zip(exists).map(|(n, (a, b))| (n, a, b)).collect(),
                lanes,
                duplex_cap,
                agent_cap,
                reg_buf,
                attach_q,
                find_q,
                budget,
                b_has_find,
                ops: prelude.into_iter().chain(ops).collect(),
            }},
        )
}

/// The body text of a message: unique per message (carries `tag`) unless the style is "empty".
fn make_body(spec: &BodySpec, tag: u32, other: (&str, &str)) -> String {
    let e = spec.extra.as_str();
    match spec.style % 8 {
        // the body is itself the text of an envelope for another path (a lane relaying envelopes / log lines)
        6 => format!("@event(node:{},lane:{}) {}", lit_canon(other.0), lit_canon(other.1), tag),
        7 => format!("@command(node:{},lane:{})@m({})", lit_canon(other.0), lit_canon(other.1), tag),
        0 => String::new(),
        1 => format!("{}", tag),
        2 | 5 => {
            if e.is_empty() {
                format!("@m({})", tag)
            } else if e.starts_with('@') {
                format!("@m({}){}", tag, e)
            } else {
                format!("@m({}) {}", tag, e)
            }
        }
        3 => {
            if e.is_empty() {
                format!("{{{}}}", tag)
            } else {
                format!("{{{},{}}}", tag, e)
            }
        }
        _ => format!("\"{} {}\"", tag, esc_lit(e)),
    }
}

// ---------------------------------------------------------------------------------------------
// web socket framing (RFC 6455), harness side

#[derive(Clone, Debug)]
struct WireFrame {
    fin: bool,
    opcode: u8,
    payload: Vec<u8>,
}

fn build_frame(opcode: u8, payload: &[u8], masked: bool) -> Vec<u8> {
    build_frame_fin(opcode, payload, masked, true)
}

fn build_frame_fin(opcode: u8, payload: &[u8], masked: bool, fin: bool) -> Vec<u8> {
    let mut f = vec![if fin { 0x80 } else { 0 } | opcode];
    let m = if masked { 0x80u8 } else { 0 };
    if payload.len() < 126 {
        f.push(m | payload.len() as u8);
    } else if payload.len() <= 0xffff {
        f.push(m | 126);
        f.extend_from_slice(&(payload.len() as u16).to_be_bytes());
    } else {
        f.push(m | 127);
        f.extend_from_slice(&(payload.len() as u64).to_be_bytes());
    }
    if masked {
        let key = [0x1du8, 0xa7, 0x00, 0x5e];
        f.extend_from_slice(&key);
        f.extend(payload.iter().enumerate().map(|(i, b)| b ^ key[i & 3]));
    } else {
        f.extend_from_slice(payload);
    }
    f
}

#[derive(Default)]
struct FrameParser {
    acc: Vec<u8>,
}

impl FrameParser {
    fn at_boundary(&self) -> bool {
        self.acc.is_empty()
    }
    /// Bytes up to the end of the frame in progress, when its header is complete (else 1).
    fn remaining_in_frame(&self) -> usize {
        let a = &self.acc;
        if a.len() < 2 {
            return 1;
        }
        let masked = a[1] & 0x80 != 0;
        let (ext, len) = match (a[1] & 0x7f) as usize {
            126 if a.len() >= 4 => (2, u16::from_be_bytes([a[2], a[3]]) as usize),
            127 if a.len() >= 10 => {
                let mut b = [0u8; 8];
                b.copy_from_slice(&a[2..10]);
                (8, u64::from_be_bytes(b) as usize)
            }
            126 | 127 => return 1,
            n => (0, n),
        };
        (2 + ext + if masked { 4 } else { 0 } + len).saturating_sub(a.len()).max(1)
    }
    fn feed(&mut self, bytes: &[u8]) -> Vec<WireFrame> {
        self.acc.extend_from_slice(bytes);
        let mut out = vec![];
        loop {
            let a = &self.acc;
            if a.len() < 2 {
                break;
            }
            let masked = a[1] & 0x80 != 0;
            let l7 = (a[1] & 0x7f) as usize;
            let (ext, len) = match l7 {
                126 => {
                    if a.len() < 4 {
                        break;
                    }
                    (2, u16::from_be_bytes([a[2], a[3]]) as usize)
                }
                127 => {
                    if a.len() < 10 {
                        break;
                    }
                    let mut b = [0u8; 8];
                    b.copy_from_slice(&a[2..10]);
                    (8, u64::from_be_bytes(b) as usize)
                }
                n => (0, n),
            };
            let hdr = 2 + ext + if masked { 4 } else { 0 };
            if a.len() < hdr + len {
                break;
            }
            let mut payload = a[hdr..hdr + len].to_vec();
            if masked {
                let key = [a[hdr - 4], a[hdr - 3], a[hdr - 2], a[hdr - 1]];
                for (i, b) in payload.iter_mut().enumerate() {
                    *b ^= key[i & 3];
                }
            }
            out.push(WireFrame {
                fin: a[0] & 0x80 != 0,
                opcode: a[0] & 0x0f,
                payload,
            });
            self.acc.drain(..hdr + len);
        }
        out
    }
}

// ---------------------------------------------------------------------------------------------
// byte channel halves held by the harness

#[derive(Clone, Debug)]
struct Sent {
    src: usize,
    toward: usize,
    msg: Msg,
    tagged: bool,
    /// clock at which the last byte of the message was handed over (None: never fully written)
    t_sent: Option<u64>,
}

struct OutHalf {
    w: Option<ByteWriter>,
    outbox: BytesMut,
    queued_total: u64,
    written_total: u64,
    marks: VecDeque<(u64, usize)>,
}

impl OutHalf {
    fn new(w: ByteWriter) -> Self {
        OutHalf { w: Some(w), outbox: BytesMut::new(), queued_total: 0, written_total: 0, marks: VecDeque::new() }
    }
    fn queue(&mut self, before: usize, sent_idx: usize) {
        self.queued_total += (self.outbox.len() - before) as u64;
        self.marks.push_back((self.queued_total, sent_idx));
    }
    fn pump(&mut self, max: usize, clock: &mut u64, sent: &mut [Sent]) -> usize {
        let mut written = 0;
        while written < max && !self.outbox.is_empty() {
            let Some(w) = self.w.as_mut() else { break };
            let n = (max - written).min(self.outbox.len());
            let chunk = &self.outbox[..n];
            match harness_op(|cx| Pin::new(&mut *w).poll_write(cx, chunk)) {
                Poll::Ready(Ok(0)) => break,
                Poll::Ready(Ok(k)) => {
                    self.outbox.advance(k);
                    written += k;
                    self.written_total += k as u64;
                    while let Some((mark, idx)) = self.marks.front().copied() {
                        if mark <= self.written_total {
                            *clock += 1;
                            sent[idx].t_sent = Some(*clock);
                            self.marks.pop_front();
                        } else {
                            break;
                        }
                    }
                }
                Poll::Ready(Err(_)) => {
                    self.w = None;
                    self.outbox.clear();
                    self.marks.clear();
                    break;
                }
                Poll::Pending => break,
            }
        }
        written
    }
    fn close(&mut self) {
        self.w = None;
        self.outbox.clear();
        self.marks.clear();
    }
}

struct InHalf {
    r: Option<ByteReader>,
    buf: BytesMut,
}

impl InHalf {
    fn new(r: ByteReader) -> Self {
        InHalf { r: Some(r), buf: BytesMut::new() }
    }
    fn read(&mut self, max: usize) -> usize {
        let mut total = 0;
        while total < max {
            let Some(r) = self.r.as_mut() else { break };
            let want = (max - total).min(4096);
            let mut tmp = vec![0u8; want];
            let mut rb = ReadBuf::new(&mut tmp);
            match harness_op(|cx| Pin::new(&mut *r).poll_read(cx, &mut rb)) {
                Poll::Ready(Ok(())) => {
                    let n = rb.filled().len();
                    if n == 0 {
                        self.r = None;
                        break;
                    }
                    self.buf.extend_from_slice(rb.filled());
                    total += n;
                }
                Poll::Ready(Err(_)) => {
                    self.r = None;
                    break;
                }
                Poll::Pending => break,
            }
        }
        total
    }
}

fn decode_responses(buf: &mut BytesMut, clock: &mut u64, out: &mut Vec<(u64, Msg)>) -> Result<(), String> {
    let mut dec = RawResponseMessageDecoder;
    loop {
        match dec.decode(buf) {
            Ok(Some(ResponseMessage { path, envelope, .. })) => {
                let (k, body) = match envelope {
                    Notification::Linked => (K::Linked, vec![]),
                    Notification::Synced => (K::Synced, vec![]),
                    Notification::Unlinked(b) => (K::Unlinked, b.map(|b| b.to_vec()).unwrap_or_default()),
                    Notification::Event(b) => (K::Event, b.to_vec()),
                };
                *clock += 1;
                out.push((
                    *clock,
                    Msg { k, node: path.node.as_str().to_string(), lane: path.lane.as_str().to_string(), body: String::from_utf8_lossy(&body).to_string() },
                ));
            }
            Ok(None) => return Ok(()),
            Err(e) => return Err(e.to_string()),
        }
    }
}

fn decode_requests(buf: &mut BytesMut, clock: &mut u64, out: &mut Vec<(u64, Msg)>) -> Result<(), String> {
    let mut dec = RawRequestMessageDecoder;
    loop {
        match dec.decode(buf) {
            Ok(Some(RequestMessage { path, envelope, .. })) => {
                let (k, body) = match envelope {
                    Operation::Link => (K::Link, vec![]),
                    Operation::Sync => (K::Sync, vec![]),
                    Operation::Unlink => (K::Unlink, vec![]),
                    Operation::Command(b) => (K::Command, b.to_vec()),
                };
                *clock += 1;
                out.push((
                    *clock,
                    Msg { k, node: path.node.as_str().to_string(), lane: path.lane.as_str().to_string(), body: String::from_utf8_lossy(&body).to_string() },
                ));
            }
            Ok(None) => return Ok(()),
            Err(e) => return Err(e.to_string()),
        }
    }
}

// ---------------------------------------------------------------------------------------------
// the world

#[derive(Clone, Copy, Debug, PartialEq, Eq)]
enum Mark {
    Sent(usize),
    Poison,
    Nothing,
}

#[derive(Clone, Copy, Debug, PartialEq, Eq)]
enum SrcKind {
    Client(usize),
    Agent(usize),
    Injector(usize),
}

struct Client {
    side: usize,
    /// Some((node idx, lane idx)) for a downlink, None for a one-way client
    dl: Option<(usize, usize)>,
    out: OutHalf,
    inp: Option<InHalf>,
    done_rx: Option<oneshot::Receiver<Result<(), LinkError>>>,
    attached_at: Option<u64>,
    detached_at: Option<u64>,
    received: Vec<(u64, Msg)>,
    src: usize,
}

struct Agent {
    side: usize,
    node: usize,
    out: OutHalf,
    inp: InHalf,
    live: bool,
    src: usize,
}

struct SideRt {
    task: Option<BoxFuture<'static, ()>>,
    flag: Arc<Flag>,
    waker: Waker,
    attach_tx: Option<mpsc::Sender<AttachClient>>,
    pending_attach: VecDeque<AttachClient>,
    find_rx: Option<mpsc::Receiver<FindNode>>,
    raw: Option<DuplexStream>,
    raw_eof: bool,
    /// writes into this side fail (its end of the stream is gone)
    raw_wclosed: bool,
    out_parser: FrameParser,
    /// bytes emitted by this side that have not yet been written to the other side
    pipe: BytesMut,
    /// tracks the bytes written INTO this side
    in_tracker: FrameParser,
    inject_q: VecDeque<(Vec<u8>, Mark)>,
    cur_inject: Option<(Vec<u8>, usize, Mark)>,
    wire: Vec<WireFrame>,
    _stop_tx: trigger::Sender,
    has_find: bool,
}

struct World<'c> {
    case: &'c Case,
    clock: u64,
    sides: Vec<SideRt>,
    clients: Vec<Client>,
    agents: Vec<Agent>,
    /// per side, per node: everything any instance of the agent received, in order
    agent_rx: Vec<Vec<Vec<(u64, Msg)>>>,
    sources: Vec<SrcKind>,
    injector_src: [usize; 2],
    sent: Vec<Sent>,
    next_tag: u32,
    exec_failures: Vec<(String, String)>,
    /// clock of the last settle that completed with the connection intact
    horizon: Option<u64>,
    /// (side the first invalid frame was injected into, sent index of nothing, clock when fully written)
    poison: Option<(usize, Option<u64>, &'static str)>,
    ignored_injected: usize,
    max_rounds: usize,
    panicked: [bool; 2],
    fragmented_injected: usize,
    ctl_between_fragments: usize,
    max_frame: usize,
    cap_floor: usize,
}

pub const GARBAGE: &[&str] = &[
    "",
    " ",
    "hello",
    "{}",
    "5",
    "@",
    "@event",
    "@event()",
    "@event(node:a)",
    "@event(lane:a)",
    "@event(a,b)",
    "@event(node:a,lane:b,extra:1)",
    "@event(node:a,lane:b",
    "@event(node:\"a,lane:b)",
    "@event(node:\"\\q\",lane:b)",
    "@event(node:a,lane:{b})",
    "@event(node:1,lane:2)",
    "@link(node:a,lane:b,rate:x)",
    "@unknown(node:a,lane:b)",
    "@Event(node:a,lane:b)",
    "event(node:a,lane:b)",
    " @event(node:a,lane:b)",
    "@event (node:a,lane:b)",
    "@event(node:a,lane:b,)",
    "@event(node:,lane:b)",
    "@command(node:a lane:b)",
    "@event(node:\"\\ud800\",lane:b)",
];

/// Scenarios with very large frames would crawl through 1-byte channels for no extra insight:
/// they get a floor on every capacity.
fn is_big(case: &Case) -> bool {
    case.nodes.iter().any(|(n, _, _)| n.len() > 2000)
        || case.lanes.iter().any(|l| l.len() > 2000)
        || case.ops.iter().any(|op| match op {
            Op::ClientSend { body, .. } | Op::AgentSend { body, .. } => body.size.is_some(),
            Op::Inject { frame: Inj::Valid { body, .. }, .. } => body.size.is_some(),
            _ => false,
        })
}

fn lit_canon(t: &str) -> String {
    if swimos_model::identifier::is_identifier(t) {
        t.to_string()
    } else {
        format!("\"{}\"", esc_lit(t))
    }
}

fn lit_quoted(t: &str) -> String {
    format!("\"{}\"", esc_lit(t))
}

fn lit_unicode(t: &str, mut bits: u64) -> String {
    let mut o = String::from("\"");
    for c in t.chars() {
        let pick = bits & 1 == 1;
        bits = bits.rotate_right(1);
        if (c as u32) <= 0xffff && pick {
            o.push_str(&format!("\\u{:04x}", c as u32));
        } else {
            o.push_str(&esc_lit(&c.to_string()));
        }
    }
    o.push('"');
    o
}

/// A hand-written envelope, equivalent to what `ReconEncoder` would write but in a different
/// (valid) Recon surface syntax.
fn render_env(m: &Msg, style: u8, esc: u64) -> String {
    let k = m.k.name();
    let (n, l) = (m.node.as_str(), m.lane.as_str());
    let rp = matches!(m.k, K::Link | K::Sync | K::Linked);
    let head = match style % 9 {
        0 => format!("@{}(node:{},lane:{})", k, lit_canon(n), lit_canon(l)),
        1 => format!("@{}(node:{},lane:{})", k, lit_quoted(n), lit_quoted(l)),
        2 => format!("@{}( node : {} , lane : {} )", k, lit_canon(n), lit_canon(l)),
        3 => format!("@{}(lane:{},node:{})", k, lit_canon(l), lit_canon(n)),
        4 => format!("@{}(node:{};lane:{})", k, lit_canon(n), lit_canon(l)),
        5 => format!("@{}(node:{},lane:{})", k, lit_unicode(n, esc), lit_unicode(l, esc.rotate_left(17))),
        6 if rp => format!("@{}(node:{},lane:{},rate:0.5,prio:2)", k, lit_canon(n), lit_canon(l)),
        6 => format!("@{}(node: {}, lane: {})", k, lit_canon(n), lit_canon(l)),
        7 => format!("@\"{}\"(\"node\":{},\"lane\":{})", k, lit_canon(n), lit_canon(l)),
        _ => format!("@{}(node:{}\nlane:{})", k, lit_canon(n), lit_canon(l)),
    };
    if m.body.is_empty() {
        head
    } else if m.body.starts_with('@') && style % 2 == 1 {
        format!("{}{}", head, m.body)
    } else if style % 3 == 0 {
        format!("{} {}", head, m.body)
    } else {
        format!("{} \t {}", head, m.body)
    }
}

impl<'c> World<'c> {
    fn tick(&mut self) -> u64 {
        self.clock += 1;
        self.clock
    }

    fn node_exists(&self, side: usize, node: usize) -> bool {
        let (_, a, b) = &self.case.nodes[node];
        self.sides[side].has_find && if side == 0 { *a } else { *b }
    }

    fn new(case: &'c Case) -> World<'c> {
        let floor = if is_big(case) { 1024 } else { 1 };
        let (sa, ha) = duplex(case.duplex_cap.max(floor * 4));
        let (sb, hb) = duplex(case.duplex_cap.max(floor * 4));
        let mut sides = vec![];
        for (i, (stream, raw)) in [(sa, ha), (sb, hb)].into_iter().enumerate() {
            let role = if i == 0 { Role::Server } else { Role::Client };
            let ws = WebSocket::from_upgraded(WebSocketConfig::default(), stream, Some(NoExt), BytesMut::new(), role);
            let (attach_tx, attach_rx) = mpsc::channel(case.attach_q.max(1));
            let has_find = i == 0 || case.b_has_find;
            let (find_tx, find_rx) = mpsc::channel(case.find_q.max(1));
            let (stop_tx, stop_rx) = trigger::trigger();
            let task = RemoteTask::new(
                Uuid::from_u128(0xA0 + i as u128),
                stop_rx,
                ws,
                attach_rx,
                if has_find { Some(find_tx) } else { None },
                nz(case.reg_buf),
                Duration::from_secs(5),
            );
            let fut = task.run().with_budget(nz(case.budget.max(2))).boxed();
            let flag = Arc::new(Flag(AtomicBool::new(true)));
            let waker = Waker::from(flag.clone());
            sides.push(SideRt {
                task: Some(fut),
                flag,
                waker,
                attach_tx: Some(attach_tx),
                pending_attach: VecDeque::new(),
                find_rx: if has_find { Some(find_rx) } else { None },
                raw: Some(raw),
                raw_eof: false,
                raw_wclosed: false,
                out_parser: FrameParser::default(),
                pipe: BytesMut::new(),
                in_tracker: FrameParser::default(),
                inject_q: VecDeque::new(),
                cur_inject: None,
                wire: vec![],
                _stop_tx: stop_tx,
                has_find,
            });
        }
        let nn = case.nodes.len();
        World {
            case,
            clock: 1,
            sides,
            clients: vec![],
            agents: vec![],
            agent_rx: vec![vec![vec![]; nn], vec![vec![]; nn]],
            sources: vec![SrcKind::Injector(0), SrcKind::Injector(1)],
            injector_src: [0, 1],
            sent: vec![],
            next_tag: 1,
            exec_failures: vec![],
            horizon: None,
            poison: None,
            ignored_injected: 0,
            max_rounds: 0,
            panicked: [false; 2],
            fragmented_injected: 0,
            ctl_between_fragments: 0,
            max_frame: 0,
            cap_floor: floor,
        }
    }

    fn poll_task(&mut self, side: usize, max: usize) -> usize {
        let mut n = 0;
        while n < max {
            self.flush_attach(side);
            let Self { sides, exec_failures, poison, panicked, clock, .. } = self;
            let s = &mut sides[side];
            let Some(task) = s.task.as_mut() else { break };
            if !s.flag.0.swap(false, Ordering::SeqCst) {
                break;
            }
            let mut cx = Context::from_waker(&s.waker);
            n += 1;
            let polled = std::panic::catch_unwind(std::panic::AssertUnwindSafe(|| task.as_mut().poll(&mut cx)));
            let polled = match polled {
                Ok(p) => p,
                Err(e) => {
                    let msg = if let Some(m) = e.downcast_ref::<&str>() {
                        m.to_string()
                    } else if let Some(m) = e.downcast_ref::<String>() {
                        m.clone()
                    } else {
                        "?".to_string()
                    };
                    let what = if msg.contains("Incomplete") {
                        "parser-incomplete"
                    } else if msg.contains("CharTryFromError") {
                        "surrogate-escape"
                    } else {
                        "other"
                    };
                    exec_failures.push((
                        format!("sock:task-panicked:{}", what),
                        format!("the RemoteTask of side {} panicked: {} (pending invalid frame: {:?})", side, msg, poison),
                    ));
                    panicked[side] = true;
                    Poll::Ready(())
                }
            };
            if let Poll::Ready(()) = polled {
                if std::env::var("VERIF_DUMP").is_ok() {
                    eprintln!("task {} completed at clock {}", side, clock);
                }
                s.task = None;
                s.attach_tx = None;
                s.pending_attach.clear();
                break;
            }
        }
        if n > 0 {
            self.check_done();
        }
        n
    }

    fn flush_attach(&mut self, side: usize) -> usize {
        let s = &mut self.sides[side];
        let mut n = 0;
        while let Some(req) = s.pending_attach.pop_front() {
            let Some(tx) = s.attach_tx.as_ref() else {
                s.pending_attach.clear();
                break;
            };
            match tx.try_send(req) {
                Ok(()) => n += 1,
                Err(mpsc::error::TrySendError::Full(req)) => {
                    s.pending_attach.push_front(req);
                    break;
                }
                Err(mpsc::error::TrySendError::Closed(_)) => {
                    s.attach_tx = None;
                    s.pending_attach.clear();
                    break;
                }
            }
        }
        n
    }

    fn check_done(&mut self) -> usize {
        let mut n = 0;
        for i in 0..self.clients.len() {
            if let Some(rx) = self.clients[i].done_rx.as_mut() {
                match rx.try_recv() {
                    Ok(Ok(())) => {
                        self.clients[i].done_rx = None;
                        let t = self.tick();
                        self.clients[i].attached_at = Some(t);
                        n += 1;
                    }
                    Ok(Err(_)) | Err(oneshot::error::TryRecvError::Closed) => {
                        self.clients[i].done_rx = None;
                        n += 1;
                    }
                    Err(oneshot::error::TryRecvError::Empty) => {}
                }
            }
        }
        n
    }

    fn attach_client(&mut self, side: usize, dl: Option<(usize, usize)>, in_cap: usize, out_cap: usize) {
        let (in_cap, out_cap) = (in_cap.max(self.cap_floor), out_cap.max(self.cap_floor));
        let (from_tx, from_rx) = byte_channel(nz(out_cap));
        let (done_tx, done_rx) = oneshot::channel();
        let src = self.sources.len();
        self.sources.push(SrcKind::Client(self.clients.len()));
        let id = Uuid::from_u128(0xC000 + self.clients.len() as u128);
        let (req, inp) = match dl {
            Some((n, l)) => {
                let (to_tx, to_rx) = byte_channel(nz(in_cap));
                (
                    AttachClient::AttachDownlink {
                        downlink_id: id,
                        path: RelativeAddress::text(&self.case.nodes[n].0, &self.case.lanes[l]),
                        sender: to_tx,
                        receiver: from_rx,
                        done: done_tx,
                    },
                    Some(InHalf::new(to_rx)),
                )
            }
            None => (AttachClient::OneWay { agent_id: id, path: None, receiver: from_rx, done: done_tx }, None),
        };
        self.sides[side].pending_attach.push_back(req);
        self.flush_attach(side);
        self.clients.push(Client {
            side,
            dl,
            out: OutHalf::new(from_tx),
            inp,
            done_rx: Some(done_rx),
            attached_at: None,
            detached_at: None,
            received: vec![],
            src,
        });
    }

    fn live_clients(&self) -> Vec<usize> {
        (0..self.clients.len()).filter(|i| self.clients[*i].out.w.is_some()).collect()
    }

    fn live_agents(&self) -> Vec<usize> {
        (0..self.agents.len()).filter(|i| self.agents[*i].live).collect()
    }

    fn new_msg(&mut self, k: K, node: usize, lane: usize, spec: &BodySpec) -> (Msg, bool) {
        let body = if k.has_body() {
            let tag = self.next_tag;
            self.next_tag += 1;
            let on = &self.case.nodes[(node + 1) % self.case.nodes.len()].0;
            let ol = &self.case.lanes[(lane + 1) % self.case.lanes.len()];
            let mut body = make_body(spec, tag, (on, ol));
            if let Some(size) = spec.size {
                let fixed = 32 + self.case.nodes[node].0.len() + self.case.lanes[lane].len();
                let want = (size as usize).saturating_sub(fixed);
                // `{tag,"aaa.."}` / `@m(tag) "aaa.."`: unique, valid Recon, exactly `want` bytes
                let (pre, post) = if spec.style % 2 == 0 { (format!("{{{},\"", tag), "\"}".to_string()) } else { (format!("@m({}) \"", tag), "\"".to_string()) };
                if want > pre.len() + post.len() && want > body.len() {
                    body = format!("{}{}{}", pre, "a".repeat(want - pre.len() - post.len()), post);
                }
            }
            body
        } else {
            String::new()
        };
        let tagged = !body.is_empty();
        self.max_frame = self.max_frame.max(32 + self.case.nodes[node].0.len() + self.case.lanes[lane].len() + body.len());
        (Msg { k, node: self.case.nodes[node].0.clone(), lane: self.case.lanes[lane].clone(), body }, tagged)
    }

    fn client_send(&mut self, c: usize, k: K, node: usize, lane: usize, spec: &BodySpec) {
        let (node, lane, k) = match self.clients[c].dl {
            Some((n, l)) => (n, l, k),
            None => (node, lane, K::Command),
        };
        let (msg, tagged) = self.new_msg(k, node, lane, spec);
        let cl = &mut self.clients[c];
        let path = RelativeAddress::new(msg.node.as_str(), msg.lane.as_str());
        let id = Uuid::from_u128(0xC000 + c as u128);
        let req: RequestMessage<&str, &[u8]> = match k {
            K::Link => RequestMessage::link(id, path),
            K::Sync => RequestMessage::sync(id, path),
            K::Unlink => RequestMessage::unlink(id, path),
            _ => RequestMessage::command(id, path, msg.body.as_bytes()),
        };
        let before = cl.out.outbox.len();
        RawRequestMessageEncoder.encode(req, &mut cl.out.outbox).expect("encode");
        let idx = self.sent.len();
        cl.out.queue(before, idx);
        self.sent.push(Sent { src: cl.src, toward: 1 - cl.side, msg, tagged, t_sent: None });
        let Self { clients, clock, sent, .. } = self;
        clients[c].out.pump(usize::MAX, clock, sent);
    }

    fn agent_send(&mut self, a: usize, k: K, lane: usize, spec: &BodySpec) {
        let node = self.agents[a].node;
        let (msg, tagged) = self.new_msg(k, node, lane, spec);
        let ag = &mut self.agents[a];
        let path = RelativeAddress::new(msg.node.as_str(), msg.lane.as_str());
        let id = Uuid::from_u128(0xA000 + a as u128);
        let resp: ResponseMessage<&str, &[u8], &[u8]> = match k {
            K::Linked => ResponseMessage::linked(id, path),
            K::Synced => ResponseMessage::synced(id, path),
            K::Unlinked => ResponseMessage::unlinked(id, path, if msg.body.is_empty() { None } else { Some(msg.body.as_bytes()) }),
            _ => ResponseMessage::event(id, path, msg.body.as_bytes()),
        };
        let before = ag.out.outbox.len();
        RawResponseMessageEncoder.encode(resp, &mut ag.out.outbox).expect("encode");
        let idx = self.sent.len();
        ag.out.queue(before, idx);
        self.sent.push(Sent { src: ag.src, toward: 1 - ag.side, msg, tagged, t_sent: None });
        let Self { agents, clock, sent, .. } = self;
        agents[a].out.pump(usize::MAX, clock, sent);
    }

    fn read_client(&mut self, c: usize, max: usize) -> usize {
        let Self { clients, clock, exec_failures, .. } = self;
        let cl = &mut clients[c];
        let Some(inp) = cl.inp.as_mut() else { return 0 };
        let n = inp.read(max);
        if let Err(e) = decode_responses(&mut inp.buf, clock, &mut cl.received) {
            exec_failures.push(("sock:undecodable-at-downlink".into(), format!("downlink {}: {}", c, e)));
            cl.inp = None;
        }
        n
    }

    fn read_agent(&mut self, a: usize, max: usize) -> usize {
        let Self { agents, clock, exec_failures, agent_rx, .. } = self;
        let ag = &mut agents[a];
        let n = ag.inp.read(max);
        if let Err(e) = decode_requests(&mut ag.inp.buf, clock, &mut agent_rx[ag.side][ag.node]) {
            exec_failures.push(("sock:undecodable-at-agent".into(), format!("agent {}: {}", a, e)));
            ag.inp.r = None;
        }
        n
    }

    fn detach_client(&mut self, c: usize, keep_reader: bool) {
        self.clients[c].out.close();
        if !keep_reader && self.clients[c].inp.is_some() {
            self.read_client(c, usize::MAX);
            self.clients[c].inp = None;
            let t = self.tick();
            self.clients[c].detached_at = Some(t);
        }
    }

    fn detach_agent(&mut self, a: usize) {
        // The agent stops when nothing is in flight (drain first) and after consuming everything in
        // its channel, so that nothing is lost silently; later writes by the remote task fail and
        // make it look the node up again. (A request that reaches the remote task while the agent
        // it has *just* resolved is already gone is dropped on purpose - "Envelope not dispatched as
        // agent stopped immediately" - that documented loss window is deliberately not exercised.)
        self.settle();
        self.read_agent(a, usize::MAX);
        let ag = &mut self.agents[a];
        ag.live = false;
        ag.out.close();
        ag.inp.r = None;
    }

    fn answer_finds(&mut self, side: usize) -> usize {
        let mut n = 0;
        loop {
            let Some(rx) = self.sides[side].find_rx.as_mut() else { break };
            let Ok(FindNode { node, lane, request }) = rx.try_recv() else { break };
            n += 1;
            let NodeConnectionRequest::Warp { promise, .. } = request else {
                self.exec_failures.push(("sock:http-find".into(), "unexpected HTTP node request".into()));
                continue;
            };
            let ni = self.case.nodes.iter().position(|(s, _, _)| s.as_str() == node.as_str());
            if ni.is_none() {
                self.exec_failures.push((
                    "sock:find-unknown-node".into(),
                    format!("side {} asked to resolve node {} which nobody addressed (nodes {:?})", side, short(node.as_str()), self.case.nodes),
                ));
            }
            if let Some(l) = &lane {
                if !self.case.lanes.iter().any(|s| s.as_str() == l.as_str()) {
                    self.exec_failures.push((
                        "sock:find-unknown-lane".into(),
                        format!("side {} resolving node {} for lane {} which nobody addressed", side, short(node.as_str()), short(l.as_str())),
                    ));
                }
            }
            match ni {
                Some(ni) if self.node_exists(side, ni) => {
                    if self.agents.iter().any(|a| a.live && a.side == side && a.node == ni) {
                        self.exec_failures.push((
                            "sock:second-route-while-first-live".into(),
                            format!("side {} resolved node {} again although its agent channel is still open", side, short(node.as_str())),
                        ));
                    }
                    let (req_tx, req_rx) = byte_channel(nz(self.case.agent_cap.max(self.cap_floor)));
                    let (resp_tx, resp_rx) = byte_channel(nz(self.case.agent_cap.max(self.cap_floor)));
                    let src = self.sources.len();
                    self.sources.push(SrcKind::Agent(self.agents.len()));
                    self.agents.push(Agent { side, node: ni, out: OutHalf::new(resp_tx), inp: InHalf::new(req_rx), live: true, src });
                    let _ = promise.send(Ok((req_tx, resp_rx)));
                }
                _ => {
                    let _ = promise.send(Err(AgentResolutionError::NotFound(NoSuchAgent { node, lane })));
                }
            }
        }
        n
    }

    /// Move bytes emitted by `from` towards the other side (at most `max` bytes written).
    fn relay(&mut self, from: usize, max: usize) -> usize {
        let to = 1 - from;
        let mut progress = 0;
        // 1. take everything `from` has emitted
        loop {
            let s = &mut self.sides[from];
            let Some(raw) = s.raw.as_mut() else { break };
            if s.raw_eof {
                break;
            }
            let mut tmp = vec![0u8; 4096];
            let mut rb = ReadBuf::new(&mut tmp);
            match harness_op(|cx| Pin::new(&mut *raw).poll_read(cx, &mut rb)) {
                Poll::Ready(Ok(())) => {
                    let n = rb.filled().len();
                    if n == 0 {
                        s.raw_eof = true;
                        break;
                    }
                    progress += n;
                    if std::env::var("VERIF_DUMP").is_ok() {
                        eprintln!("relay: {} bytes out of side {}: {:?}", n, from, rb.filled());
                    }
                    let frames = s.out_parser.feed(rb.filled());
                    s.wire.extend(frames);
                    s.pipe.extend_from_slice(rb.filled());
                }
                Poll::Ready(Err(_)) => {
                    s.raw_eof = true;
                    break;
                }
                Poll::Pending => break,
            }
        }
        // 2. write into `to`
        let mut written = 0;
        loop {
            if written >= max {
                break;
            }
            if self.sides[to].raw.is_none() || self.sides[to].raw_wclosed {
                self.sides[from].pipe.clear();
                self.sides[to].inject_q.clear();
                self.sides[to].cur_inject = None;
                break;
            }
            if self.sides[to].cur_inject.is_none() && self.sides[to].in_tracker.at_boundary() {
                if let Some((bytes, mark)) = self.sides[to].inject_q.pop_front() {
                    self.sides[to].cur_inject = Some((bytes, 0, mark));
                }
            }
            let injecting = self.sides[to].cur_inject.is_some();
            let chunk: Vec<u8> = if let Some((bytes, off, _)) = &self.sides[to].cur_inject {
                bytes[*off..(*off + (max - written).min(bytes.len() - *off))].to_vec()
            } else {
                let pending_inject = !self.sides[to].inject_q.is_empty();
                let p = &self.sides[from].pipe;
                if p.is_empty() {
                    break;
                }
                // while an injection waits for the next frame boundary do not write past it
                let n = if pending_inject {
                    self.sides[to].in_tracker.remaining_in_frame().min(max - written).min(p.len())
                } else {
                    (max - written).min(p.len())
                };
                p[..n].to_vec()
            };
            let res = {
                let raw = self.sides[to].raw.as_mut().unwrap();
                harness_op(|cx| Pin::new(&mut *raw).poll_write(cx, &chunk))
            };
            match res {
                Poll::Ready(Ok(0)) => break,
                Poll::Ready(Ok(k)) => {
                    written += k;
                    progress += k;
                    let _ = self.sides[to].in_tracker.feed(&chunk[..k]);
                    if injecting {
                        let done = {
                            let (bytes, off, _) = self.sides[to].cur_inject.as_mut().unwrap();
                            *off += k;
                            *off >= bytes.len()
                        };
                        if done {
                            let (_, _, mark) = self.sides[to].cur_inject.take().unwrap();
                            let t = self.tick();
                            match mark {
                                Mark::Sent(idx) => self.sent[idx].t_sent = Some(t),
                                Mark::Poison => {
                                    if let Some(p) = self.poison.as_mut() {
                                        p.1 = Some(t);
                                    }
                                }
                                Mark::Nothing => {}
                            }
                        }
                    } else {
                        self.sides[from].pipe.advance(k);
                    }
                }
                Poll::Ready(Err(_)) => {
                    self.sides[to].raw_wclosed = true;
                    break;
                }
                Poll::Pending => break,
            }
        }
        // 3. end of stream: once everything `from` emitted has been forwarded, close the stream into `to`
        if self.sides[from].raw_eof && self.sides[from].pipe.is_empty() && self.sides[to].cur_inject.is_none() {
            let idle = self.sides[to].inject_q.is_empty() && !self.sides[to].raw_wclosed;
            if let Some(raw) = self.sides[to].raw.as_mut() {
                if idle {
                    let _ = harness_op(|cx| Pin::new(&mut *raw).poll_shutdown(cx));
                }
            }
        }
        progress
    }

    fn inject(&mut self, to: usize, frame: &Inj) {
        let masked = to == 0; // A has the server role: frames it reads must be masked
        let pair_msg = |w: &World<'_>, k: K, body: &str| Msg {
            k,
            node: w.case.nodes[0].0.clone(),
            lane: w.case.lanes[0].clone(),
            body: body.to_string(),
        };
        let invalid = !matches!(frame, Inj::Ping | Inj::Auth(_) | Inj::Valid { .. });
        if invalid && self.poison.is_some() {
            return;
        }
        let (bytes, mark, what): (Vec<u8>, Mark, &'static str) = match frame {
            Inj::Binary => {
                let m = pair_msg(self, K::Event, "@INVALID(binary)");
                let m2 = pair_msg(self, K::Command, "@INVALID(binary)");
                let text = if to == 0 { render_env(&m2, 0, 0) } else { render_env(&m, 0, 0) };
                (build_frame(2, text.as_bytes(), masked), Mark::Poison, "binary")
            }
            Inj::BadUtf8(pos) => {
                let m = pair_msg(self, if to == 0 { K::Command } else { K::Event }, "@INVALID(utf8)");
                let mut b = render_env(&m, 0, 0).into_bytes();
                let p = pick_index(*pos as u16 * 257, b.len() + 1);
                b.insert(p, if pos % 2 == 0 { 0xff } else { 0xc0 });
                (build_frame(1, &b, masked), Mark::Poison, "bad-utf8")
            }
            Inj::Garbage(i) => {
                let g = GARBAGE[pick_index(*i as u16 * 257, GARBAGE.len())];
                (build_frame(1, g.as_bytes(), masked), Mark::Poison, "not-an-envelope")
            }
            Inj::Ping => {
                self.ignored_injected += 1;
                (build_frame(9, b"@event(node:a,lane:b)", masked), Mark::Nothing, "")
            }
            Inj::Auth(de) => {
                self.ignored_injected += 1;
                let t = if *de { "@deauth" } else { "@auth(node:a,lane:b) @INVALID(auth)" };
                (build_frame(1, t.as_bytes(), masked), Mark::Nothing, "")
            }
            Inj::Valid { k, node, lane, body, style, esc, frag, cut_at_body, ctl } => {
                let kind = [K::Link, K::Sync, K::Unlink, K::Command, K::Linked, K::Synced, K::Unlinked, K::Event][(*k % 8) as usize];
                let ni = pick_index(*node as u16 * 257, self.case.nodes.len());
                let li = pick_index(*lane as u16 * 257, self.case.lanes.len());
                let (msg, tagged) = self.new_msg(kind, ni, li, body);
                let text = render_env(&msg, *style, *esc);
                let idx = self.sent.len();
                self.sent.push(Sent { src: self.injector_src[to], toward: to, msg, tagged, t_sent: None });
                let payload = text.as_bytes();
                let mut cuts: Vec<usize> = frag.iter().map(|f| pick_index(*f, payload.len() + 1)).collect();
                if *cut_at_body && !self.sent[idx].msg.body.is_empty() {
                    cuts.push(payload.len() - self.sent[idx].msg.body.len());
                }
                cuts.sort();
                if cuts.is_empty() {
                    (build_frame(1, payload, masked), Mark::Sent(idx), "")
                } else {
                    self.fragmented_injected += 1;
                    let mut bytes = vec![];
                    let mut start = 0;
                    for (i, c) in cuts.iter().chain(std::iter::once(&payload.len())).enumerate() {
                        let last = i == cuts.len();
                        bytes.extend(build_frame_fin(if i == 0 { 1 } else { 0 }, &payload[start..*c], masked, last));
                        start = *c;
                        if !last && (ctl >> (i % 8)) & 1 == 1 {
                            self.ctl_between_fragments += 1;
                            bytes.extend(build_frame(if i % 2 == 0 { 9 } else { 10 }, b"keep-alive", masked));
                        }
                    }
                    (bytes, Mark::Sent(idx), "")
                }
            }
        };
        if invalid {
            self.poison = Some((to, None, what));
        }
        self.sides[to].inject_q.push_back((bytes, mark));
    }

    fn settle(&mut self) {
        let mut rounds = 0usize;
        let mut idle_rounds = 0usize;
        loop {
            rounds += 1;
            let mut progress = 0usize;
            for side in 0..2 {
                progress += self.flush_attach(side);
            }
            for c in 0..self.clients.len() {
                let Self { clients, clock, sent, .. } = self;
                progress += clients[c].out.pump(usize::MAX, clock, sent);
            }
            for a in 0..self.agents.len() {
                let Self { agents, clock, sent, .. } = self;
                progress += agents[a].out.pump(usize::MAX, clock, sent);
            }
            let mut polls = 0;
            for side in 0..2 {
                polls += self.poll_task(side, 10_000);
                progress += self.answer_finds(side);
            }
            for from in 0..2 {
                progress += self.relay(from, usize::MAX);
            }
            for c in 0..self.clients.len() {
                progress += self.read_client(c, usize::MAX);
            }
            for a in 0..self.agents.len() {
                if self.agents[a].live {
                    progress += self.read_agent(a, usize::MAX);
                }
            }
            progress += self.check_done();
            let progress_io = progress;
            progress += polls;
            let woken = self.sides.iter().any(|s| s.task.is_some() && s.flag.0.load(Ordering::SeqCst));
            if progress == 0 && !woken {
                break;
            }
            // rounds in which the tasks keep waking up without a single byte, frame or request moving
            if progress_io == 0 {
                idle_rounds += 1;
            } else {
                idle_rounds = 0;
            }
            if idle_rounds > 10_000 || rounds > 5_000_000 {
                self.exec_failures.push((
                    "sock:livelock".into(),
                    format!("settle: {} consecutive rounds of task polls without any data moving ({} rounds in all)", idle_rounds, rounds),
                ));
                break;
            }
        }
        self.max_rounds = self.max_rounds.max(rounds);
        if self.poison.is_none() && self.sides.iter().all(|s| s.task.is_some()) {
            self.horizon = Some(self.tick());
        }
    }

    fn apply(&mut self, op: &Op) {
        let nn = self.case.nodes.len();
        let nl = self.case.lanes.len();
        match op {
            Op::AttachDl { side, node, lane, in_cap, out_cap } => {
                let ni = pick_index(*node as u16 * 257, nn);
                let li = pick_index(*lane as u16 * 257, nl);
                self.attach_client(*side as usize, Some((ni, li)), *in_cap as usize, *out_cap as usize);
            }
            Op::AttachOneWay { side, cap } => self.attach_client(*side as usize, None, 1, *cap as usize),
            Op::ClientSend { c, k, node, lane, body } => {
                let live = self.live_clients();
                if !live.is_empty() {
                    let c = live[pick_index(*c, live.len())];
                    let ni = pick_index(*node as u16 * 257, nn);
                    let li = pick_index(*lane as u16 * 257, nl);
                    self.client_send(c, REQ_KINDS[(*k % 4) as usize], ni, li, body);
                }
            }
            Op::AgentSend { a, k, lane, body } => {
                let live = self.live_agents();
                if !live.is_empty() {
                    let a = live[pick_index(*a, live.len())];
                    let li = pick_index(*lane as u16 * 257, nl);
                    self.agent_send(a, RESP_KINDS[(*k % 4) as usize], li, body);
                }
            }
            Op::DetachClient { c, keep_reader } => {
                let live = self.live_clients();
                if !live.is_empty() {
                    let c = live[pick_index(*c, live.len())];
                    self.detach_client(c, *keep_reader);
                }
            }
            Op::DetachAgent { a } => {
                let live = self.live_agents();
                if !live.is_empty() {
                    let a = live[pick_index(*a, live.len())];
                    self.detach_agent(a);
                }
            }
            Op::Pump { src, n } => {
                let total = self.clients.len() + self.agents.len();
                if total > 0 {
                    let i = pick_index(*src, total);
                    let Self { clients, agents, clock, sent, .. } = self;
                    if i < clients.len() {
                        clients[i].out.pump(*n as usize, clock, sent);
                    } else {
                        agents[i - clients.len()].out.pump(*n as usize, clock, sent);
                    }
                }
            }
            Op::Read { sink, n } => {
                let total = self.clients.len() + self.agents.len();
                if total > 0 {
                    let i = pick_index(*sink, total);
                    if i < self.clients.len() {
                        self.read_client(i, *n as usize);
                    } else if self.agents[i - self.clients.len()].live {
                        self.read_agent(i - self.clients.len(), *n as usize);
                    }
                }
            }
            Op::Answer { side } => {
                self.answer_finds(*side as usize);
            }
            Op::Poll { side, k } => {
                self.poll_task(*side as usize, *k as usize);
            }
            Op::Relay { from_b, n } => {
                self.relay(*from_b as usize, *n as usize);
            }
            Op::Inject { to_b, frame } => self.inject(*to_b as usize, frame),
            Op::Settle => self.settle(),
        }
    }
}

// ---------------------------------------------------------------------------------------------
// oracle

struct SrcSeq {
    src: usize,
    msgs: Vec<(Msg, bool)>,
    /// deliveries may start at any index <= first_must ...
    first_must: usize,
    /// ... and must cover every index < must_end
    must_end: usize,
}

struct Obs {
    sent: Vec<Sent>,
    sources: Vec<SrcKind>,
    /// (side, dl, attached_at, detached_at, received)
    clients: Vec<(usize, Option<(usize, usize)>, Option<u64>, Option<u64>, Vec<(u64, Msg)>)>,
    agents: Vec<(usize, usize)>,
    agent_rx: Vec<Vec<Vec<(u64, Msg)>>>,
    exists: Vec<Vec<bool>>,
    exec_failures: Vec<(String, String)>,
    horizon: Option<u64>,
    poison: Option<(usize, Option<u64>, &'static str)>,
    task_done: [bool; 2],
    wire: [Vec<WireFrame>; 2],
    ignored_injected: usize,
    max_rounds: usize,
    panicked: [bool; 2],
    fragmented_injected: usize,
    ctl_between_fragments: usize,
    max_frame: usize,
    /// a downlink / client attachment was still pending after the final drain although the task runs
    stuck: [bool; 2],
}

fn execute(case: &Case) -> Obs {
    block_on_paused(case.seed, async {
        let mut w = World::new(case);
        for op in &case.ops {
            w.apply(op);
        }
        w.settle();
        let mut stuck = [false; 2];
        for c in &w.clients {
            if c.done_rx.is_some() && w.sides[c.side].task.is_some() {
                stuck[c.side] = true;
            }
        }
        let exists = (0..2).map(|s| (0..case.nodes.len()).map(|n| w.node_exists(s, n)).collect()).collect();
        Obs {
            sent: w.sent.clone(),
            sources: w.sources.clone(),
            clients: w.clients.iter().map(|c| (c.side, c.dl, c.attached_at, c.detached_at, c.received.clone())).collect(),
            agents: w.agents.iter().map(|a| (a.side, a.node)).collect(),
            agent_rx: w.agent_rx.clone(),
            exists,
            exec_failures: w.exec_failures.clone(),
            horizon: w.horizon,
            poison: w.poison,
            task_done: [w.sides[0].task.is_none(), w.sides[1].task.is_none()],
            wire: [w.sides[0].wire.clone(), w.sides[1].wire.clone()],
            ignored_injected: w.ignored_injected,
            max_rounds: w.max_rounds,
            panicked: w.panicked,
            fragmented_injected: w.fragmented_injected,
            ctl_between_fragments: w.ctl_between_fragments,
            max_frame: w.max_frame,
            stuck,
        }
    })
}

/// Is `recv` an interleaving of one contiguous run of each source sequence (run start <=
/// first_must, run end >= must_end)? `None` = search budget exhausted.
fn interleaving(recv: &[Msg], srcs: &[SrcSeq], eq: &dyn Fn(&Msg, &Msg) -> bool) -> Option<bool> {
    fn go(
        r: usize,
        st: &mut Vec<Option<usize>>,
        recv: &[Msg],
        srcs: &[SrcSeq],
        eq: &dyn Fn(&Msg, &Msg) -> bool,
        dead: &mut HashSet<(usize, Vec<Option<usize>>)>,
        budget: &mut usize,
    ) -> Option<bool> {
        if r == recv.len() {
            let ok = srcs.iter().zip(st.iter()).all(|(s, p)| match p {
                Some(p) => *p >= s.must_end,
                None => s.first_must >= s.must_end,
            });
            return Some(ok);
        }
        if dead.contains(&(r, st.clone())) {
            return Some(false);
        }
        if *budget == 0 {
            return None;
        }
        *budget -= 1;
        for i in 0..srcs.len() {
            match st[i] {
                Some(p) => {
                    if p < srcs[i].msgs.len() && eq(&srcs[i].msgs[p].0, &recv[r]) {
                        st[i] = Some(p + 1);
                        let res = go(r + 1, st, recv, srcs, eq, dead, budget);
                        st[i] = Some(p);
                        match res {
                            Some(false) => {}
                            other => return other,
                        }
                    }
                }
                None => {
                    let hi = srcs[i].first_must.min(srcs[i].msgs.len().saturating_sub(1));
                    if srcs[i].msgs.is_empty() {
                        continue;
                    }
                    for start in 0..=hi {
                        if eq(&srcs[i].msgs[start].0, &recv[r]) {
                            st[i] = Some(start + 1);
                            let res = go(r + 1, st, recv, srcs, eq, dead, budget);
                            st[i] = None;
                            match res {
                                Some(false) => {}
                                other => return other,
                            }
                        }
                    }
                }
            }
        }
        dead.insert((r, st.clone()));
        Some(false)
    }
    let mut st = vec![None; srcs.len()];
    let mut dead = HashSet::new();
    let mut budget = 200_000usize;
    go(0, &mut st, recv, srcs, eq, &mut dead, &mut budget)
}

struct SinkCtx<'a> {
    sink_kind: &'static str,
    sink_desc: &'a str,
    sink_node: &'a str,
    sink_lane: Option<&'a str>,
    all_sent: &'a [Sent],
}

struct Analysis {
    failures: Vec<(String, String)>,
    delivered: Vec<usize>,
    delivered_count: usize,
    exhausted: bool,
}

/// Strict analysis of one sink: every received message is one that was sent to it, tagged messages
/// arrive at most once, in their source's order and (where required) at all, and the whole
/// sequence is an interleaving of one contiguous run per source.
fn analyze(cx: &SinkCtx<'_>, recv: &[Msg], srcs: &[SrcSeq]) -> Analysis {
    let SinkCtx { sink_kind, sink_desc, sink_node, sink_lane, all_sent } = cx;
    let mut out = Analysis { failures: vec![], delivered: vec![], delivered_count: 0, exhausted: false };
    let mut clean = true;
    // how many copies of each exact message could have been delivered to this sink
    let mut avail: std::collections::HashMap<&Msg, usize> = std::collections::HashMap::new();
    for s in srcs {
        for (m, _) in &s.msgs {
            *avail.entry(m).or_default() += 1;
        }
    }
    for r in recv {
        if r.node != *sink_node || sink_lane.map(|l| l != r.lane).unwrap_or(false) {
            out.failures.push((
                format!("sock:misdelivered:{}", r.k.name()),
                format!("{} received {} which is addressed elsewhere", sink_desc, r.show()),
            ));
            clean = false;
            continue;
        }
        let was_sent = avail.contains_key(r);
        if let Some(c) = avail.get_mut(r) {
            if *c > 0 {
                *c -= 1;
                continue;
            }
        }
        clean = false;
        // no (further) copy of exactly this message was sent to this sink
        let near = srcs
            .iter()
            .flat_map(|s| s.msgs.iter())
            .find(|(m, _)| m.k == r.k && m.node == r.node && m.lane == r.lane && m.body != r.body);
        if let Some((m, _)) = near {
            out.failures.push((
                format!("sock:body:{}", r.k.name()),
                format!("{} received {} but what was sent for that path is e.g. {}: the body changed", sink_desc, r.show(), m.show()),
            ));
        } else if was_sent {
            out.failures.push((format!("sock:duplicated:{}", sink_kind), format!("{} received {} more often than it was sent", sink_desc, r.show())));
        } else if r.body.contains("INVALID") {
            out.failures.push((
                "sock:invalid-frame-delivered".into(),
                format!("{} received {} which came from a frame that is not a valid envelope", sink_desc, r.show()),
            ));
        } else if all_sent.iter().any(|s| &s.msg == r) {
            out.failures.push((
                format!("sock:misdelivered:{}", r.k.name()),
                format!("{} received {} which was sent, but not to it", sink_desc, r.show()),
            ));
        } else {
            out.failures.push((format!("sock:invented:{}", r.k.name()), format!("{} received {} which nobody sent", sink_desc, r.show())));
        }
    }
    // tagged messages identify their source and position
    for s in srcs {
        let mut last: Option<usize> = None;
        let mut any = false;
        for (i, (m, tagged)) in s.msgs.iter().enumerate() {
            if !*tagged {
                continue;
            }
            let pos: Vec<usize> = recv.iter().enumerate().filter(|(_, r)| *r == m).map(|(j, _)| j).collect();
            if pos.len() > 1 {
                out.failures.push((format!("sock:duplicated:{}", sink_kind), format!("{} received {} {} times", sink_desc, m.show(), pos.len())));
                clean = false;
            }
            match pos.first() {
                Some(p) => {
                    any = true;
                    out.delivered_count += 1;
                    if let Some(l) = last {
                        if *p < l {
                            out.failures.push((
                                format!("sock:reordered:{}", sink_kind),
                                format!("{} received {} before an earlier message of the same source", sink_desc, m.show()),
                            ));
                            clean = false;
                        }
                    }
                    last = Some(*p);
                }
                None => {
                    if i >= s.first_must && i < s.must_end {
                        out.failures.push((
                            format!("sock:lost:{}", sink_kind),
                            format!("{} never received {} (sent before the last drain, sink registered before it was sent)", sink_desc, m.show()),
                        ));
                        clean = false;
                    }
                }
            }
        }
        if any {
            out.delivered.push(s.src);
        }
    }
    if clean {
        if recv.len() <= 150 {
            match interleaving(recv, srcs, &|a: &Msg, b: &Msg| a == b) {
                Some(true) => {}
                Some(false) => {
                    out.failures.push((
                        format!("sock:sequence:{}", sink_kind),
                        format!(
                            "{}: the received sequence is not an interleaving of its sources' sequences (a message without a body was lost, duplicated or reordered). received: [{}] sources: {}",
                            sink_desc,
                            recv.iter().map(|m| m.show()).collect::<Vec<_>>().join("; "),
                            srcs.iter()
                                .map(|s| format!(
                                    "src{} must[{}..{}) [{}]",
                                    s.src,
                                    s.first_must,
                                    s.must_end,
                                    s.msgs.iter().map(|m| m.0.show()).collect::<Vec<_>>().join("; ")
                                ))
                                .collect::<Vec<_>>()
                                .join(" | ")
                        ),
                    ));
                }
                None => out.exhausted = true,
            }
        } else {
            out.exhausted = true;
        }
    }
    out
}

/// `analyze`, and when that fails: would everything be consistent if the bodies of ONE kind of
/// envelope were ignored? Then the defect is "the body of that kind changed" and only that is
/// reported (this keeps the search going past a listed body defect).
fn check_sink(v: &mut Verdict, cx: &SinkCtx<'_>, recv: &[Msg], srcs: &[SrcSeq], delivered_sources: &mut HashSet<usize>, stats: &mut Stats) {
    let strict = analyze(cx, recv, srcs);
    let mut report = |a: &Analysis, stats: &mut Stats| {
        for s in &a.delivered {
            delivered_sources.insert(*s);
        }
        stats.delivered += a.delivered_count;
        stats.search_exhausted |= a.exhausted;
    };
    if strict.failures.is_empty() {
        report(&strict, stats);
        return;
    }
    for k in [K::Unlinked, K::Event, K::Command] {
        if !recv.iter().any(|m| m.k == k) && !srcs.iter().any(|s| s.msgs.iter().any(|(m, _)| m.k == k)) {
            continue;
        }
        let norm = |m: &Msg| if m.k == k { Msg { body: String::new(), ..m.clone() } } else { m.clone() };
        let recv_n: Vec<Msg> = recv.iter().map(norm).collect();
        let srcs_n: Vec<SrcSeq> = srcs
            .iter()
            .map(|s| SrcSeq {
                src: s.src,
                msgs: s.msgs.iter().map(|(m, t)| (norm(m), *t && m.k != k)).collect(),
                first_must: s.first_must,
                must_end: s.must_end,
            })
            .collect();
        let relaxed = analyze(cx, &recv_n, &srcs_n);
        if relaxed.failures.is_empty() {
            let example = strict.failures.iter().find(|(sig, _)| sig.starts_with("sock:body:")).map(|(_, d)| d.clone()).unwrap_or_else(|| {
                format!(
                    "{}: received [{}]; consistent with what was sent only if the bodies of {} envelopes are ignored",
                    cx.sink_desc,
                    recv.iter().filter(|m| m.k == k).map(|m| m.show()).collect::<Vec<_>>().join("; "),
                    k.name()
                )
            });
            v.fail(format!("sock:body:{}", k.name()), example);
            report(&relaxed, stats);
            return;
        }
    }
    for (sig, d) in &strict.failures {
        v.fail(sig.clone(), d.clone());
    }
    report(&strict, stats);
}

#[derive(Default)]
struct Stats {
    delivered: usize,
    search_exhausted: bool,
}

pub fn check(case: &Case) -> Verdict {
    let obs = execute(case);
    if std::env::var("VERIF_DUMP").is_ok() {
        for (i, s) in obs.sent.iter().enumerate() {
            eprintln!("sent {} src{} ({:?}) toward {} t={:?} tagged={} {}", i, s.src, obs.sources[s.src], s.toward, s.t_sent, s.tagged, s.msg.show());
        }
        for (i, c) in obs.clients.iter().enumerate() {
            eprintln!("client {} side {} dl {:?} attached {:?} detached {:?}", i, c.0, c.1, c.2, c.3);
            for (t, m) in &c.4 {
                eprintln!("   rx t={} {}", t, m.show());
            }
        }
        for s in 0..2 {
            for (n, rx) in obs.agent_rx[s].iter().enumerate() {
                for (t, m) in rx {
                    eprintln!("agent side {} node {} rx t={} {}", s, n, t, m.show());
                }
            }
            for f in &obs.wire[s] {
                eprintln!("wire from {} fin={} op={} {:?}", s, f.fin, f.opcode, String::from_utf8_lossy(&f.payload));
            }
        }
        eprintln!("horizon {:?} poison {:?} done {:?}", obs.horizon, obs.poison, obs.task_done);
    }
    let mut v = Verdict::new();
    for (sig, detail) in &obs.exec_failures {
        v.fail(sig.clone(), detail.clone());
    }
    let mut horizon = obs.horizon.unwrap_or(0);
    for side in 0..2 {
        if obs.stuck[side] {
            v.fail(
                if case.reg_buf == 1 { "sock:stuck:attach-never-completes:registration-buffer=1" } else { "sock:stuck:attach-never-completes:registration-buffer>1" },
                format!(
                    "side {}: the task is running and idle after the final drain but the attachment of {} never completed (their messages can never leave; everything arriving on that side is stalled)",
                    side,
                    obs.clients
                        .iter()
                        .enumerate()
                        .filter(|(_, c)| c.0 == side && c.2.is_none())
                        .map(|(i, _)| format!("client {}", i))
                        .collect::<Vec<_>>()
                        .join(", ")
                ),
            );
            // the liveness half of the oracle is void once a side is stuck; safety is still checked
            horizon = 0;
        }
    }
    let mut delivered_sources: HashSet<usize> = HashSet::new();
    let mut stats = Stats::default();

    // agents: one sink per (side, node)
    for side in 0..2 {
        for (ni, (node, _, _)) in case.nodes.iter().enumerate() {
            let recv: Vec<Msg> = obs.agent_rx[side][ni].iter().map(|(_, m)| m.clone()).collect();
            let exists = obs.exists[side][ni];
            let mut srcs: Vec<SrcSeq> = vec![];
            for src in 0..obs.sources.len() {
                let from_other_side = match obs.sources[src] {
                    SrcKind::Client(c) => obs.clients[c].0 == 1 - side,
                    SrcKind::Injector(t) => t == side,
                    SrcKind::Agent(_) => false,
                };
                if !from_other_side {
                    continue;
                }
                let msgs: Vec<(Msg, bool)> = obs
                    .sent
                    .iter()
                    .filter(|s| s.src == src && s.toward == side && s.t_sent.is_some() && s.msg.k.is_request() && &s.msg.node == node)
                    .map(|s| (s.msg.clone(), s.tagged))
                    .collect();
                if msgs.is_empty() {
                    continue;
                }
                let must_end = if exists {
                    obs.sent
                        .iter()
                        .filter(|s| s.src == src && s.toward == side && s.msg.k.is_request() && &s.msg.node == node && s.t_sent.map(|t| t < horizon).unwrap_or(false))
                        .count()
                } else {
                    0
                };
                srcs.push(SrcSeq { src, msgs, first_must: 0, must_end });
            }
            if !exists {
                if !recv.is_empty() {
                    v.fail("sock:delivered-to-missing-agent", format!("side {} node {} does not exist but received {}", side, short(node), recv[0].show()));
                }
                continue;
            }
            if recv.is_empty() && srcs.is_empty() {
                continue;
            }
            let desc = format!("the agent for node {} on side {}", short(node), side);
            let cx = SinkCtx { sink_kind: "agent", sink_desc: &desc, sink_node: node, sink_lane: None, all_sent: &obs.sent };
            check_sink(&mut v, &cx, &recv, &srcs, &mut delivered_sources, &mut stats);
        }
    }

    // downlinks
    for (ci, (side, dl, attached_at, detached_at, received)) in obs.clients.iter().enumerate() {
        let Some((ni, li)) = dl else { continue };
        let (node, lane) = (&case.nodes[*ni].0, &case.lanes[*li]);
        let recv: Vec<Msg> = received.iter().map(|(_, m)| m.clone()).collect();
        let alive_at_horizon = detached_at.map(|d| d > horizon).unwrap_or(true);
        let mut srcs: Vec<SrcSeq> = vec![];
        let mut mk = |src: usize, seq: Vec<(Msg, bool, u64)>| {
            if seq.is_empty() {
                return;
            }
            let first_must = match attached_at {
                Some(a) => seq.iter().position(|(_, _, t)| *t > *a).unwrap_or(seq.len()),
                None => seq.len(),
            };
            let must_end = if alive_at_horizon { seq.iter().filter(|(_, _, t)| *t < horizon).count() } else { 0 };
            srcs.push(SrcSeq { src, msgs: seq.into_iter().map(|(m, tg, _)| (m, tg)).collect(), first_must, must_end });
        };
        for src in 0..obs.sources.len() {
            let relevant = match obs.sources[src] {
                SrcKind::Agent(a) => obs.agents[a].0 == 1 - side,
                SrcKind::Injector(t) => t == *side,
                SrcKind::Client(_) => false,
            };
            if !relevant {
                continue;
            }
            let seq: Vec<(Msg, bool, u64)> = obs
                .sent
                .iter()
                .filter(|s| s.src == src && s.toward == *side && s.t_sent.is_some() && !s.msg.k.is_request() && &s.msg.node == node && &s.msg.lane == lane)
                .map(|s| (s.msg.clone(), s.tagged, s.t_sent.unwrap()))
                .collect();
            mk(src, seq);
        }
        // the peer's own "no such agent" replies: one per link / sync / unlink for a node that does
        // not exist there
        let other = 1 - side;
        if !obs.exists[other][*ni] {
            let mut seq: Vec<(Msg, bool, u64)> = obs
                .sent
                .iter()
                .filter(|s| s.toward == other && s.t_sent.is_some() && s.msg.k.is_request() && s.msg.k != K::Command && &s.msg.node == node && &s.msg.lane == lane)
                .map(|s| (Msg { k: K::Unlinked, node: node.clone(), lane: lane.clone(), body: "@nodeNotFound".into() }, false, s.t_sent.unwrap()))
                .collect();
            seq.sort_by_key(|(_, _, t)| *t);
            mk(usize::MAX, seq);
        }
        if recv.is_empty() && srcs.is_empty() {
            continue;
        }
        let desc = format!("downlink {} for ({},{}) on side {}", ci, short(node), short(lane), side);
        let cx = SinkCtx { sink_kind: "downlink", sink_desc: &desc, sink_node: node, sink_lane: Some(lane), all_sent: &obs.sent };
        check_sink(&mut v, &cx, &recv, &srcs, &mut delivered_sources, &mut stats);
    }

    // an invalid frame: documented reaction is a close frame with the protocol error code
    if let Some((t, Some(_), what)) = obs.poison.filter(|p| !obs.panicked[p.0] && !obs.stuck[p.0]) {
        if !obs.task_done[t] {
            v.fail(format!("sock:invalid-frame-not-closed:{}", what), format!("side {} read a {} frame but its task is still running after the drain", t, what));
        } else {
            let closed = obs.wire[t].iter().any(|f| f.opcode == 8 && f.payload.len() >= 2 && u16::from_be_bytes([f.payload[0], f.payload[1]]) == 1002);
            if !closed {
                v.fail(
                    format!("sock:invalid-frame-no-protocol-close:{}", what),
                    format!(
                        "side {} read a {} frame and stopped without sending a close frame with code 1002; close frames seen: {:?}",
                        t,
                        what,
                        obs.wire[t].iter().filter(|f| f.opcode == 8).map(|f| f.payload.clone()).collect::<Vec<_>>()
                    ),
                );
            }
        }
        v.class(match what {
            "binary" => "invalid:binary",
            "bad-utf8" => "invalid:bad-utf8",
            _ => "invalid:not-an-envelope",
        });
    }
    // nothing the harness did asks for the connection to end: no invalid frame, no stop signal
    if obs.poison.is_none() && !obs.panicked[0] && !obs.panicked[1] {
        for t in 0..2 {
            if obs.task_done[t] {
                v.fail(
                    "sock:closed-without-cause",
                    format!(
                        "the task of side {} ended although only valid frames were exchanged; close frames on the wire: {:?}",
                        t,
                        (0..2)
                            .flat_map(|s| obs.wire[s].iter().filter(|f| f.opcode == 8).map(move |f| (s, String::from_utf8_lossy(&f.payload).to_string())))
                            .collect::<Vec<_>>()
                    ),
                );
                break;
            }
        }
    }
    // every text frame on the wire is a readable envelope of a message somebody sent
    for side in 0..2 {
        for f in &obs.wire[side] {
            if f.opcode == 1 {
                match std::str::from_utf8(&f.payload) {
                    Err(_) => v.fail("sock:wire-not-utf8", format!("side {} wrote a text frame that is not UTF-8", side)),
                    Ok(text) => {
                        if swimos_messages::warp::peel_envelope_header_str(text).is_err() {
                            v.fail("sock:wire-unreadable", format!("side {} wrote the text frame {} which is not a readable envelope", side, short(text)));
                        }
                    }
                }
            }
        }
    }

    let quoting = case.nodes.iter().any(|(n, _, _)| needs_quoting(n)) || case.lanes.iter().any(|l| needs_quoting(l));
    if delivered_sources.len() >= 3 && quoting {
        v.nontrivial();
    }
    v.class_if(delivered_sources.len() >= 3, "sources>=3");
    v.class_if(delivered_sources.len() >= 6, "sources>=6");
    v.class_if(stats.delivered >= 10, "delivered>=10");
    v.class_if(stats.delivered == 0, "delivered=0");
    v.class_if(quoting, "names:quoted");
    v.class_if(stats.search_exhausted, "sequence-search-skipped");
    v.class_if(obs.horizon.is_some(), "clean-drain");
    v.class_if(obs.ignored_injected > 0, "injected:ignored-kind");
    v.class_if(obs.sent.iter().any(|s| matches!(obs.sources[s.src], SrcKind::Injector(_)) && s.t_sent.is_some()), "injected:valid-handwritten");
    v.class_if(obs.agents.len() > obs.agents.iter().collect::<HashSet<_>>().len(), "agent-re-resolved");
    v.class_if(obs.clients.iter().any(|c| c.3.is_some()), "downlink-detached");
    v.class_if(
        {
            let mut seen = HashSet::new();
            obs.clients.iter().filter(|c| c.1.is_some() && c.2.is_some()).any(|c| !seen.insert((c.0, c.1)))
        },
        "two-downlinks-same-path",
    );
    v.class_if(obs.exists.iter().any(|s| s.iter().any(|e| !*e)), "missing-node");
    v.class_if(obs.task_done[0] || obs.task_done[1], "connection-closed");
    v.class_if(obs.max_rounds > 50, "settle>50-rounds");
    v.class_if(case.reg_buf == 1, "reg-buf=1");
    v.class_if(obs.fragmented_injected > 0, "injected:fragmented");
    v.class_if(obs.ctl_between_fragments > 0, "injected:control-frame-between-fragments");
    v.class_if(obs.max_frame >= 4096, "frame>=4KiB");
    v.class_if(obs.max_frame >= 8192, "frame>=8KiB");
    v.class_if(obs.max_frame > 65536, "frame>64KiB");
    v
}
