#!/bin/bash
# tools/run_thorough.sh <ID>...  runs thorough tiers sequentially (each capped at 100 min), logs to logs/thorough-<ID>.log
for id in "$@"; do
  s=$(date +%s)
  timeout 6000 /verif/check $id thorough > /verif/logs/thorough-$id.log 2>&1
  rc=$?
  echo "$id thorough rc=$rc $(( $(date +%s) - s ))s $(grep -E 'thorough:' /verif/logs/thorough-$id.log | head -1)" >> /verif/logs/thorough-summary.txt
done
