mod battery;
mod c16;
mod extras;
mod mutate;
mod vprint;

fn main() {
    let args: Vec<String> = std::env::args().skip(1).collect();
    if args.first().map(|s| s == "probe").unwrap_or(false) {
        // developer aid: `c16 probe <TypeName> <recon text>` shows what each reading path does
        c16::probe(&args[1], &args[2]);
        return;
    }
    let mut ctx = vcommon::Ctx::new("C16", &args);
    c16::run(&mut ctx);
    ctx.finish();
}
