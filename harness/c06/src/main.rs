//! C06 Event handlers run one at a time, depth-first, in the documented order.
//!
//! Generated handler programs (see `ast`) are executed by the real agent (real `#[lifecycle]` macro,
//! real `AgentModel` inside the real agent runtime, harness-owned schedule: `vsim`) and by a reference
//! interpreter (`refint`). The trace recorded through `context.effect` closures must equal, block by
//! block and following the observed order of top-level handlers, the reference execution from the
//! model state at the start of each block.

mod agent;
mod ast;
mod refint;

use agent::{make_agent, Rec, Shared};
use ast::{arb_tables, resolve, RawTables, CTL, LANE_NAMES, NKEYS};
use proptest::prelude::*;
use refint::{verify, worst_case_records, Cmd, Outcome};
use serde::{Deserialize, Serialize};
use std::sync::atomic::AtomicU64;
use std::sync::Arc;
use std::time::Duration;
use vcommon::{pick_index, Ctx, Verdict};
use vsim::{apply_op, arb_cap, arb_sched_op, arb_small_cap, block_on_paused, Op, Req, Sim, SimParams};

#[derive(Clone, Debug, Serialize, Deserialize)]
enum COp {
    /// Attach / link / sync / unlink / schedule / drop / stop.
    Sim(Op),
    /// A remote sends a command to a lane (ctl: run program i).
    Send { r: u16, cmd: Cmd },
}

#[derive(Clone, Debug, Serialize, Deserialize)]
struct Case {
    params: SimParams,
    tables: RawTables,
    ops: Vec<COp>,
}

fn arb_params() -> impl Strategy<Value = SimParams> {
    (
        any::<u64>(),
        prop_oneof![Just(1usize), Just(4), Just(16)],
        arb_cap(),
        arb_cap(),
        // budget 1 is degenerate (RunWithBudget(1) can never complete a channel operation)
        prop_oneof![Just(2usize), Just(3), Just(8), Just(64)],
    )
        .prop_map(|(seed, attachment_queue, lane_in_buf, lane_out_buf, budget)| SimParams {
            seed,
            attachment_queue,
            lane_in_buf: lane_in_buf.max(8),
            lane_out_buf: lane_out_buf.max(8),
            budget,
            ..SimParams::default()
        })
}

fn arb_count() -> impl Strategy<Value = u32> {
    prop_oneof![4 => 0u32..4, 1 => Just(100u32), 2 => 257u32..420]
}

fn arb_cmd(nrun: usize) -> impl Strategy<Value = Cmd> {
    prop_oneof![
        6 => (0..nrun.max(1)).prop_map(|i| Cmd::Run(i as u16)),
        4 => (0u8..2).prop_map(|i| Cmd::Set { lane: i * 2, v: 0 }),
        3 => (0u8..2, 0i32..NKEYS).prop_map(|(i, k)| Cmd::Upd { lane: i * 2 + 1, k, v: 0 }),
        1 => (0u8..2, 0i32..NKEYS).prop_map(|(i, k)| Cmd::Rem { lane: i * 2 + 1, k }),
        1 => (0u8..2).prop_map(|i| Cmd::Clr { lane: i * 2 + 1 }),
        1 => (0u8..2, arb_count(), any::<bool>()).prop_map(|(i, n, drop)| {
            if drop {
                Cmd::Drop { lane: i * 2 + 1, n }
            } else {
                Cmd::Take { lane: i * 2 + 1, n }
            }
        }),
    ]
}

fn arb_op(nrun: usize) -> impl Strategy<Value = COp> {
    prop_oneof![
        1 => (arb_small_cap(), arb_small_cap()).prop_map(|(in_cap, out_cap)| COp::Sim(Op::Attach { in_cap, out_cap })),
        2 => (any::<u16>(), 0u8..4).prop_map(|(r, lane)| COp::Sim(Op::Link { r, lane })),
        1 => (any::<u16>(), 0u8..4).prop_map(|(r, lane)| COp::Sim(Op::Sync { r, lane })),
        12 => (any::<u16>(), arb_cmd(nrun)).prop_map(|(r, cmd)| COp::Send { r, cmd }),
        10 => arb_sched_op().prop_map(COp::Sim),
    ]
}

fn arb_case(max_ops: usize, big: bool) -> impl Strategy<Value = Case> {
    (arb_params(), arb_tables(big))
        .prop_flat_map(move |(params, tables)| {
            let n = tables.run.len();
            (
                Just(params),
                Just(tables),
                proptest::collection::vec(arb_op(n), 1..max_ops),
                // rarely: a stop request / a disconnecting remote somewhere in the list
                proptest::option::weighted(0.1, any::<u16>()),
                proptest::option::weighted(0.1, (any::<u16>(), any::<u16>())),
            )
        })
        .prop_map(|(params, tables, mut ops, stop_at, drop_at)| {
            if let Some((at, r)) = drop_at {
                let i = pick_index(at, ops.len() + 1);
                ops.insert(i, COp::Sim(Op::Drop { r }));
            }
            if let Some(at) = stop_at {
                let i = pick_index(at, ops.len() + 1);
                ops.insert(i, COp::Sim(Op::Stop));
            }
            // unique values: a value identifies the command that wrote it
            let mut next = 1000i32;
            for op in ops.iter_mut() {
                if let COp::Send { cmd: Cmd::Set { v, .. } | Cmd::Upd { v, .. }, .. } = op {
                    *v = next;
                    next += 1;
                }
            }
            // every case starts with a remote so that later ops have a target
            let mut all = vec![COp::Sim(Op::Attach { in_cap: 64, out_cap: 16 })];
            all.extend(ops);
            Case { params, tables, ops: all }
        })
}

fn cmd_wire(cmd: &Cmd) -> (&'static str, String) {
    match cmd {
        Cmd::Run(i) => (LANE_NAMES[CTL as usize], i.to_string()),
        Cmd::Set { lane, v } => (LANE_NAMES[*lane as usize], v.to_string()),
        Cmd::Upd { lane, k, v } => (LANE_NAMES[*lane as usize], format!("@update(key:{}) {}", k, v)),
        Cmd::Rem { lane, k } => (LANE_NAMES[*lane as usize], format!("@remove(key:{})", k)),
        Cmd::Clr { lane } => (LANE_NAMES[*lane as usize], "@clear".to_string()),
        Cmd::Drop { lane, n } => (LANE_NAMES[*lane as usize], format!("@drop({})", n)),
        Cmd::Take { lane, n } => (LANE_NAMES[*lane as usize], format!("@take({})", n)),
    }
}

struct Observed {
    trace: Vec<Rec>,
    sent: Vec<Cmd>,
    outcome: Outcome,
    done: bool,
    probed: bool,
}

fn execute(case: &Case, tables: &ast::Tables) -> Observed {
    block_on_paused(case.params.seed, async {
        let clock = Arc::new(AtomicU64::new(1));
        let shared = Shared::new(tables.clone());
        let agent = make_agent(shared.clone());
        let mut sim = Sim::start(&agent, &case.params, clock, None);
        // initialisation (which runs on_start) needs no external input
        sim.run_until_idle();
        let mut sent = vec![];
        for op in &case.ops {
            match op {
                COp::Sim(op) => apply_op(&mut sim, &LANE_NAMES, op).await,
                COp::Send { r, cmd } => {
                    let n = sim.remotes.len();
                    if n > 0 {
                        let (lane, body) = cmd_wire(cmd);
                        sim.remotes[pick_index(*r, n)].send(lane, Req::Command(body.into_bytes()));
                        sent.push(cmd.clone());
                    }
                }
            }
        }
        sim.settle();
        // let every timer-delayed suspended program fire: delays are <= 20 ms, so a 25 ms step with no
        // new record means no timer was pending (a fired timer records at least its Begin)
        let mut quiet = 0;
        for _ in 0..200 {
            let before = shared.trace_len();
            sim.advance(Duration::from_millis(25)).await;
            sim.settle();
            if shared.trace_len() == before || sim.is_done() {
                quiet += 1;
                if quiet >= 2 {
                    break;
                }
            } else {
                quiet = 0;
            }
        }
        // probe: read every lane through a fresh, fast remote (the model must agree with the real state)
        let mut probed = false;
        if !sim.is_done() {
            let r = sim.attach(4096, 4096);
            let cmd = Cmd::Run(tables.probe_index() as u16);
            let (lane, body) = cmd_wire(&cmd);
            sim.remotes[r].send(lane, Req::Command(body.into_bytes()));
            sent.push(cmd);
            sim.settle();
            probed = true;
        }
        let alive_after_drain = !sim.is_done();
        sim.stop();
        sim.settle();
        if !sim.is_done() {
            sim.advance(Duration::from_millis(case.params.shutdown_timeout_ms + 1_000)).await;
            sim.settle();
        }
        Observed {
            trace: shared.trace(),
            sent,
            outcome: Outcome { result: sim.result.clone(), alive_after_drain },
            done: sim.is_done(),
            probed,
        }
    })
}

const MAX_WORST_CASE: u64 = 2500;

fn too_big(case: &Case) -> bool {
    let tables = resolve(&case.tables);
    let mut runs = vec![];
    let mut ext = 0usize;
    for op in &case.ops {
        if let COp::Send { cmd, .. } = op {
            match cmd {
                Cmd::Run(i) => runs.push(*i),
                // one removal per key: at most the 3 ordinary keys unless a burst filled the map
                Cmd::Drop { n, .. } | Cmd::Take { n, .. } => {
                    ext += if tables.has_burst() { 400 } else { (*n as usize).min(3).max(1) }
                }
                _ => ext += 1,
            }
        }
    }
    // cases with a burst (hundreds of changes in one handler) are allowed a longer trace
    let limit = if tables.has_burst() { 8 * MAX_WORST_CASE } else { MAX_WORST_CASE };
    worst_case_records(&tables, &runs, ext) > limit
}

fn check(case: &Case) -> Verdict {
    let tables = resolve(&case.tables);
    if too_big(case) {
        // replayed / shrunk cases only: the strategy filters these out
        let mut v = Verdict::new();
        v.class("skipped:too-big");
        return v;
    }
    check_tables(case, &tables)
}

/// `C06_DEMO=1`: the minimal hand-written inputs of the three listed findings (NOTES.md), with a dump.
fn demo() {
    use ast::{How, Src, Tables, P, V};
    let eff = |n: u32| P::Eff(n);
    let tables = Tables {
        start: eff(1),
        stop: eff(2),
        run: vec![
            // set_value(v0, 5).map(|_| 0).and_then_contextual(|agent, _| read agent.v1 ...)
            P::Branch {
                first: V::Of(Box::new(P::Set { lane: 0, v: 5 }), 0),
                how: How::Ctx(Src::Val(2)),
                arms: vec![P::Discard(V::Get(Src::Val(2)))],
            },
            // update(m0, 0, 1).map(|_| 28).and_then_try(|x| Err(..))   (28 is a failing value)
            P::Branch { first: V::Of(Box::new(P::Upd { lane: 1, k: 0, v: 1 }), 28), how: How::Try, arms: vec![eff(3)] },
            // remove(m0, 2): key 2 is absent
            P::Rem { lane: 1, k: 2 },
            P::Seq(vec![P::Discard(V::Get(Src::Val(0))), P::Discard(V::Get(Src::Map(1))), P::Discard(V::Get(Src::Val(2))), P::Discard(V::Get(Src::Map(3)))]),
        ],
        spawn: vec![],
        lane: vec![
            // on_event(v0) sets v1 to 7
            vec![P::Set { lane: 2, v: 7 }, eff(4)],
            vec![eff(5), eff(6), eff(7)],
            vec![eff(8), eff(9)],
            vec![eff(10), eff(11), eff(12)],
        ],
    };
    let case = Case {
        params: SimParams::default(),
        tables: RawTables { start: ast::RP::Eff, start_abort: false, stop: ast::RP::Eff, run: vec![], spawn: vec![], lane: vec![] },
        ops: vec![
            COp::Sim(Op::Attach { in_cap: 4096, out_cap: 4096 }),
            COp::Send { r: 0, cmd: Cmd::Run(0) },
            COp::Send { r: 0, cmd: Cmd::Run(1) },
            COp::Send { r: 0, cmd: Cmd::Run(2) },
            COp::Sim(Op::Settle),
        ],
    };
    std::env::set_var("VERIF_DUMP", "1");
    let v = check_tables(&case, &tables);
    for f in &v.failures {
        eprintln!("FAILURE sig={}", f.sig);
    }
}

fn check_tables(case: &Case, tables: &ast::Tables) -> Verdict {
    let mut v = Verdict::new();
    let tables = tables.clone();
    let obs = execute(case, &tables);
    let rep = verify(&tables, &obs.trace, &obs.sent, &obs.outcome);
    if std::env::var("VERIF_DUMP").is_ok() {
        eprintln!("tables: {:#?}", tables);
        eprintln!("sent: {:?}", obs.sent);
        for (i, r) in obs.trace.iter().enumerate() {
            eprintln!("  {:4} {:?}", i, r);
        }
        eprintln!("outcome: {:?} done={}", obs.outcome, obs.done);
        eprintln!("report: {:?}", rep);
    }
    for (sig, detail) in &rep.failures {
        v.fail(sig.clone(), format!("{}\n result={:?}", detail, obs.outcome.result));
    }
    if std::env::var("C06_STRICT_FAIL").is_ok() && rep.fail_swallowed > 0 && obs.outcome.result == Some(Ok(())) {
        // not part of the statement (see NOTES.md): docs/event_handler.md says a failing handler fails the agent
        v.fail(
            "fail-swallowed:lane-command",
            "a handler below a command received from a remote failed, the agent carried on and stopped cleanly",
        );
    }
    let st = &rep.stats;
    if st.nontrivial && rep.failures.is_empty() && !rep.overflow {
        v.nontrivial();
    }
    v.class_if(st.nontrivial, "nt:depth>=2+read-after");
    v.class_if(st.max_depth >= 2, "depth>=2");
    v.class_if(st.max_depth >= 3, "depth>=3");
    v.class_if(st.max_depth >= 4, "depth=4");
    v.class_if(rep.spawned_blocks > 0, "suspended-ran");
    v.class_if(rep.spawned_blocks >= 3, "suspended-ran>=3");
    v.class_if(rep.ext_blocks > 0, "lane-command-block");
    v.class_if(rep.run_blocks > 1, "run-block");
    v.class_if(rep.aborted_blocks > 0, "aborted-block");
    v.class_if(rep.fail_swallowed > 0, "fail-below-command(agent-continues)");
    v.class_if(rep.fatal_failure, "fatal-failure");
    v.class_if(rep.stop_instructed, "stop-instructed");
    v.class_if(rep.on_stop_ran, "on-stop-ran");
    v.class_if(obs.probed, "probed");
    v.class_if(obs.outcome.alive_after_drain, "alive-until-final-stop");
    v.class_if(!obs.done, "agent-did-not-finish");
    v.class_if(matches!(obs.outcome.result, Some(Err(_))), "agent-error");
    v.class_if(
        matches!(obs.outcome.result, Some(Err(_))) && !rep.fatal_failure && !rep.start_stopped && rep.failures.is_empty(),
        "agent-error-without-handler-failure",
    );
    v.class_if(rep.overflow, "skipped:overflow");
    v.class_if(st.branches > 0, "branch");
    v.class_if(st.computed_mutations > 0, "computed-mutation");
    v.class_if(st.transforms > 0, "transform_entry");
    v.class_if(st.burst, "burst>=260-changes-in-one-handler");
    v.class_if(st.binds[0] > 0, "and_then");
    v.class_if(st.binds[1] > 0, "and_then_contextual");
    v.class_if(st.binds[2] > 0, "and_then_try");
    v.class_if(rep.quirk_sites > 0, "closure-in-same-step-as-modification");
    v.class_if(rep.quirk_blocks > 0, "block-matched-implementation-order-only");
    v.class_if(st.multi_step_first, "operand-mutates-in-non-final-step");
    v.class_if(st.max_value_depth >= 2, "value-combinator-depth>=2");
    v.class_if(st.noop_removes > 0, "noop-remove");
    v.class_if(st.empty_clears > 0, "empty-clear");
    v.class_if(st.same_value_sets > 0, "same-value-set");
    v.class_if(rep.blocks >= 8, "blocks>=8");
    v.class_if(obs.trace.len() >= 100, "records>=100");
    v
}

fn main() {
    let args: Vec<String> = std::env::args().skip(1).collect();
    let mut ctx = Ctx::new("C06", &args);
    ctx.rule(
        "Cases = generated program tables over two mutually recursive sorts: programs (Seq=Sequentially / Then=followed_by / Set / \
         Update / Remove / Clear / Discard(value) / Branch(value.and_then|and_then_contextual|and_then_try(k)) / MutV (a mutation whose \
         value is computed by a value action) / Effect / Suspend(immediate future | run_after timer) / Fail / Stop) and value producing \
         actions (Get / Const / After=program.followed_by(value) / Of=program.map(const) / Map / Bind / Join / Join3 / Option+Either / \
         try_handler), so every combinator is composed over arbitrary multi-step sub-programs that change lanes in non-final and final \
         steps; programs for on_start, on_stop, Run(i) on a command lane, suspended programs and every lane handler \
         on_event/on_set/on_update/on_remove/on_clear of 2 value + 2 map lanes (a lane's handlers only mutate lanes of higher index) \
         + an op list (remotes send Run(i) / value sets / map messages, link, sync, byte-level schedule of every remote, polls, time, \
         drop, stop) + runtime parameters (buffer sizes, coop budget, select seed). \
         Non-trivial = in the reference execution some handler started a cascade of depth >= 2 (a handler triggered by a handler \
         triggered by its own change) and, after resuming, read a lane that the cascade modified (and the case passed without a \
         listed finding). Distinct by the Debug form of the case.",
    );
    ctx.assume("the trace recorded through context.effect closures is in execution order (single agent task)");
    ctx.assume(
        "behaviours taken from the code, not from the statement, that the reference interpreter mirrors: removing an absent key \
         triggers nothing; clearing an empty map and setting / updating to an equal value do trigger the handlers",
    );
    ctx.assume("join(a, b) / join3(a, b, c) run their operands in parameter order (first, second, third), each to completion");
    ctx.assume(
        "a failure below a command received from a remote is logged and the agent carries on (agent_model main loop); the check \
         accepts that and only requires that nothing further of the failed chain runs",
    );
    let big = ctx.pick(false, true);
    if std::env::var("C06_DEMO").is_ok() {
        demo();
        return;
    }
    if let Ok(seed) = std::env::var("C06_SAMPLE") {
        // development aid: generate one case, run it with a dump
        let case = vcommon::sample_one(&arb_case(40, big), seed.parse().unwrap_or(0));
        std::env::set_var("VERIF_DUMP", "1");
        eprintln!("case: {:?}", case);
        let v = check(&case);
        eprintln!("verdict: {:?}", v);
        return;
    }
    let n: u64 = std::env::var("C06_CASES")
        .ok()
        .and_then(|s| s.parse().ok())
        .unwrap_or(ctx.pick(600_000, 12_000_000));
    let max_ops = ctx.pick(40, 120);
    ctx.prop(
        "handler-order",
        n,
        move || arb_case(max_ops, big).prop_filter("static worst-case trace too long", |c| !too_big(c)),
        check,
    );
    ctx.finish();
}
