//! Lexicographic odometer over all maximal operation sequences (length == depth, or shorter when the
//! grammar offers no further operation) that extend a fixed prefix. Availability of an operation depends
//! only on a small syntactic state (which handles were dropped).

pub trait Grammar {
    type S: Copy;
    fn init(&self) -> Self::S;
    fn nops(&self) -> usize;
    /// State after `op` in state `s`, or None when `op` is not available in `s`.
    fn next(&self, s: Self::S, op: usize) -> Option<Self::S>;
}

pub struct Tree<G: Grammar> {
    g: G,
    depth: usize,
    fixed: usize,
    seq: Vec<u8>,
    /// states[j] = state before seq[j]; states.len() == seq.len() + 1
    states: Vec<G::S>,
}

impl<G: Grammar> Tree<G> {
    /// None when the prefix is not a word of the grammar (or longer than depth).
    pub fn new(g: G, prefix: &[u8], depth: usize) -> Option<Self> {
        if prefix.len() > depth {
            return None;
        }
        let mut states = vec![g.init()];
        for op in prefix {
            let s = *states.last().unwrap();
            states.push(g.next(s, *op as usize)?);
        }
        let mut t = Tree {
            g,
            depth,
            fixed: prefix.len(),
            seq: prefix.to_vec(),
            states,
        };
        t.extend();
        Some(t)
    }

    pub fn seq(&self) -> &[u8] {
        &self.seq
    }

    fn extend(&mut self) {
        while self.seq.len() < self.depth {
            let s = *self.states.last().unwrap();
            let mut found = false;
            for op in 0..self.g.nops() {
                if let Some(n) = self.g.next(s, op) {
                    self.seq.push(op as u8);
                    self.states.push(n);
                    found = true;
                    break;
                }
            }
            if !found {
                break;
            }
        }
    }

    /// Move to the next sequence. `cut = Some(i)`: skip every sequence that shares seq[..=i] with the
    /// current one. Returns false when the subtree is exhausted.
    pub fn advance(&mut self, cut: Option<usize>) -> bool {
        if let Some(i) = cut {
            if i + 1 < self.seq.len() {
                self.seq.truncate(i + 1);
                self.states.truncate(i + 2);
            }
        }
        loop {
            if self.seq.len() <= self.fixed {
                return false;
            }
            let pos = self.seq.len() - 1;
            let s = self.states[pos];
            let cur = self.seq[pos] as usize;
            let mut next = None;
            for op in cur + 1..self.g.nops() {
                if let Some(n) = self.g.next(s, op) {
                    next = Some((op, n));
                    break;
                }
            }
            match next {
                Some((op, n)) => {
                    self.seq[pos] = op as u8;
                    self.states.truncate(pos + 1);
                    self.states.push(n);
                    self.extend();
                    return true;
                }
                None => {
                    self.seq.pop();
                    self.states.pop();
                }
            }
        }
    }
}
