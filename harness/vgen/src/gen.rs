//! Shared generators: a serialisable mirror of the Swim model `Value` (so that cases can be saved
//! as replay files), the boundary pool, and random strategies.

use num_bigint::{BigInt, BigUint};
use proptest::prelude::*;
use serde::{Deserialize, Serialize};
use std::fmt::{self, Debug};
use std::str::FromStr;
use swimos_model::{Attr, Blob, Item, Text, Value};

#[derive(Clone, PartialEq, Serialize, Deserialize)]
pub enum V {
    Extant,
    I32(i32),
    I64(i64),
    U32(u32),
    U64(u64),
    /// f64 bits (JSON cannot carry NaN / infinities)
    F64(u64),
    Bool(bool),
    BigInt(String),
    BigUint(String),
    Text(String),
    /// Blob content. NB: `Blob` holds *base64 encoded* bytes; this is the raw payload that is
    /// encoded with `Blob::encode`.
    Data(Vec<u8>),
    Record(Vec<(String, V)>, Vec<I>),
}

#[derive(Clone, PartialEq, Serialize, Deserialize)]
pub enum I {
    Val(V),
    Slot(V, V),
}

impl Debug for V {
    fn fmt(&self, f: &mut fmt::Formatter<'_>) -> fmt::Result {
        match self {
            V::Extant => write!(f, "Extant"),
            V::I32(n) => write!(f, "I32({})", n),
            V::I64(n) => write!(f, "I64({})", n),
            V::U32(n) => write!(f, "U32({})", n),
            V::U64(n) => write!(f, "U64({})", n),
            V::F64(b) => write!(f, "F64({:?}/{:#x})", f64::from_bits(*b), b),
            V::Bool(p) => write!(f, "Bool({})", p),
            V::BigInt(s) => write!(f, "BigInt({})", s),
            V::BigUint(s) => write!(f, "BigUint({})", s),
            V::Text(s) => write!(f, "Text({:?})", s),
            V::Data(d) => write!(f, "Data({:?})", d),
            V::Record(a, i) => {
                write!(f, "Rec(")?;
                for (n, v) in a {
                    write!(f, "@{:?}({:?}) ", n, v)?;
                }
                write!(f, "{{")?;
                for (k, it) in i.iter().enumerate() {
                    if k > 0 {
                        write!(f, ", ")?;
                    }
                    write!(f, "{:?}", it)?;
                }
                write!(f, "}})")
            }
        }
    }
}

impl Debug for I {
    fn fmt(&self, f: &mut fmt::Formatter<'_>) -> fmt::Result {
        match self {
            I::Val(v) => write!(f, "{:?}", v),
            I::Slot(k, v) => write!(f, "{:?}: {:?}", k, v),
        }
    }
}

impl V {
    pub fn f(x: f64) -> V {
        V::F64(x.to_bits())
    }
    pub fn text(s: &str) -> V {
        V::Text(s.to_string())
    }

    pub fn to_value(&self) -> Value {
        match self {
            V::Extant => Value::Extant,
            V::I32(n) => Value::Int32Value(*n),
            V::I64(n) => Value::Int64Value(*n),
            V::U32(n) => Value::UInt32Value(*n),
            V::U64(n) => Value::UInt64Value(*n),
            V::F64(b) => Value::Float64Value(f64::from_bits(*b)),
            V::Bool(p) => Value::BooleanValue(*p),
            V::BigInt(s) => Value::BigInt(BigInt::from_str(s).expect("bad bigint in case")),
            V::BigUint(s) => Value::BigUint(BigUint::from_str(s).expect("bad biguint in case")),
            V::Text(s) => Value::Text(Text::new(s)),
            V::Data(d) => Value::Data(Blob::encode(d)),
            V::Record(attrs, items) => Value::Record(
                attrs
                    .iter()
                    .map(|(n, v)| Attr {
                        name: Text::new(n),
                        value: v.to_value(),
                    })
                    .collect(),
                items.iter().map(|i| i.to_item()).collect(),
            ),
        }
    }

    pub fn from_value(v: &Value) -> V {
        match v {
            Value::Extant => V::Extant,
            Value::Int32Value(n) => V::I32(*n),
            Value::Int64Value(n) => V::I64(*n),
            Value::UInt32Value(n) => V::U32(*n),
            Value::UInt64Value(n) => V::U64(*n),
            Value::Float64Value(x) => V::F64(x.to_bits()),
            Value::BooleanValue(p) => V::Bool(*p),
            Value::BigInt(b) => V::BigInt(b.to_string()),
            Value::BigUint(b) => V::BigUint(b.to_string()),
            Value::Text(t) => V::Text(t.as_str().to_string()),
            Value::Data(b) => V::Data(b.as_decoded().unwrap_or_else(|_| b.as_ref().to_vec())),
            Value::Record(attrs, items) => V::Record(
                attrs
                    .iter()
                    .map(|a| (a.name.as_str().to_string(), V::from_value(&a.value)))
                    .collect(),
                items
                    .iter()
                    .map(|i| match i {
                        Item::ValueItem(v) => I::Val(V::from_value(v)),
                        Item::Slot(k, v) => I::Slot(V::from_value(k), V::from_value(v)),
                    })
                    .collect(),
            ),
        }
    }

    pub fn kind(&self) -> &'static str {
        match self {
            V::Extant => "Extant",
            V::I32(_) => "Int32",
            V::I64(_) => "Int64",
            V::U32(_) => "UInt32",
            V::U64(_) => "UInt64",
            V::F64(_) => "Float64",
            V::Bool(_) => "Boolean",
            V::BigInt(_) => "BigInt",
            V::BigUint(_) => "BigUint",
            V::Text(_) => "Text",
            V::Data(_) => "Data",
            V::Record(_, _) => "Record",
        }
    }

    pub fn depth(&self) -> usize {
        match self {
            V::Record(a, i) => {
                1 + a
                    .iter()
                    .map(|(_, v)| v.depth())
                    .chain(i.iter().map(|i| match i {
                        I::Val(v) => v.depth(),
                        I::Slot(k, v) => k.depth().max(v.depth()),
                    }))
                    .max()
                    .unwrap_or(0)
            }
            _ => 0,
        }
    }

    pub fn any(&self, p: &dyn Fn(&V) -> bool) -> bool {
        if p(self) {
            return true;
        }
        match self {
            V::Record(a, i) => {
                a.iter().any(|(_, v)| v.any(p))
                    || i.iter().any(|i| match i {
                        I::Val(v) => v.any(p),
                        I::Slot(k, v) => k.any(p) || v.any(p),
                    })
            }
            _ => false,
        }
    }

    pub fn any_text(&self, p: &dyn Fn(&str) -> bool) -> bool {
        match self {
            V::Text(s) => p(s),
            V::Record(a, i) => {
                a.iter().any(|(n, v)| p(n) || v.any_text(p))
                    || i.iter().any(|i| match i {
                        I::Val(v) => v.any_text(p),
                        I::Slot(k, v) => k.any_text(p) || v.any_text(p),
                    })
            }
            _ => false,
        }
    }
}

impl I {
    pub fn to_item(&self) -> Item {
        match self {
            I::Val(v) => Item::ValueItem(v.to_value()),
            I::Slot(k, v) => Item::Slot(k.to_value(), v.to_value()),
        }
    }
}

/// Exact structural equality on model values (kind-exact, float by bits except that all NaNs are
/// one value). Unlike `Value::eq` it never identifies numbers of different kinds.
pub fn structural_eq(a: &Value, b: &Value) -> bool {
    match (a, b) {
        (Value::Extant, Value::Extant) => true,
        (Value::Int32Value(x), Value::Int32Value(y)) => x == y,
        (Value::Int64Value(x), Value::Int64Value(y)) => x == y,
        (Value::UInt32Value(x), Value::UInt32Value(y)) => x == y,
        (Value::UInt64Value(x), Value::UInt64Value(y)) => x == y,
        (Value::Float64Value(x), Value::Float64Value(y)) => {
            (x.is_nan() && y.is_nan()) || x.to_bits() == y.to_bits()
        }
        (Value::BooleanValue(x), Value::BooleanValue(y)) => x == y,
        (Value::BigInt(x), Value::BigInt(y)) => x == y,
        (Value::BigUint(x), Value::BigUint(y)) => x == y,
        (Value::Text(x), Value::Text(y)) => x.as_str() == y.as_str(),
        (Value::Data(x), Value::Data(y)) => x.as_ref() == y.as_ref(),
        (Value::Record(a1, i1), Value::Record(a2, i2)) => {
            a1.len() == a2.len()
                && i1.len() == i2.len()
                && a1
                    .iter()
                    .zip(a2)
                    .all(|(x, y)| x.name.as_str() == y.name.as_str() && structural_eq(&x.value, &y.value))
                && i1.iter().zip(i2).all(|(x, y)| match (x, y) {
                    (Item::ValueItem(x), Item::ValueItem(y)) => structural_eq(x, y),
                    (Item::Slot(k1, v1), Item::Slot(k2, v2)) => {
                        structural_eq(k1, k2) && structural_eq(v1, v2)
                    }
                    _ => false,
                })
        }
        _ => false,
    }
}

// ---------------------------------------------------------------------------------------------
// Boundary pool

pub const TEXTS: &[&str] = &[
    "",
    "a",
    "b",
    "name",
    "an_identifier",
    "true",
    "false",
    "2morrow",
    "with space",
    "quote\"inside",
    "back\\slash",
    "\t\r\n",
    "\u{8}\u{c}",
    "\u{0}",
    "\u{1}\u{1f}",
    "\u{7f}",
    "·",
    "a·b",
    "é",
    "日本語",
    "😀",
    "a😀b",
    "@attr",
    "{",
    "}",
    "(",
    ")",
    ",",
    ";",
    ":",
    "x,y",
    "a:b",
    "%41",
    "-",
    "-a",
    "_",
    "_1",
    "1",
    "-1",
    "1.0",
    "1e5",
    "#",
    "#comment",
    "%",
    "%AAAA",
    "/",
    "a/b",
    " ",
    " a",
    "a ",
    "\u{feff}",
    "\u{2028}",
    "\u{fffd}",
    "\u{ffff}",
    "\u{10000}",
    "\u{10ffff}",
    "A",
    "Z9_",
    "ab",
    "aa",
    // identifiers that numeric parsers also accept (nom's `double` takes nan / inf / infinity)
    "inf",
    "nan",
    "NaN",
    "infinity",
    "Infinity",
    "INF",
    "info",
    "nano",
    "infinite",
    "e5",
    "E1",
    "x1e5",
    "null",
    "extant",
];

pub fn boundary_ints() -> Vec<i128> {
    let mut v: Vec<i128> = vec![0, 1, -1, 2, -2, 10, 42, 127, 128, 255, 256];
    for p in [7u32, 8, 15, 16, 24, 31, 32, 52, 53, 54, 62, 63, 64] {
        let b = 1i128 << p;
        for d in [-2i128, -1, 0, 1, 2] {
            v.push(b + d);
            v.push(-b + d);
        }
    }
    v.sort();
    v.dedup();
    v
}

pub fn boundary_floats() -> Vec<f64> {
    let mut v = vec![
        0.0,
        -0.0,
        1.0,
        -1.0,
        0.5,
        -0.5,
        1.5,
        -1.5,
        2.0,
        0.1,
        1.0 + f64::EPSILON,
        1.0 + f64::EPSILON / 2.0 + 1.0 - 1.0,
        1.0 - f64::EPSILON / 2.0,
        1.0e-17,
        2.0e-17,
        -1.0e-17,
        f64::EPSILON,
        f64::EPSILON / 2.0,
        f64::MIN_POSITIVE,
        f64::MIN_POSITIVE / 2.0,
        5e-324,
        -5e-324,
        f64::MAX,
        f64::MIN,
        f64::INFINITY,
        f64::NEG_INFINITY,
        f64::NAN,
        -f64::NAN,
        1e300,
        1e19,
        1e20,
        1e38,
        1e39,
        1e40,
        -1e19,
        -1e39,
        3.141592653589793,
        2.5,
        1e-7,
        123456789.125,
    ];
    for p in [31u32, 32, 52, 53, 54, 62, 63, 64, 127, 128] {
        let b = 2f64.powi(p as i32);
        v.push(b);
        v.push(-b);
        v.push(b + 1.0);
        v.push(b - 1.0);
        v.push(f64::from_bits(b.to_bits() + 1));
        v.push(f64::from_bits(b.to_bits() - 1));
        v.push(b + 0.5);
    }
    v
}

pub fn boundary_bigs() -> Vec<BigInt> {
    let mut v = vec![];
    for s in [
        "0",
        "1",
        "-1",
        "2147483647",
        "2147483648",
        "-2147483648",
        "-2147483649",
        "4294967295",
        "4294967296",
        "9007199254740992",
        "9007199254740993",
        "9223372036854775807",
        "9223372036854775808",
        "-9223372036854775808",
        "-9223372036854775809",
        "18446744073709551615",
        "18446744073709551616",
        "170141183460469231731687303715884105727",
        "170141183460469231731687303715884105728",
        "-170141183460469231731687303715884105728",
        "-170141183460469231731687303715884105729",
        "340282366920938463463374607431768211455",
        "340282366920938463463374607431768211456",
        "100000000000000000000000000000000000000000000000000",
        "-100000000000000000000000000000000000000000000000000",
    ] {
        v.push(BigInt::from_str(s).unwrap());
    }
    // something beyond f64 range
    let huge = BigInt::from(10).pow(400);
    v.push(huge.clone());
    v.push(-huge);
    v
}

/// Scalars: every numeric kind at its limits, the same number in several kinds, floats next to
/// integers, texts, blobs.
pub fn scalar_pool() -> Vec<V> {
    let mut out = vec![V::Extant, V::Bool(true), V::Bool(false)];
    for n in boundary_ints() {
        if let Ok(x) = i32::try_from(n) {
            out.push(V::I32(x));
        }
        if let Ok(x) = i64::try_from(n) {
            out.push(V::I64(x));
        }
        if let Ok(x) = u32::try_from(n) {
            out.push(V::U32(x));
        }
        if let Ok(x) = u64::try_from(n) {
            out.push(V::U64(x));
        }
    }
    out.push(V::I32(i32::MIN));
    out.push(V::I32(i32::MAX));
    out.push(V::I64(i64::MIN));
    out.push(V::I64(i64::MAX));
    out.push(V::U32(u32::MAX));
    out.push(V::U64(u64::MAX));
    for x in boundary_floats() {
        out.push(V::f(x));
    }
    for b in boundary_bigs() {
        out.push(V::BigInt(b.to_string()));
        if let Some(u) = b.to_biguint() {
            out.push(V::BigUint(u.to_string()));
        }
    }
    for t in TEXTS {
        out.push(V::text(t));
    }
    for d in [
        vec![],
        vec![0u8],
        vec![0xff],
        vec![0, 0],
        vec![1, 2, 3],
        vec![1, 2, 3, 4],
        b"swimming".to_vec(),
        (0u8..64).collect(),
        vec![0xfb, 0xff, 0xfe],
    ] {
        out.push(V::Data(d));
    }
    dedup_debug(out)
}

fn dedup_debug(v: Vec<V>) -> Vec<V> {
    let mut seen = std::collections::HashSet::new();
    v.into_iter()
        .filter(|x| seen.insert(format!("{:?}", x)))
        .collect()
}

/// A smaller selection of scalars used to build records (keeps the pool quadratic cost sane).
pub fn core_scalars() -> Vec<V> {
    vec![
        V::Extant,
        V::Bool(true),
        V::I32(0),
        V::I32(1),
        V::I64(1),
        V::U32(1),
        V::U64(1),
        V::f(1.0),
        V::f(0.0),
        V::f(-0.0),
        V::f(f64::NAN),
        V::BigInt("1".into()),
        V::BigUint("1".into()),
        V::I32(-1),
        V::I64(i64::MAX),
        V::U64(u64::MAX),
        V::U64(1 << 63),
        V::f(9223372036854775808.0),
        V::text(""),
        V::text("a"),
        V::text("b"),
        V::text("true"),
        V::text("with space"),
        V::Data(vec![]),
        V::Data(vec![1, 2, 3]),
    ]
}

pub fn record_pool() -> Vec<V> {
    let core = core_scalars();
    let mut out = vec![
        V::Record(vec![], vec![]),
        V::Record(vec![("a".into(), V::Extant)], vec![]),
        V::Record(vec![("b".into(), V::Extant)], vec![]),
        V::Record(vec![("a".into(), V::Extant), ("b".into(), V::Extant)], vec![]),
        V::Record(vec![("b".into(), V::Extant), ("a".into(), V::Extant)], vec![]),
        V::Record(vec![("with space".into(), V::Extant)], vec![]),
        V::Record(vec![("".into(), V::Extant)], vec![]),
        V::Record(vec![], vec![I::Val(V::Record(vec![], vec![]))]),
        V::Record(
            vec![],
            vec![I::Val(V::Record(vec![], vec![I::Val(V::Record(vec![], vec![]))]))],
        ),
        V::Record(vec![("a".into(), V::Record(vec![], vec![]))], vec![]),
        V::Record(
            vec![("a".into(), V::Record(vec![], vec![I::Val(V::I32(1))]))],
            vec![],
        ),
        V::Record(
            vec![("a".into(), V::Record(vec![], vec![I::Val(V::I32(1)), I::Val(V::I32(2))]))],
            vec![],
        ),
        V::Record(
            vec![("a".into(), V::Record(vec![], vec![I::Slot(V::text("k"), V::I32(1))]))],
            vec![],
        ),
        V::Record(vec![], vec![I::Val(V::I32(1)), I::Val(V::I32(2))]),
        V::Record(vec![], vec![I::Val(V::I32(2)), I::Val(V::I32(1))]),
        V::Record(vec![], vec![I::Val(V::I32(1)), I::Val(V::I32(2)), I::Val(V::I32(3))]),
        V::Record(
            vec![],
            vec![I::Slot(V::text("a"), V::I32(1)), I::Slot(V::text("b"), V::I32(2))],
        ),
        V::Record(
            vec![],
            vec![I::Slot(
                V::Record(vec![], vec![I::Val(V::I32(1))]),
                V::Record(vec![("x".into(), V::Extant)], vec![]),
            )],
        ),
    ];
    for s in &core {
        out.push(V::Record(vec![], vec![I::Val(s.clone())]));
        out.push(V::Record(vec![("a".into(), s.clone())], vec![]));
        out.push(V::Record(vec![], vec![I::Slot(s.clone(), V::I32(1))]));
        out.push(V::Record(vec![], vec![I::Slot(V::text("k"), s.clone())]));
        out.push(V::Record(
            vec![("a".into(), V::Extant)],
            vec![I::Val(s.clone())],
        ));
    }
    dedup_debug(out)
}

pub fn boundary_pool() -> Vec<V> {
    let mut p = scalar_pool();
    p.extend(record_pool());
    p
}

// ---------------------------------------------------------------------------------------------
// Random strategies

pub fn arb_text() -> BoxedStrategy<String> {
    prop_oneof![
        4 => "[a-zA-Z_][a-zA-Z0-9_]{0,8}",
        2 => proptest::sample::select(TEXTS).prop_map(|s| s.to_string()),
        2 => "[ -~]{0,12}",
        1 => "\\PC{0,8}",
        1 => proptest::collection::vec(any::<char>(), 0..6).prop_map(|c| c.into_iter().collect()),
        1 => proptest::collection::vec(
            prop_oneof![
                Just('"'), Just('\\'), Just('\n'), Just('\t'), Just('\r'), Just('\u{8}'),
                Just('\u{c}'), Just('\u{0}'), Just('a'), Just(' '), Just('·'), Just('😀'),
                Just('\u{1b}'), Just('/'), Just('@'), Just('{'), Just(','), Just(':')
            ],
            0..8
        )
        .prop_map(|c| c.into_iter().collect()),
    ]
    .boxed()
}

pub fn arb_ident() -> BoxedStrategy<String> {
    prop_oneof![
        6 => "[a-z][a-z0-9_]{0,6}",
        1 => Just("a".to_string()),
        1 => Just("b".to_string()),
    ]
    .boxed()
}

pub fn arb_f64() -> BoxedStrategy<f64> {
    prop_oneof![
        3 => proptest::sample::select(boundary_floats()),
        2 => any::<f64>(),
        2 => (-1000i32..1000).prop_map(|n| n as f64 / 8.0),
        1 => any::<i64>().prop_map(|n| n as f64),
        1 => any::<u64>().prop_map(f64::from_bits),
    ]
    .boxed()
}

pub fn arb_finite_f64() -> BoxedStrategy<f64> {
    arb_f64()
        .prop_map(|x| if x.is_finite() { x } else { 0.25 })
        .boxed()
}

pub fn arb_scalar(finite: bool) -> BoxedStrategy<V> {
    let fl = if finite { arb_finite_f64() } else { arb_f64() };
    prop_oneof![
        1 => Just(V::Extant),
        1 => any::<bool>().prop_map(V::Bool),
        2 => prop_oneof![any::<i32>(), -3i32..4, proptest::sample::select(vec![i32::MIN, i32::MAX])].prop_map(V::I32),
        2 => prop_oneof![any::<i64>(), -3i64..4, proptest::sample::select(vec![i64::MIN, i64::MAX, i32::MAX as i64 + 1, i32::MIN as i64 - 1])].prop_map(V::I64),
        2 => prop_oneof![any::<u32>(), 0u32..4, Just(u32::MAX), Just(i32::MAX as u32 + 1)].prop_map(V::U32),
        2 => prop_oneof![any::<u64>(), 0u64..4, Just(u64::MAX), Just(i64::MAX as u64 + 1), Just(u32::MAX as u64 + 1)].prop_map(V::U64),
        3 => fl.prop_map(V::f),
        1 => proptest::sample::select(boundary_bigs()).prop_map(|b| V::BigInt(b.to_string())),
        1 => proptest::sample::select(boundary_bigs()).prop_map(|b| match b.to_biguint() {
            Some(u) => V::BigUint(u.to_string()),
            None => V::BigUint((-b).to_biguint().unwrap().to_string()),
        }),
        1 => (any::<i128>(), any::<u8>()).prop_map(|(n, sh)| V::BigInt((BigInt::from(n) << (sh % 70) as usize).to_string())),
        4 => arb_text().prop_map(V::Text),
        1 => proptest::collection::vec(any::<u8>(), 0..12).prop_map(V::Data),
    ]
    .boxed()
}

/// Arbitrary model values: any shape the `Value` type admits.
pub fn arb_value(finite: bool) -> BoxedStrategy<V> {
    let leaf = arb_scalar(finite);
    leaf.prop_recursive(5, 48, 5, |inner| {
        let item = prop_oneof![
            3 => inner.clone().prop_map(I::Val),
            2 => (inner.clone(), inner.clone()).prop_map(|(k, v)| I::Slot(k, v)),
        ];
        let attr_name = prop_oneof![3 => arb_ident(), 1 => arb_text()];
        (
            proptest::collection::vec((attr_name, inner), 0..3),
            proptest::collection::vec(item, 0..4),
        )
            .prop_map(|(a, i)| V::Record(a, i))
    })
    .boxed()
}

/// Deeply nested records (depth up to `max_depth`), thin.
pub fn arb_deep(max_depth: usize) -> BoxedStrategy<V> {
    (1..=max_depth, arb_scalar(true), any::<u64>())
        .prop_map(|(d, leaf, shape)| {
            let mut v = leaf;
            for i in 0..d {
                v = match (shape >> (i % 32)) & 3 {
                    0 => V::Record(vec![], vec![I::Val(v)]),
                    1 => V::Record(vec![("a".into(), v)], vec![]),
                    2 => V::Record(vec![], vec![I::Slot(V::text("k"), v)]),
                    _ => V::Record(vec![("t".into(), V::Extant)], vec![I::Slot(v, V::I32(1))]),
                };
            }
            v
        })
        .boxed()
}
