#!/usr/bin/env python3
"""Regenerates /verif/MANIFEST.json from the table below and validates it against the schema."""
import json, sys, os
ROOT = os.path.dirname(os.path.dirname(os.path.abspath(__file__)))

CHECKS = {
 # id: (engine, category, technique, level text, level note, design_ref)
 "C02": ("agentsim+enum", "exploration",
   "stateful property-based testing on the real agent + runtime (replica oracle against the agent-side map trace, reference map for take/drop) plus bounded-exhaustive and random model-based testing of the runtime's MapBackpressure queue",
   "3e5 (quick) op lists over three real map lanes (HashMap and BTreeMap backings, transient), 1-5 remotes with tiny response channels, commands update/remove/clear/take/drop with keys in several Recon spellings, handler programs and cascades: entries, removes and clears are never invented, per key frames arrive in history order, no update older than a clear arrives after that clear, at quiescence each replica equals the lane's map (side condition for remotes that only linked), take/drop remove exactly the keys designated by the documented order on both backings, and a probe remote's sync equals the fold of the trace. Every MapBackpressure push/pop sequence to depth 6 over a 9-op alphabet (5.98e5) and 3e5 random sequences over 19 key spellings + non-UTF-8 keys: popping everything equals applying the pushed ops, no two queued entries with equal keys.",
   "Trusts: agent-side on_update/on_remove/on_clear trace as ground truth (C06). Known finding excluded by a precondition-guarded signature: a remote that syncs a map lane without linking first can lose entries (see C03). Epoch wrap-around (2^64 pops) is unreachable.",
   "DESIGN.md §4 C02"),
 "C03": ("agentsim", "exploration",
   "stateful property-based testing: sync requests injected at generated positions inside update bursts on the real agent + runtime with slow remotes; window oracle over the agent-side trace (snapshot consistent with some instant between request and synced) plus tail convergence",
   "2.6e5 (quick) op lists with sync envelopes at generated positions inside update bursts, by 1-3 remotes, with and without a preceding link, stalled or not, tiny lane buffers so that lane events are still queued when the snapshot is taken: linked comes first and once, every sync is answered by synced, at each synced every key of the replica (value lane: its value) matches a state the lane held at some instant between the sync request being written and synced being read, and afterwards the C01/C02 convergence rules hold for every remote.",
   "Trusts: the window [request written, synced read] is wider than the true window, so the check is sound but not tight. Known findings excluded by precondition-guarded signatures: map-lane sync without a prior link loses entries whose live event is popped before the implicit link; synced is emitted while events that were pending at request time are still queued (proposed lane-level repair judged too large: fixes/C03-*.diff).",
   "DESIGN.md §4 C03"),
 "C10": ("pure+fuzz", "exploration",
   "property-based testing of every codec pair: generated message sequences under exhaustive single splits, byte-wise and random multi-splits (round trip + exact consumption), and layout-aware byte-level mutations (tags, length fields, ids, truncation) run in child processes; coverage-guided libFuzzer target codec_stream (chunked == one-shot on arbitrary bytes) in the thorough tier",
   "29 decoder families (lane requests/responses, map messages/operations, store init/response, downlink notifications/operations, command messages, routed requests/responses, WithLengthBytesCodec, WithLenRecognizerDecoder), each fed by every encoder the repository pairs it with: streams of 1-8 messages at every single split point, one byte per read and random multi-splits must decode to exactly what was encoded with exactly the frame's bytes consumed (3e3 streams per family quick); 1.2e4 mutated streams per family (invalid/other tag, lengths 0 / len+-k / 2^32 / 2^61.. / u64::MAX-k, id and body bytes, truncation, insert, delete) must never panic, abort or hang, must decode intact prefix frames exactly, must reject invalid tags, never produce a message from a truncated or overrun frame, and raw decoders must re-encode to the bytes they consumed. Ill-typed bodies are combined with every fragmentation and followed by frames of every kind (the error is reported for exactly that frame and the stream is re-synchronised exactly); a size regime (4095..100000 bytes for body, node, lane, host) runs through the same split laws.",
   "Trusts: the wire-layout model used to aim mutations (self-checked against the encoders). Known findings excluded by signature: the typed map decoder ignores the record size of a Clear frame; the command decoder ignores undefined flag bits; a body length on a body-less routed message (typed half).",
   "DESIGN.md §4 C10"),
 "C14": ("agentsim", "exploration",
   "stateful property-based testing on the real agent + runtime: generated bursts on supply and command lanes and agent-sent commands (send_command / Commander) with slow remotes and slow command targets answered by the harness; exactly-once / order / supersession oracle",
   "Generated programs push bursts of 1-500 unique items (far above channel sizes) to a real SupplyLane while remotes link/unlink and read slowly: every remote linked throughout receives exactly the pushed sequence, a remote linking mid-burst a contiguous duplicate-free in-order run; bursts of command envelopes from several remotes: on_command fires exactly once per command in each remote's order; agent-sent commands (send_command and the Commander API, overwritable and not) to 1-3 targets whose channels the harness drains at a generated pace: every non-overwritable command arrives exactly once in order per target, an overwritable one may be missing only if a later command to the same target superseded it, nothing arrives twice. A boundary regime (320 cases) lets one agent keep 65530-65540 commanders for distinct targets and sends through those around the 16-bit id boundary.",
   "Trusts: the harness answers LinkRequest::Commander like the server runtime does (vsim/src/links.rs).",
   "DESIGN.md §4 C14"),
 "C07": ("dlrt", "exploration",
   "stateful model-based property testing: generated op lists (consumer attach/write/read/drop, remote lane model steps, stalls, time) against the real Value/MapDownlinkRuntime polled by the harness; history-invariant oracle; proptest shrinking",
   "3e5 (quick) op lists drive the real ValueDownlinkRuntime / MapDownlinkRuntime inside a paused seeded runtime: up to 5 consumers attach through AttachAction with options from {SYNC, KEEP_LINKED} and 1..4096-byte buffers, write operations at a generated pace and may drop at any point, while a legal remote lane model answers the frames the runtime writes (link, sync with full replay, commands applied and echoed), makes spontaneous changes, unlinks, drops and stalls by partial reads/writes. Per consumer: linked, then (SYNC) synced with a state equal to some instant of the lane's history followed by exactly its later events, gap-free in emission order, unlinked at close; on the wire: link first, sync only for SYNC consumers, no fabricated/duplicated commands, per-consumer (value) and per-key/clear (map) order, only superseded commands dropped. Session laws are judged at the quiet fixpoint with the link still up; the queue sub-checks include operations with keys that are not valid UTF-8 (refused by themselves, without effect on any other operation).",
   "Trusts: the harness remote lane model only produces sequences a real lane can produce. Known findings excluded by (deliberately narrow) signatures: the read task cannot tell which synced answers whose sync (a map consumer joining mid-replay is synced with a partial map; a sync answered before the read task took the consumer from its queue never syncs it).",
   "DESIGN.md §4 C07"),
 "C12": ("enum", "exploration",
   "bounded-exhaustive enumeration of operation sequences on the real byte channel with counting wakers against a reference FIFO model, random longer sequences, and a real-thread deadlock tier",
   "Every sequence of {write 1/2/cap/cap+1 bytes, read into 0/1/2/cap bytes, flush, shutdown, drop writer, drop reader} to depth 8 (9.8e8 sequences quick; depth 9 thorough) for capacities 1..4 and coop budgets {64,2,3} is executed on the real ByteWriter/ByteReader poll functions next to a model: bytes read are a prefix of bytes written, buffered <= capacity, EOF after drain, writes fail after reader drop, a Pending is legitimate only if blocked or the own waker was woken (coop yield), and a parked side whose blocking condition is lifted by the other side's op must have been woken by the end of that op. 4e6 random sequences to length 200 (capacities to 64, waker switches, budget resets) and 1.2e4 real-thread runs with a deadlock monitor on top.",
   "Trusts: op-level interleavings are all interleavings because every channel op runs under the channel's mutex; real concurrency is only sampled by the thread tier.",
   "DESIGN.md §4 C12"),
 "C17": ("enum", "exploration",
   "bounded-exhaustive enumeration of vote/rescind/drop/poll sequences on the real coordinator against a reference model (2 and 3 parties), caller-restricted enumeration to greater depth, random sequences, a real-thread tier, and model-based histories on the real downlink runtime and the real agent runtime (paused clock) for the callers' vote discipline",
   "Every sequence of {vote_i, rescind_i, drop_i, poll receiver} for the downlink (2 party) and agent (3 party) coordinators to depth 10 / 8 (any order) and 12 / 10 (restricted to what the runtime tasks do) - 7.7e7 sequences quick, depth 13/11 and 15/13 thorough - is executed on the real Voter/Receiver with counting wakers: a stop is unanimous only when every party has an outstanding vote or is gone, a rescind told UnanimityPending guarantees the stop has not begun and does not begin until that party votes again, unanimity is never undone, a dropped party counts as voting, and a parked receiver is woken when the latch sets. 3e6 random sequences to length 60 and 3e4 OS-thread runs with schedule-independent invariants. 1e6 generated histories drive the real Value/MapDownlinkRuntime through the window in which its read task has voted and its write task has not (a runtime with an established, still listening consumer must not stop), and 2e5 histories drive the real AgentRouteTask on a millisecond-exact paused clock with envelopes for known and unknown lanes, timer-made lane events and HTTP requests around the timeouts (an agent that stops at t had no own activity of its read, write or HTTP task inside (t - timeout, t)).",
   "Trusts: only sequentially consistent interleavings are explored (Relaxed atomics on x86); the three-step Receiver::poll race is only sampled by the thread tier (caught at thorough).",
   "DESIGN.md §4 C17"),
 "C11": ("pure+socket+multireader", "exploration",
   "property-based testing: encoder/peeler round trip over generated envelopes; stateful generated scenarios over two real RemoteTasks joined by an in-memory websocket with harness agents/downlinks and injected frames; model-based MultiReader check with counting wakers",
   "1.5e6 generated envelopes (8 kinds + NoSuchAgent forms x adversarial node/lane strings x real printer bodies) must peel to the same kind, node, lane and body; truncated / one-character-mutated envelopes never panic the reader; 1.2e5 socket scenarios run two real RemoteTasks (polled by hand in a paused seeded runtime) with several harness agents, downlinks and one-way clients on confusable (node, lane) pairs attaching, writing and detaching in generated order plus injected valid/alternative-spelling/invalid frames: every message must arrive at exactly its addressee with identical content, once, in source order, and invalid frames reach no one and close the connection; MultiReader with up to 130 scripted streams must yield every item exactly once in per-stream order, end only after all streams ended and never lose a wake-up.",
   "Trusts: the ratchet websocket layer (NoExt, unfragmented frames); bodies starting with a blank or not UTF-8 are outside the generator domain.",
   "DESIGN.md §4 C11"),
 "C13": ("store", "exploration",
   "model-based stateful property testing: generated histories of id_for/put/get/delete/update/remove/clear/read_map with reopen points against an in-memory reference map, on RocksDB and on the in-memory store; child-process SIGKILL at generated points; bulk size regime; real-thread registration tier",
   "1.2e4 (quick) histories on a real RocksDB directory per case with real close/reopen, 2e5 on the in-memory store, over 1-3 agent uris x 1-4 items with adversarial names and keys (empty, shared prefixes, a/b vs a+b, 0x00/0xFF, lengths around the key prefix size): after every mutating op or reopen every item used so far is read back and compared with the model (the addressed item and all others = isolation), ids must be stable across reopen and injective. 3e3 kill cases re-execute the binary as a child that acknowledges each op on a pipe and is SIGKILLed at generated points: every acknowledged op must be present, the unacknowledged one atomically present or absent.",
   "Trusts: kill moments are sampled, not enumerated (async-kill replays may not reproduce; self-kill cases do); power loss is out of scope; read_map order is not asserted (the trait gives none). Known finding excluded by signature: RocksDB allocates ids for uri+\"/\"+name, so (/a,b/c) and (/a/b,c) share one id and one value/map.",
   "DESIGN.md §4 C13"),
 "C16": ("pure", "exploration",
   "property-based differential testing: a battery of 49 derived/built-in Form types with generated instances, printer output of other types, schema-violating near-miss values and arbitrary model values; oracles: model round trip, direct-vs-via-model reader agreement on identical text, MessagePack round trips",
   "2.27e6 cases quick over 42 derive(Form) structs/enums (tag, rename, header, header_body, attr, body, slot, skip, generics, nesting, collections, newtype, unit, tuple, enums) and 7 built-ins: try_from_value(as_value(v)) == v and try_convert(into_value(v)) == v; parse_recognize::<T>(text) and parse_recognize::<Value>(text) followed by try_from_value must agree on accept/reject and on the value, for the type's own print (three printers), the print of other battery types, values 1-3 structural edits away from the schema (library print and a variant-syntax writer) and arbitrary model values; MessagePack write/read == v and MessagePack of as_value() read as T == v.",
   "Trusts: signatures of reader disagreements name the mechanism (rejecting path + recogniser error cell), not the type, because the recogniser state machines are shared by all derived types. Known findings excluded by signature: the Value bridge presents an empty attribute body as Extant / a unit field in an attribute (root cause G), a newtype around a Vec in an attribute (H).",
   "DESIGN.md §4 C16"),
 "C05": ("agentsim+faults", "fault_enumeration",
   "stateful property-based testing with crash-point injection: generated update histories against the real agent + runtime with a recording, fault-injecting NodePersistence; cuts (panic inside store call #n, store error, drop after poll #p / frame #f, clean stop, timeout), restart on the surviving store and comparison with the fold of the acknowledged log",
   "Each evaluation is one (history, cut) execution including restart: C01/C02-style histories over persistent and transient value/map lanes and stores run through run_agent_with_store with a harness store that logs every call with the global sequence number and can fail inside call #n. After the cut a fresh agent is started on the surviving data, a new remote syncs every lane and every item is read in on_start and by a probe. Oracles: every event frame of a persistent lane was handed to the store before any remote read it; every persistent item restarts as the fold of the applied log (never older than anything a subscriber saw); transient items restart at their defaults. Quick samples cuts (4.6e5 evaluations) and enumerates all cuts for 600 histories; thorough enumerates every store cut x 3 fault modes, every frame cut, stop after every op for 6e4 histories. Further sub-checks: twin-items (value lane and value store sharing the runtime item id; id_for faults at the write task's start-up lookup), optional-values (map and value lanes of Option<i64>: empty Recon bodies), late-lane (a raw agent registering a persistent lane after start), and stop-vote windows in which the read task, the agent or the HTTP task completes the inactivity vote.",
   "Trusts: the harness store is an ideal store (real stores are C13); cut points are poll boundaries, store calls and frame reads of a single-threaded schedule, not arbitrary instructions.",
   "DESIGN.md §4 C05"),
 "C06": ("agentsim+refint", "exploration",
   "grammar-based program generation + differential testing against a reference interpreter: generated handler programs executed by a real agent (real lifecycle macros) and by a model; block-wise trace comparison; proptest shrinking",
   "Program tables over Seq/Then/Set/Update/Remove/Clear/Get/Branch/Effect/Suspend/Fail/Stop for on_start, on_stop, control commands, suspended programs and every lifecycle handler of 2 value + 2 map lanes (acyclic by construction) are executed by a real agent under generated command sequences and schedules. The recorded effect trace is parsed into top-level blocks; each block must be allowed (on_start first, on_stop last, spawned programs exactly once, nothing after a fatal failure) and must equal the reference interpreter's depth-first execution (on_event then on_set with the true previous value; map callbacks with the true previous entry) from the model state at the block's start. 6e5 programs quick.",
   "Trusts: the reference interpreter in harness/c06/src/refint.rs; take/drop, stores, downlink/HTTP/timer handlers and cyclic trigger graphs are not generated.",
   "DESIGN.md §4 C06"),
 "C09": ("pure+fuzz", "exploration",
   "property-based testing: round-trip / fixed-point / differential (chunked vs one-shot) oracles over generated typed values, model values, grammar-rendered and mutated Recon text with exhaustive single cuts and random multi-cuts; libFuzzer target recon_parse for the thorough tier",
   "52 typed cells (built-ins, containers, derived Form types) through the three printers and back; arbitrary model values must reach a print/parse fixed point after one cycle; parser-produced values must round-trip kind-exactly (structural comparison, not Value::eq); RecognizerDecoder and WithLenRecognizerDecoder fed every single cut, byte-by-byte and random multi-cuts (also inside UTF-8 sequences) must give the one-shot result and consume the same bytes; arbitrary bytes never panic; hangs are detected by a progress rule, not by wall clock. 2.4e5 evaluations quick.",
   "Trusts: harness structural equality and the tape-driven Recon renderer in vgen::recon_text. Known finding excluded by signature: non-finite floats (1e400 parses to inf, which prints as `inf` = a text).",
   "DESIGN.md §4 C09"),
 "C15": ("pure+fuzz", "exploration",
   "property-based testing: bounded-exhaustive small-value pairs + generated re-formattings / near-miss mutations / invalid texts against the parsed-equality oracle, two hashers, and the real MapBackpressure queue; libFuzzer target compare_hash",
   "All ordered pairs of Recon texts of values with up to 4 nodes (1.08e5 pairs; 5 nodes / 8e6 pairs thorough) and 3.5e5 generated pairs (other printer, whitespace, separators, escapes vs literal characters, numeric respellings, near-miss structure edits, invalid texts): compare_recon_values(a,b) must equal Value::eq of the parsed values (plain string equality when either is invalid), equal-comparing texts must hash equally under two hashers, reflexive and symmetric; the same pairs pushed as keys through the real MapBackpressure must be merged exactly when equal.",
   "Trusts: Value::eq as the documented reference. Known findings excluded by signature: comparator false positive for values that differ only in nesting (summed sizes), newline as item separator in attribute bodies not recognised by the hasher, and their MapBackpressure consequences.",
   "DESIGN.md §4 C15"),
 "C04": ("rawlane+agentsim", "exploration",
   "stateful property-based testing with fault injection: generated op lists (remote envelopes, raw lane output, partial reads/writes, drops, lane failure, stop, timeouts) against the real agent runtime; session-grammar + byte-identity oracle; proptest shrinking",
   "The real agent runtime is driven by a harness agent that speaks the lane protocol directly, so lane output (events, sync events, synced, bad tags, closed channels) is generated, together with link/sync/unlink/command envelopes to existing and missing lanes from several remotes and faults at any op position. Per (remote, lane) the frames must form `linked (event|synced)* unlinked` sessions with every linked/synced caused by a request, lane-not-found answers, closure after lane failure / stop, and byte-identical event bodies (value: non-decreasing emission order; supply: exact FIFO). A second sub-check runs the same grammar on the real SimAgent. 1e5 cases quick.",
   "Trusts: the harness lane only emits sync responses for sync requests it has read (as a real lane does). One known finding is excluded by signature (a raw lane that closes its channels cleanly: read task and write task disagree on whether the lane exists; not reachable with AgentModel lanes).",
   "DESIGN.md §4 C04"),
 "C08": ("dlimpl", "exploration",
   "differential + model-based property testing: generated legal notification sequences fed to the stand-alone client downlink tasks and to agent-hosted downlinks, compared with a reference fold and with each other; proptest shrinking",
   "Generated legal notification sequences (linked, events incl. take/drop/clear, synced, unlinked, relink) x events_when_not_synced x terminate_on_unlinked x interleaved local writes are encoded with the real notification codec and fed to the real swimos_downlink value/map tasks and to downlinks hosted by a real agent; every callback (kind, key, old/new value, map argument, on_synced state) must equal a reference fold written from the statement, and the two implementations must produce the same normalised callback trace. Arbitrary-order sequences are checked for panics/hangs only. 1.4e5 cases quick.",
   "Trusts: the reference fold in harness/c08/src/model.rs; frames are delivered whole (a decoder defect that belongs to C09 makes byte-wise delivery of numbers unsound); event downlinks and corrupt frames are not covered.",
   "DESIGN.md §4 C08"),
 "C18": ("pure+fuzz", "exploration",
   "property-based testing: grammar-generated route patterns, parameter maps, pattern pairs/sets with synthesised URIs and malformed patterns against round-trip / determinism / ambiguity-implication oracles, incl. the real ServerBuilder route check; libFuzzer target for the thorough tier",
   "1.42e6 generated cases (quick): unapply(apply(p,m)) == m; matching is a function of the URI (unapply_str == unapply_route_uri . parse, repeatable, no empty binding); p and q both match some URI => are_ambiguous(p,q) in both orders, hence in every accepted set (also through the real ServerBuilder::build with and without introspection) a URI resolves to at most one route; injected structural faults are rejected and arbitrary text never panics.",
   "Trusts: `at most one agent definition` is evaluated as `at most one route-table entry matches` (Routes::find_route is private and returns the first match). Over-reporting of ambiguity is outside the statement.",
   "DESIGN.md §4 C18"),
 "C20": ("enum+agentsim+threads", "exploration",
   "model-based testing: bounded-exhaustive and random operation histories on the real Links structure with real uplink reporters against a reference relation, generated agent histories with introspection enabled, and a thread stress tier",
   "Every history of register/insert/remove/remove_remote/remove_lane/remove_all/count ops to depth 7 (2 lanes x 2 remotes) and 6 (3x3), plus 3e5 random histories to length 80, is executed on the real Links with real UplinkReporters: after every op each lane reader's link count must equal the reference relation, the aggregate the total, and the sum of snapshot event counts the number counted. The same is checked on the running SimAgent with NodeReporting under link/unlink/drop/prune/stop histories at quiescent checkpoints, and k threads counting against one snapshotting thread must lose nothing. pulse-lanes: 2e4 histories run the real NodeMetaAgent and LaneMetaAgent pulse lanes of swimos_introspection next to the real agent and runtime; the counts of all published pulses plus the remainder equal what was counted, and every pulse carries the link count of its moment.",
   "Trusts: the Links ops are used with the discipline of agent/task/mod.rs (listed in c20/src/links.rs); only SC interleavings of the Relaxed atomics are reachable on this hardware.",
   "DESIGN.md §4 C20"),
 "C01": ("agentsim", "exploration",
   "stateful property-based testing: generated op lists (protocol + schedule) against the real agent model + agent runtime in a harness-owned executor; history-invariant oracle; proptest shrinking",
   "2e5 (quick) generated operation lists drive the real AgentModel (value lanes with on_event trace) inside the real AgentRouteTask, polled by the harness in a paused, seeded current-thread runtime: 1-4 remotes with byte channels of 1..4096 bytes, generated lane buffer sizes, coop budgets and select seeds, commands from remotes and sets from handlers (programs, cascades). For every (remote, value lane) link session the received bodies must be values the lane held, in non-decreasing history order, and at quiescence the last one must be the lane's current value. Exploration of schedules and histories, not exhaustive.",
   "Trusts: the agent-side on_event trace as ground truth for the values a lane held (C06 checks the handler order independently); single-threaded op-level interleavings only; runtime HashMap iteration order is not pinned (oracles are schedule independent).",
   "DESIGN.md §4 C01"),
 "C19": ("pure", "exploration",
   "property-based testing: exhaustive pairs over a boundary pool + proptest random pairs/triples/sort vectors against algebraic-law oracles",
   "Every ordered pair of a 633-value boundary pool (all numeric kinds at their limits, the same number in several kinds, floats next to integers, texts, blobs, records) is checked for eq symmetry, eq=>hash (two hashers), cmp antisymmetry and cmp==Equal<=>eq, also lifted through Item/Slot/Attr/Record; random pairs, 3e5 triples (transitivity) and sort/BTreeMap/HashMap round trips on top. Exploration, not proof: the laws are universally quantified over an infinite domain, so a boundary-exhaustive + random search is the honest level.",
   "Trusts: the serialisable mirror type V <-> Value conversion in the harness; signatures listed in known_findings.txt are excluded cell by cell (int-kind x Float64 cmp==Equal-but-!=, floats within EPSILON).",
   "DESIGN.md §4 C19"),
}

NOT_YET = {}

def main():
    props = [json.loads(l) for l in open(os.path.join(ROOT, "properties.jsonl"))]
    checks = []
    na = []
    for p in props:
        pid = p["id"]
        if pid in CHECKS:
            eng, cat, tech, text, note, ref = CHECKS[pid]
            checks.append({
                "property_id": pid,
                "quick_cmd": f"./check {pid} quick",
                "thorough_cmd": f"./check {pid} thorough",
                "evidence_file": f"/verif/evidence/{pid}.json",
                "replay_cmd_template": "./check --replay {path}",
                "engine": eng,
                "level_claimed": {"category": cat, "text": text, "design_ref": ref},
                "level_note": note,
                "technique": tech,
            })
        else:
            na.append({"property_id": pid, "reason": NOT_YET.get(pid, "check not built yet in this round (planned: see DESIGN.md §4); no claim is made")})
    hooks_commits = []
    hf = os.path.join(ROOT, "tools", "hook_commits.txt")
    if os.path.exists(hf):
        hooks_commits = [l.split()[0] for l in open(hf) if l.strip()]
    m = {
        "version": 1,
        "setup_cmd": "cd /verif/harness && CARGO_NET_OFFLINE=true cargo build --offline --bins && cd /verif/fuzz && CARGO_NET_OFFLINE=true cargo +nightly fuzz build --fuzz-dir /verif/fuzz",
        "hooks": {
            "guard": "cargo feature `verif-hooks` (off by default) on swimos_runtime / swimos_server_app / swimos_remote",
            "enable": "the harness crates depend on the repo crates by path with features=[\"verif-hooks\"]; nothing is enabled in /repo's own workspace",
            "baseline_off_cmd": "cd /repo && cargo nextest run --workspace --no-fail-fast --test-threads 8 --offline || cargo test --workspace --no-fail-fast --offline",
            "source_commits": hooks_commits,
            "add_only": True,
        },
        "engines": [
            {"name": "agentsim", "path": "/verif/harness/vsim", "serves_properties": ["C01","C02","C03","C04","C05","C06","C14","C20"], "kind_free_text": "real AgentRouteTask (agent model + runtime) polled by hand in a paused seeded tokio runtime; harness remotes with partial reads/writes; generated op lists"},
            {"name": "rawlane", "path": "/verif/harness/c04", "serves_properties": ["C04"], "kind_free_text": "real agent runtime around a harness Agent that speaks the lane protocol; lane output is part of the generated op list"},
            {"name": "dlimpl", "path": "/verif/harness/c08", "serves_properties": ["C08"], "kind_free_text": "real client downlink tasks and agent-hosted downlinks fed identical generated notification sequences; reference fold"},
            {"name": "enum", "path": "/verif/harness/c12 c17 c20", "serves_properties": ["C12","C17","C20"], "kind_free_text": "bounded-exhaustive enumeration of op sequences on the real implementation with counting wakers / reference models"},
            {"name": "store", "path": "/verif/harness/c13", "serves_properties": ["C13"], "kind_free_text": "model-based histories on RocksDB (real directories, reopen, child-process SIGKILL) and the in-memory store"},
            {"name": "socket", "path": "/verif/harness/c11", "serves_properties": ["C11"], "kind_free_text": "two real RemoteTasks over an in-memory websocket, harness relay that records and injects frames; pure ReconEncoder/peeler round trip; MultiReader model check"},
            {"name": "dlrt", "path": "/verif/harness/c07", "serves_properties": ["C07"], "kind_free_text": "real Value/MapDownlinkRuntime polled by the harness; legal remote lane model and N consumers driven by a generated op list"},
            {"name": "fuzz", "path": "/verif/fuzz", "serves_properties": ["C09","C10","C15","C18"], "kind_free_text": "cargo-fuzz / libFuzzer targets (recon_parse, codec_stream, compare_hash, route_pattern) with the semantic oracle inside the target; quick replays the committed corpus + saved crash artifacts, thorough runs a seeded campaign (fresh temp corpus, crash => VIOLATION, timeout/oom => exit 2)"},
            {"name": "pure", "path": "/verif/harness/c09 c10 c15 c16 c18 c19 (+ vgen, vcommon)", "serves_properties": ["C09","C10","C15","C16","C18","C19"], "kind_free_text": "proptest TestRunner / bounded-exhaustive enumeration over pure functions with explicit oracles"},
        ],
        "checks": checks,
        "not_applicable": na,
        "notes": "All checks are property-based tests / fuzzers (proptest, bounded-exhaustive enumeration, libFuzzer). Exit 0 held, 1 violation, 2 inconclusive. Known findings: /verif/known_findings.txt.",
    }
    out = os.path.join(ROOT, "MANIFEST.json")
    json.dump(m, open(out, "w"), indent=1)
    try:
        import jsonschema
        jsonschema.validate(m, json.load(open("/root/.vp/MANIFEST.schema.json")))
        print("MANIFEST.json valid;", len(checks), "checks,", len(na), "not_applicable")
    except ImportError:
        print("jsonschema not importable; wrote MANIFEST.json unvalidated")

main()
