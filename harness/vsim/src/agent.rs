//! The general purpose simulated agent used by C01 C02 C03 C05 C14 C20: real lanes and stores (derive
//! macros + `#[lifecycle]`), lifecycle handlers that record every state change with the global
//! sequence number, and a control lane that runs harness-supplied programs (so that lane mutations
//! made by the agent's own handlers can be generated).

use parking_lot::Mutex;
use serde::{Deserialize, Serialize};
use std::collections::{BTreeMap, HashMap};
use std::sync::atomic::{AtomicU64, Ordering};
use std::sync::Arc;
use swimos::agent::agent_lifecycle::HandlerContext;
use swimos::agent::agent_model::AgentModel;
use swimos::agent::event_handler::{EventHandler, HandlerActionExt, Sequentially, UnitHandler};
use swimos::agent::lanes::{CommandLane, MapLane, SupplyLane, ValueLane};
use swimos::agent::stores::{MapStore, ValueStore};
use swimos::agent::{lifecycle, projections, AgentLaneModel};

pub const CASCADE_OFFSET: i64 = 1_000_000_000;

#[projections]
#[derive(AgentLaneModel)]
pub struct SimAgent {
    v0: ValueLane<i64>,
    v1: ValueLane<i64>,
    // Field names differ from the external lane names ("vt", "mt") on purpose: the agent keeps two
    // name tables (lifecycle/field names and external names) and both must be used consistently.
    #[item(transient, name = "vt")]
    vt_field: ValueLane<i64>,
    m0: MapLane<i32, i64>,
    m1: MapLane<String, i64, BTreeMap<String, i64>>,
    #[item(transient, name = "mt")]
    mt_field: MapLane<i32, i64>,
    #[item(name = "sup")]
    sup_field: SupplyLane<i64>,
    #[item(name = "cmd")]
    cmd_field: CommandLane<i64>,
    ctl: CommandLane<i32>,
    vs: ValueStore<i64>,
    ms: MapStore<i32, i64>,
}

pub const VALUE_LANES: [&str; 3] = ["v0", "v1", "vt"];
pub const MAP_LANES: [&str; 3] = ["m0", "m1", "mt"];

/// Key of `m1` for the integer `k` (m1 is keyed by strings; includes keys that need quoting).
pub fn m1_key(k: i32) -> String {
    match k.rem_euclid(6) {
        0 => "a".to_string(),
        1 => "b".to_string(),
        2 => "true".to_string(),
        3 => "with space".to_string(),
        4 => "".to_string(),
        _ => "q\"uote".to_string(),
    }
}

#[derive(Clone, Debug, PartialEq, Eq, Serialize, Deserialize)]
pub enum Act {
    SetV { lane: u8, v: i64 },
    Upd { map: u8, k: i32, v: i64 },
    Rem { map: u8, k: i32 },
    Clr { map: u8 },
    Supply { v: i64 },
    SetStore { v: i64 },
    UpdStore { k: i32, v: i64 },
    RemStore { k: i32 },
    ClrStore,
    /// `send_command` to lane `in` of node `/target/<n>`.
    Cmd { target: u8, v: i64 },
    Stop,
}

#[derive(Clone, Debug, PartialEq, Eq, Serialize, Deserialize)]
pub enum Key {
    I(i32),
    S(String),
}

#[derive(Clone, Debug, PartialEq, Eq, Serialize, Deserialize)]
pub enum Ev {
    Start,
    Stop,
    /// on_event of a value lane (the value the lane now holds).
    Value { lane: u8, v: i64 },
    /// on_set of a value lane.
    Set { lane: u8, prev: Option<i64>, v: i64 },
    Update { map: u8, k: Key, prev: Option<i64>, v: i64 },
    Remove { map: u8, k: Key, prev: i64 },
    Clear { map: u8, prev: Vec<(Key, i64)> },
    Command { v: i64 },
    ProgBegin { idx: i32 },
    ProgEnd { idx: i32 },
}

#[derive(Default, Clone, Debug, Serialize, Deserialize)]
pub struct AgentFlags {
    /// on_event(v0) sets v1 to value + CASCADE_OFFSET.
    pub cascade_value: bool,
    /// on_update(m0) updates mt with the same key and value + CASCADE_OFFSET.
    pub cascade_map: bool,
    /// When non-zero, on_set(v0) / on_set(v1) fail with a (non-fatal) effect error after recording the event
    /// for every value with `v.rem_euclid(fail_set_mod) == 1`. A lane change that arrives as a command is
    /// then merely logged by the agent ("rejected by the item") and the agent keeps running.
    #[serde(default)]
    pub fail_set_mod: u8,
}

#[derive(Debug)]
pub struct SetFailure;
impl std::fmt::Display for SetFailure {
    fn fmt(&self, f: &mut std::fmt::Formatter<'_>) -> std::fmt::Result {
        write!(f, "on_set failed on purpose")
    }
}
impl std::error::Error for SetFailure {}

pub fn set_fails(flags: &AgentFlags, v: i64) -> bool {
    flags.fail_set_mod != 0 && v.rem_euclid(flags.fail_set_mod as i64) == 1
}

pub struct Shared {
    pub clock: Arc<AtomicU64>,
    pub trace: Mutex<Vec<(u64, Ev)>>,
    pub programs: Mutex<Vec<Vec<Act>>>,
    pub flags: AgentFlags,
}

impl Shared {
    pub fn new(clock: Arc<AtomicU64>, programs: Vec<Vec<Act>>, flags: AgentFlags) -> Arc<Shared> {
        Arc::new(Shared {
            clock,
            trace: Mutex::new(vec![]),
            programs: Mutex::new(programs),
            flags,
        })
    }
    fn rec(&self, ev: Ev) {
        let s = self.clock.fetch_add(1, Ordering::SeqCst);
        self.trace.lock().push((s, ev));
    }
    pub fn trace(&self) -> Vec<(u64, Ev)> {
        self.trace.lock().clone()
    }
}

#[derive(Clone)]
pub struct SimLifecycle {
    pub shared: Arc<Shared>,
}

type Ctx = HandlerContext<SimAgent>;

fn act_handler(context: Ctx, act: Act) -> Box<dyn EventHandler<SimAgent> + Send + 'static> {
    match act {
        Act::SetV { lane, v } => match lane % 3 {
            0 => Box::new(context.set_value(SimAgent::V0, v)),
            1 => Box::new(context.set_value(SimAgent::V1, v)),
            _ => Box::new(context.set_value(SimAgent::VT_FIELD, v)),
        },
        Act::Upd { map, k, v } => match map % 3 {
            0 => Box::new(context.update(SimAgent::M0, k, v)),
            1 => Box::new(context.update(SimAgent::M1, m1_key(k), v)),
            _ => Box::new(context.update(SimAgent::MT_FIELD, k, v)),
        },
        Act::Rem { map, k } => match map % 3 {
            0 => Box::new(context.remove(SimAgent::M0, k)),
            1 => Box::new(context.remove(SimAgent::M1, m1_key(k))),
            _ => Box::new(context.remove(SimAgent::MT_FIELD, k)),
        },
        Act::Clr { map } => match map % 3 {
            0 => Box::new(context.clear(SimAgent::M0)),
            1 => Box::new(context.clear(SimAgent::M1)),
            _ => Box::new(context.clear(SimAgent::MT_FIELD)),
        },
        Act::Supply { v } => Box::new(context.supply(SimAgent::SUP_FIELD, v)),
        Act::SetStore { v } => Box::new(context.set_value(SimAgent::VS, v)),
        Act::UpdStore { k, v } => Box::new(context.update(SimAgent::MS, k, v)),
        Act::RemStore { k } => Box::new(context.remove(SimAgent::MS, k)),
        Act::ClrStore => Box::new(context.clear(SimAgent::MS)),
        Act::Cmd { target, v } => {
            let node = format!("/target/{}", target);
            Box::new(SendOwned { node, v })
        }
        Act::Stop => Box::new(context.stop()),
    }
}

/// `send_command` borrows its address strings; this owns them.
struct SendOwned {
    node: String,
    v: i64,
}

impl swimos::agent::event_handler::HandlerAction<SimAgent> for SendOwned {
    type Completion = ();

    fn step(
        &mut self,
        action_context: &mut swimos::agent::event_handler::ActionContext<SimAgent>,
        meta: swimos_agent::AgentMetadata,
        context: &SimAgent,
    ) -> swimos::agent::event_handler::StepResult<Self::Completion> {
        let hc: Ctx = HandlerContext::default();
        let mut h = hc.send_command(None, self.node.as_str(), "in", self.v);
        h.step(action_context, meta, context)
    }
}

#[lifecycle(SimAgent)]
impl SimLifecycle {
    #[on_start]
    fn on_start(&self, context: Ctx) -> impl EventHandler<SimAgent> {
        let sh = self.shared.clone();
        context.effect(move || sh.rec(Ev::Start))
    }

    #[on_stop]
    fn on_stop(&self, context: Ctx) -> impl EventHandler<SimAgent> {
        let sh = self.shared.clone();
        context.effect(move || sh.rec(Ev::Stop))
    }

    #[on_event(v0)]
    fn v0_event(&self, context: Ctx, value: &i64) -> impl EventHandler<SimAgent> {
        let sh = self.shared.clone();
        let v = *value;
        let cascade = sh.flags.cascade_value;
        context
            .effect(move || sh.rec(Ev::Value { lane: 0, v }))
            .followed_by(
                if cascade {
                    Some(context.set_value(SimAgent::V1, v.wrapping_add(CASCADE_OFFSET)))
                } else {
                    None
                }
                .discard(),
            )
    }

    #[on_set(v0)]
    fn v0_set(&self, context: Ctx, value: &i64, prev: Option<i64>) -> impl EventHandler<SimAgent> {
        let sh = self.shared.clone();
        let v = *value;
        let fails = set_fails(&sh.flags, v);
        context
            .effect(move || sh.rec(Ev::Set { lane: 0, prev, v }))
            .followed_by(
                if fails {
                    Some(context.fail::<(), SetFailure>(SetFailure))
                } else {
                    None
                }
                .discard(),
            )
    }

    #[on_event(v1)]
    fn v1_event(&self, context: Ctx, value: &i64) -> impl EventHandler<SimAgent> {
        let sh = self.shared.clone();
        let v = *value;
        context.effect(move || sh.rec(Ev::Value { lane: 1, v }))
    }

    #[on_set(v1)]
    fn v1_set(&self, context: Ctx, value: &i64, prev: Option<i64>) -> impl EventHandler<SimAgent> {
        let sh = self.shared.clone();
        let v = *value;
        let fails = set_fails(&sh.flags, v);
        context
            .effect(move || sh.rec(Ev::Set { lane: 1, prev, v }))
            .followed_by(
                if fails {
                    Some(context.fail::<(), SetFailure>(SetFailure))
                } else {
                    None
                }
                .discard(),
            )
    }

    #[on_event(vt_field)]
    fn vt_event(&self, context: Ctx, value: &i64) -> impl EventHandler<SimAgent> {
        let sh = self.shared.clone();
        let v = *value;
        context.effect(move || sh.rec(Ev::Value { lane: 2, v }))
    }

    #[on_update(m0)]
    fn m0_update(
        &self,
        context: Ctx,
        _map: &HashMap<i32, i64>,
        key: i32,
        prev: Option<i64>,
        new_value: &i64,
    ) -> impl EventHandler<SimAgent> {
        let sh = self.shared.clone();
        let v = *new_value;
        let cascade = sh.flags.cascade_map;
        context
            .effect(move || sh.rec(Ev::Update { map: 0, k: Key::I(key), prev, v }))
            .followed_by(
                if cascade {
                    Some(context.update(SimAgent::MT_FIELD, key, v.wrapping_add(CASCADE_OFFSET)))
                } else {
                    None
                }
                .discard(),
            )
    }

    #[on_remove(m0)]
    fn m0_remove(
        &self,
        context: Ctx,
        _map: &HashMap<i32, i64>,
        key: i32,
        prev: i64,
    ) -> impl EventHandler<SimAgent> {
        let sh = self.shared.clone();
        context.effect(move || sh.rec(Ev::Remove { map: 0, k: Key::I(key), prev }))
    }

    #[on_clear(m0)]
    fn m0_clear(&self, context: Ctx, prev: HashMap<i32, i64>) -> impl EventHandler<SimAgent> {
        let sh = self.shared.clone();
        let mut p: Vec<(Key, i64)> = prev.into_iter().map(|(k, v)| (Key::I(k), v)).collect();
        p.sort_by(|a, b| format!("{:?}", a.0).cmp(&format!("{:?}", b.0)));
        context.effect(move || sh.rec(Ev::Clear { map: 0, prev: p }))
    }

    #[on_update(m1)]
    fn m1_update(
        &self,
        context: Ctx,
        _map: &BTreeMap<String, i64>,
        key: String,
        prev: Option<i64>,
        new_value: &i64,
    ) -> impl EventHandler<SimAgent> {
        let sh = self.shared.clone();
        let v = *new_value;
        context.effect(move || sh.rec(Ev::Update { map: 1, k: Key::S(key), prev, v }))
    }

    #[on_remove(m1)]
    fn m1_remove(
        &self,
        context: Ctx,
        _map: &BTreeMap<String, i64>,
        key: String,
        prev: i64,
    ) -> impl EventHandler<SimAgent> {
        let sh = self.shared.clone();
        context.effect(move || sh.rec(Ev::Remove { map: 1, k: Key::S(key), prev }))
    }

    #[on_clear(m1)]
    fn m1_clear(&self, context: Ctx, prev: BTreeMap<String, i64>) -> impl EventHandler<SimAgent> {
        let sh = self.shared.clone();
        let p: Vec<(Key, i64)> = prev.into_iter().map(|(k, v)| (Key::S(k), v)).collect();
        context.effect(move || sh.rec(Ev::Clear { map: 1, prev: p }))
    }

    #[on_update(mt_field)]
    fn mt_update(
        &self,
        context: Ctx,
        _map: &HashMap<i32, i64>,
        key: i32,
        prev: Option<i64>,
        new_value: &i64,
    ) -> impl EventHandler<SimAgent> {
        let sh = self.shared.clone();
        let v = *new_value;
        context.effect(move || sh.rec(Ev::Update { map: 2, k: Key::I(key), prev, v }))
    }

    #[on_remove(mt_field)]
    fn mt_remove(
        &self,
        context: Ctx,
        _map: &HashMap<i32, i64>,
        key: i32,
        prev: i64,
    ) -> impl EventHandler<SimAgent> {
        let sh = self.shared.clone();
        context.effect(move || sh.rec(Ev::Remove { map: 2, k: Key::I(key), prev }))
    }

    #[on_clear(mt_field)]
    fn mt_clear(&self, context: Ctx, prev: HashMap<i32, i64>) -> impl EventHandler<SimAgent> {
        let sh = self.shared.clone();
        let mut p: Vec<(Key, i64)> = prev.into_iter().map(|(k, v)| (Key::I(k), v)).collect();
        p.sort_by(|a, b| format!("{:?}", a.0).cmp(&format!("{:?}", b.0)));
        context.effect(move || sh.rec(Ev::Clear { map: 2, prev: p }))
    }

    #[on_command(cmd_field)]
    fn on_cmd(&self, context: Ctx, value: &i64) -> impl EventHandler<SimAgent> {
        let sh = self.shared.clone();
        let v = *value;
        context.effect(move || sh.rec(Ev::Command { v }))
    }

    #[on_command(ctl)]
    fn on_ctl(&self, context: Ctx, value: &i32) -> impl EventHandler<SimAgent> {
        let sh = self.shared.clone();
        let idx = *value;
        let prog: Vec<Act> = sh
            .programs
            .lock()
            .get(idx.max(0) as usize)
            .cloned()
            .unwrap_or_default();
        let (sh1, sh2) = (sh.clone(), sh);
        let steps: Vec<_> = prog.into_iter().map(|a| act_handler(context, a)).collect();
        context
            .effect(move || sh1.rec(Ev::ProgBegin { idx }))
            .followed_by(Sequentially::new(steps))
            .followed_by(context.effect(move || sh2.rec(Ev::ProgEnd { idx })))
    }
}

pub fn make_agent(shared: Arc<Shared>) -> impl swimos::api::Agent + Send + 'static {
    let lifecycle = SimLifecycle { shared };
    AgentModel::new(SimAgent::default, lifecycle.into_lifecycle())
}

#[allow(dead_code)]
fn _unit() -> UnitHandler {
    UnitHandler::default()
}
