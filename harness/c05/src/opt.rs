//! Sub-check `optional-values`: persistent lanes whose values can serialise to the EMPTY byte string
//! (`Option<i64>`: `None` is Recon extant = no bytes): a map lane `m0: MapLane<i32, Option<i64>>` and a value
//! lane `v1: ValueLane<Option<i64>>`. An entry updated to `None` is a legal entry of the map (the key is
//! present) and must come back after a restart; a value lane set to `None` after `Some(x)` must come back as
//! `None`. Histories set / update to `None` often; same cut machinery + restart; the restart rule compares
//! `on_start` and a sync by a new remote with the fold of the applied store operations.

use crate::store::{Call, Entry, Fault, RecStore, SharedData};
use crate::{Cut, CutSel, Runner};
use parking_lot::Mutex;
use proptest::prelude::*;
use serde::{Deserialize, Serialize};
use std::collections::{BTreeMap, BTreeSet, HashMap};
use std::sync::atomic::{AtomicU64, Ordering};
use std::sync::Arc;
use swimos::agent::agent_lifecycle::HandlerContext;
use swimos::agent::agent_model::AgentModel;
use swimos::agent::event_handler::{ActionContext, EventHandler, HandlerAction, StepResult};
use swimos::agent::lanes::{MapLane, ValueLane};
use swimos::agent::{lifecycle, projections, AgentLaneModel};
use swimos_agent::AgentMetadata;
use swimos_agent_protocol::MapMessage;
use swimos_recon::parser::parse_recognize;
use vcommon::{pick_index, Bulk, Verdict};
use vsim::{arb_sched_op, arb_small_cap, block_on_paused, Frame, FrameKind, Op, Req, Sim, SimParams};

#[projections]
#[derive(AgentLaneModel)]
pub struct OptAgent {
    m0: MapLane<i32, Option<i64>>,
    v1: ValueLane<Option<i64>>,
}

type MapState = BTreeMap<i32, Option<i64>>;

pub struct OShared {
    clock: Arc<AtomicU64>,
    /// (seq, map, value) recorded by on_start.
    start: Mutex<Option<(u64, MapState, Option<i64>)>>,
    updates_to_none: AtomicU64,
}

#[derive(Clone)]
pub struct OptLifecycle {
    shared: Arc<OShared>,
}

struct StartSnap {
    shared: Arc<OShared>,
    done: bool,
}

impl HandlerAction<OptAgent> for StartSnap {
    type Completion = ();
    fn step(&mut self, _a: &mut ActionContext<OptAgent>, _m: AgentMetadata, agent: &OptAgent) -> StepResult<()> {
        if self.done {
            return StepResult::after_done();
        }
        self.done = true;
        let s = self.shared.clock.fetch_add(1, Ordering::SeqCst);
        let map = agent.m0.get_map(|m: &HashMap<i32, Option<i64>>| m.iter().map(|(k, v)| (*k, *v)).collect());
        *self.shared.start.lock() = Some((s, map, agent.v1.read(|v| *v)));
        StepResult::done(())
    }
}

#[lifecycle(OptAgent)]
impl OptLifecycle {
    #[on_start]
    fn on_start(&self, _context: HandlerContext<OptAgent>) -> impl EventHandler<OptAgent> {
        StartSnap { shared: self.shared.clone(), done: false }
    }

    #[on_update(m0)]
    fn m0_update(
        &self,
        context: HandlerContext<OptAgent>,
        _map: &HashMap<i32, Option<i64>>,
        _key: i32,
        _prev: Option<Option<i64>>,
        new_value: &Option<i64>,
    ) -> impl EventHandler<OptAgent> {
        let sh = self.shared.clone();
        let none = new_value.is_none();
        context.effect(move || {
            if none {
                sh.updates_to_none.fetch_add(1, Ordering::SeqCst);
            }
        })
    }
}

fn make_opt(shared: Arc<OShared>) -> impl swimos::api::Agent + Send + 'static {
    AgentModel::new(OptAgent::default, OptLifecycle { shared }.into_lifecycle())
}

#[derive(Clone, Debug, Serialize, Deserialize)]
pub struct OptCase {
    params: SimParams,
    ops: Vec<Op>,
    cuts: Vec<CutSel>,
}

pub fn arb_opt(max_ops: usize) -> impl Strategy<Value = OptCase> {
    // lane 3 = m0, lane 1 = v1 (names shared with the big agent's lane table)
    let val = prop_oneof![2 => Just(String::new()), 3 => (1i64..50).prop_map(|x| x.to_string())];
    let op = prop_oneof![
        6 => (any::<u16>(), 0i32..4, val.clone()).prop_map(|(r, k, v)| Op::Cmd {
            r,
            lane: 3,
            body: if v.is_empty() { format!("@update(key:{})", k) } else { format!("@update(key:{}) {}", k, v) },
        }),
        2 => (any::<u16>(), 0i32..4).prop_map(|(r, k)| Op::Cmd { r, lane: 3, body: format!("@remove(key:{})", k) }),
        1 => any::<u16>().prop_map(|r| Op::Cmd { r, lane: 3, body: "@clear".to_string() }),
        4 => (any::<u16>(), val).prop_map(|(r, v)| Op::Cmd { r, lane: 1, body: v }),
        1 => (any::<u16>(), prop_oneof![Just(1u8), Just(3)]).prop_map(|(r, lane)| Op::Sync { r, lane }),
        1 => (arb_small_cap(), arb_small_cap()).prop_map(|(in_cap, out_cap)| Op::Attach { in_cap, out_cap }),
        1 => (any::<u16>(), prop_oneof![Just(1u8), Just(3)]).prop_map(|(r, lane)| Op::Link { r, lane }),
        5 => arb_sched_op(),
    ];
    (crate::arb_params(), proptest::collection::vec(op, 3..max_ops), proptest::collection::vec(crate::arb_cutsel(), 3..=3)).prop_map(
        |(params, ops, cuts)| {
            let mut all = vec![Op::Attach { in_cap: 4096, out_cap: 32 }, Op::Link { r: 0, lane: 3 }, Op::Link { r: 0, lane: 1 }];
            all.extend(ops);
            all.push(Op::Settle);
            OptCase { params, ops: all, cuts }
        },
    )
}

struct OptObs {
    cut: Cut,
    fired: bool,
    result1: Option<Result<(), String>>,
    frames1: usize,
    log: Vec<Entry>,
    log_end1: usize,
    map_id: Option<u64>,
    val_id: Option<u64>,
    counts: (u64, usize, u64),
    updates_to_none: u64,
    result2: Option<Result<(), String>>,
    start2: Option<(u64, MapState, Option<i64>)>,
    sync_map: Result<MapState, String>,
    sync_val: Result<Option<i64>, String>,
}

fn parse_opt(b: &[u8]) -> Option<Option<i64>> {
    let s = std::str::from_utf8(b).ok()?;
    parse_recognize::<Option<i64>>(s, false).ok()
}

fn execute(case: &OptCase, cut: Cut) -> OptObs {
    block_on_paused(case.params.seed, async {
        let clock = Arc::new(AtomicU64::new(1));
        let data: SharedData = SharedData::default();
        let shared = Arc::new(OShared { clock: clock.clone(), start: Mutex::new(None), updates_to_none: AtomicU64::new(0) });
        let agent = make_opt(shared.clone());
        let mut sim = Sim::start_with_store(&agent, &case.params, clock.clone(), None, RecStore::new(data.clone(), clock.clone(), 1));
        sim.run_until_idle();
        let base_mut = data.lock().mutations;
        match cut {
            Cut::StoreCall { n, after } => data.lock().fault = Some(Fault { at: base_mut + n, after_apply: after, error: false }),
            Cut::StoreError(n) => data.lock().fault = Some(Fault { at: base_mut + n, after_apply: false, error: true }),
            _ => {}
        }
        let polls0 = sim.polls;
        let mut run = Runner { sim, cut, frames: 0, polls0, hit: false };
        for (j, op) in case.ops.iter().enumerate() {
            if cut == Cut::Stop(j) {
                run.sim.stop();
                run.settle();
                break;
            }
            run.apply(op).await;
            if run.hit {
                break;
            }
        }
        let fired = match cut {
            Cut::End | Cut::Stop(_) => true,
            Cut::StoreError(_) => data.lock().fired,
            _ => run.hit,
        };
        let result1 = if run.hit { None } else { run.sim.result.clone() };
        let counts = (data.lock().mutations - base_mut, run.frames, run.sim.polls - polls0);
        let frames1 = run.frames;
        run.sim.crash();
        drop(run);
        drop(agent);
        let log_end1 = {
            let mut g = data.lock();
            g.fault = None;
            g.log.len()
        };
        tokio::task::yield_now().await;
        // restart
        let shared2 = Arc::new(OShared { clock: clock.clone(), start: Mutex::new(None), updates_to_none: AtomicU64::new(0) });
        let agent2 = make_opt(shared2.clone());
        let mut sim2 = Sim::start_with_store(&agent2, &case.params, clock.clone(), None, RecStore::new(data.clone(), clock.clone(), 2));
        sim2.run_until_idle();
        let r = sim2.attach(4096, 4096);
        sim2.remotes[r].send("m0", Req::Sync);
        sim2.remotes[r].send("v1", Req::Sync);
        sim2.settle();
        let frames: Vec<Frame> = sim2.remotes[r].frames.clone();
        let mut sync_map: Result<MapState, String> = Err("no synced frame".into());
        let mut m = MapState::new();
        for f in frames.iter().filter(|f| f.lane == "m0") {
            match &f.kind {
                FrameKind::Event(b) => {
                    let s = String::from_utf8_lossy(b).to_string();
                    match parse_recognize::<MapMessage<i32, Option<i64>>>(s.as_str(), false) {
                        Ok(MapMessage::Update { key, value }) => {
                            m.insert(key, value);
                        }
                        Ok(MapMessage::Remove { key }) => {
                            m.remove(&key);
                        }
                        Ok(MapMessage::Clear) => m.clear(),
                        other => {
                            sync_map = Err(format!("undecodable map event {:?}: {:?}", s, other));
                            break;
                        }
                    }
                }
                FrameKind::Synced => {
                    sync_map = Ok(m.clone());
                    break;
                }
                _ => {}
            }
        }
        let mut sync_val: Result<Option<i64>, String> = Err("no synced frame".into());
        let mut last: Option<Option<i64>> = None;
        for f in frames.iter().filter(|f| f.lane == "v1") {
            match &f.kind {
                FrameKind::Event(b) => last = parse_opt(b),
                FrameKind::Synced => {
                    sync_val = last.ok_or_else(|| "synced without a value".to_string());
                    break;
                }
                _ => {}
            }
        }
        let result2 = sim2.result.clone();
        drop(sim2);
        let start2 = shared2.start.lock().clone();
        let g = data.lock();
        OptObs {
            cut,
            fired,
            result1,
            frames1,
            log: g.log.clone(),
            log_end1,
            map_id: g.ids.get("m0").copied(),
            val_id: g.ids.get("v1").copied(),
            counts,
            updates_to_none: shared.updates_to_none.load(Ordering::SeqCst),
            result2,
            start2,
            sync_map,
            sync_val,
        }
    })
}

fn judge(obs: &OptObs, v: &mut Verdict) -> (bool, Vec<&'static str>) {
    let mut classes = vec![];
    let ctx = format!("[cut {:?} fired={}]", obs.cut, obs.fired);
    if let Some(Err(e)) = &obs.result1 {
        if !(matches!(obs.cut, Cut::StoreError(_)) && obs.fired) {
            v.fail("opt:agent-failed", format!("{} the agent task ended with an error: {}", ctx, e));
        }
    }
    if let Some(r) = &obs.result2 {
        v.fail("opt:restart:agent-ended", format!("{} the restarted agent ended: {:?}", ctx, r));
        return (false, classes);
    }
    // fold of the applied operations before the cut
    let mut map = MapState::new();
    let mut val: Option<i64> = None;
    let mut ops_shown = vec![];
    let mut applied = 0usize;
    for e in obs.log[..obs.log_end1].iter().filter(|e| e.applied) {
        match &e.call {
            Call::UpdateMap(id, k, b) if Some(*id) == obs.map_id => {
                let key = std::str::from_utf8(k).ok().and_then(|s| parse_recognize::<i32>(s, false).ok());
                match (key, parse_opt(b)) {
                    (Some(k), Some(x)) => {
                        map.insert(k, x);
                        applied += 1;
                        ops_shown.push(format!("upd({},{:?})", k, x));
                    }
                    _ => v.fail("opt:store-call-undecodable", format!("{} update_map({:?}, {:?})", ctx, k, b)),
                }
            }
            Call::RemoveMap(id, k) if Some(*id) == obs.map_id => {
                if let Some(k) = std::str::from_utf8(k).ok().and_then(|s| parse_recognize::<i32>(s, false).ok()) {
                    map.remove(&k);
                    applied += 1;
                    ops_shown.push(format!("rem({})", k));
                }
            }
            Call::ClearMap(id) if Some(*id) == obs.map_id => {
                map.clear();
                applied += 1;
                ops_shown.push("clr".to_string());
            }
            Call::PutValue(id, b) if Some(*id) == obs.val_id => match parse_opt(b) {
                Some(x) => {
                    val = x;
                    applied += 1;
                    ops_shown.push(format!("put({:?})", x));
                }
                None => v.fail("opt:store-call-undecodable", format!("{} put_value({:?})", ctx, b)),
            },
            _ => {}
        }
    }
    match &obs.start2 {
        None => v.fail("opt:restart:no-on-start", format!("{} on_start of the restarted agent did not run", ctx)),
        Some((_, m, x)) => {
            if *m != map {
                v.fail(
                    "opt:restart:map-lane/on_start",
                    format!("{} map lane m0 restarted as {:?} but the store operations handed over imply {:?}; operations: {:?}", ctx, m, map, ops_shown),
                );
            }
            if *x != val {
                v.fail(
                    "opt:restart:value-lane/on_start",
                    format!("{} value lane v1 restarted as {:?} but the store operations handed over imply {:?}; operations: {:?}", ctx, x, val, ops_shown),
                );
            }
        }
    }
    match &obs.sync_map {
        Ok(m) if *m == map => {}
        other => v.fail(
            "opt:restart:map-lane/sync",
            format!("{} the sync of m0 after the restart shows {:?} but the store operations handed over imply {:?}; operations: {:?}", ctx, other, map, ops_shown),
        ),
    }
    match &obs.sync_val {
        Ok(x) if *x == val => {}
        other => v.fail(
            "opt:restart:value-lane/sync",
            format!("{} the sync of v1 after the restart shows {:?} but the store operations handed over imply {:?}; operations: {:?}", ctx, other, val, ops_shown),
        ),
    }
    if map.values().any(|x| x.is_none()) {
        classes.push("restored-map-has-entry-with-empty-value");
    }
    if obs.updates_to_none > 0 {
        classes.push("entry-updated-to-none");
    }
    classes.push(match (obs.fired, obs.cut) {
        (false, _) => "cut:not-reached(end)",
        (_, Cut::End) => "cut:end",
        (_, Cut::StoreCall { .. }) => "cut:store-call",
        (_, Cut::StoreError(_)) => "cut:store-call-returns-error",
        (_, Cut::Poll(_)) => "cut:poll",
        (_, Cut::Frame(_)) => "cut:frame",
        (_, Cut::Stop(_)) => "cut:stop",
        (_, Cut::Timeout) => "cut:timeout",
    });
    (applied >= 3 && obs.frames1 >= 1, classes)
}

pub fn check(case: &OptCase) -> Verdict {
    let mut v = Verdict::new();
    let mut bulk = Bulk::default();
    let mut classes: BTreeMap<&'static str, u64> = Default::default();
    let reference = execute(case, Cut::End);
    let (n_store, n_frames, n_polls) = reference.counts;
    let mut cuts: Vec<Cut> = vec![];
    for s in &case.cuts {
        cuts.push(match s {
            CutSel::StoreCall { i, after } if n_store > 0 => Cut::StoreCall { n: pick_index(*i, n_store as usize) as u64, after: *after },
            CutSel::StoreError { i } if n_store > 0 => Cut::StoreError(pick_index(*i, n_store as usize) as u64),
            CutSel::Poll { i } if n_polls > 0 => Cut::Poll(pick_index(*i, n_polls as usize) as u64),
            CutSel::Frame { i } if n_frames > 0 => Cut::Frame(pick_index(*i, n_frames)),
            CutSel::Stop { i } => Cut::Stop(pick_index(*i, case.ops.len()) + 1),
            _ => continue,
        });
    }
    let mut done: BTreeSet<Cut> = BTreeSet::new();
    done.insert(Cut::End);
    let mut runs = vec![reference];
    for c in cuts {
        if done.insert(c) {
            runs.push(execute(case, c));
            vcommon::tick();
        }
    }
    for obs in &runs {
        let (nt, cls) = judge(obs, &mut v);
        bulk.evaluations += 1;
        if nt {
            bulk.distinct_nontrivial += 1;
        }
        for c in cls {
            *classes.entry(c).or_default() += 1;
        }
    }
    bulk.classes = classes.into_iter().collect();
    v.bulk = Some(bulk);
    v
}
