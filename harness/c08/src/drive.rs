//! Drivers: the two systems under test behind one interface, fed through real byte channels.

use crate::model::{Cb, Ctl, DOp, Kind, Snap, Write};
use bytes::BytesMut;
use futures::future::BoxFuture;
use futures::FutureExt;
use parking_lot::Mutex;
use std::collections::{BTreeMap, VecDeque};
use std::num::NonZeroUsize;
use std::pin::Pin;
use std::sync::atomic::{AtomicBool, AtomicUsize, Ordering};
use std::sync::Arc;
use std::task::{Context, Poll, Wake, Waker};
use swimos_agent_protocol::MapOperation;
use swimos_api::address::Address;
use swimos_api::error::DownlinkTaskError;
use swimos_client_api::{Downlink, DownlinkConfig};
use swimos_downlink::lifecycle::{BasicMapDownlinkLifecycle, BasicValueDownlinkLifecycle};
use swimos_downlink::{DownlinkTask, MapDownlinkModel, ValueDownlinkModel, ValueDownlinkSet};
use swimos_utilities::byte_channel::{byte_channel, BudgetedFutureExt, ByteReader, ByteWriter};
use tokio::io::{AsyncRead, AsyncWrite, ReadBuf};
use tokio::sync::mpsc;
use vsim::harness_op;

/// Recorder shared with the lifecycles: every callback is tagged with the index of the op that
/// was being delivered (exact only when the driver settles after every op).
pub struct Rec {
    pub cur: AtomicUsize,
    pub trace: Mutex<Vec<(usize, Cb)>>,
    /// User code dropping every write handle from inside a lifecycle callback: when the trace
    /// reaches this length the hook (installed by the system under test) is run once.
    drop_at: Option<usize>,
    hook: Mutex<Option<Box<dyn FnMut() + Send>>>,
}

impl Rec {
    pub fn new(drop_at: Option<usize>) -> Arc<Rec> {
        Arc::new(Rec {
            cur: AtomicUsize::new(0),
            trace: Mutex::new(vec![]),
            drop_at,
            hook: Mutex::new(None),
        })
    }
    pub fn set_hook(&self, f: impl FnMut() + Send + 'static) {
        *self.hook.lock() = Some(Box::new(f));
    }
    pub fn rec(&self, cb: Cb) {
        let i = self.cur.load(Ordering::SeqCst);
        let len = {
            let mut t = self.trace.lock();
            t.push((i, cb));
            t.len()
        };
        if self.drop_at == Some(len) {
            let hook = self.hook.lock().take();
            if let Some(mut h) = hook {
                h();
            }
        }
    }
}

pub fn snap_of<'a>(it: impl Iterator<Item = (&'a i32, &'a i32)>) -> Snap {
    let m: BTreeMap<i32, i32> = it.map(|(k, v)| (*k, *v)).collect();
    m.into_iter().collect()
}

struct Flag(AtomicBool);
impl Wake for Flag {
    fn wake(self: Arc<Self>) {
        self.0.store(true, Ordering::SeqCst);
    }
    fn wake_by_ref(self: &Arc<Self>) {
        self.0.store(true, Ordering::SeqCst);
    }
}

pub fn nz(n: usize) -> NonZeroUsize {
    NonZeroUsize::new(n.max(1)).unwrap()
}

#[derive(Clone, Copy, Debug)]
pub struct Cfg {
    pub kind: Kind,
    pub ewns: bool,
    pub term: bool,
    pub seed: u64,
    pub budget: usize,
    pub in_cap: usize,
    /// Drop every write handle from inside the n-th lifecycle callback (1-based).
    pub drop_at: Option<usize>,
}

/// A system under test.
pub trait Sys {
    /// Poll until idle. Returns the number of polls; `Err` on a livelock.
    fn poll_idle(&mut self) -> Result<usize, String>;
    /// The harness end of the downlink's input channel (`None` once closed).
    fn writer(&mut self) -> &mut Option<ByteWriter>;
    /// Discard whatever the downlink wrote to its output; returns the number of bytes.
    fn drain_out(&mut self) -> usize;
    /// Perform a local write through the downlink's handle (op index `idx`).
    fn local_write(&mut self, idx: usize, w: &Write);
    /// Perform a control action (op index `idx`).
    fn control(&mut self, idx: usize, c: &Ctl);
    /// `Some` once the task / agent has finished.
    fn finished(&self) -> Option<Result<(), String>>;
}

const OUT_CAP: usize = 1 << 16;
const MAX_ROUNDS: usize = 100_000;

// ------------------------------------------------------------------------------------------------
// stand-alone client downlinks
// ------------------------------------------------------------------------------------------------

pub struct ClientSys {
    fut: Option<BoxFuture<'static, Result<(), DownlinkTaskError>>>,
    flag: Arc<Flag>,
    waker: Waker,
    in_tx: Option<ByteWriter>,
    out_rx: Option<ByteReader>,
    senders: Arc<Mutex<Senders>>,
    result: Option<Result<(), String>>,
    cfg: Cfg,
    rec: Arc<Rec>,
}

#[derive(Default)]
struct Senders {
    value_tx: Option<mpsc::Sender<ValueDownlinkSet<i32>>>,
    map_tx: Option<mpsc::Sender<MapOperation<i32, i32>>>,
}

impl ClientSys {
    pub fn new(cfg: &Cfg, rec: Arc<Rec>) -> ClientSys {
        let rec2 = rec.clone();
        let (in_tx, in_rx) = byte_channel(nz(cfg.in_cap));
        let (out_tx, out_rx) = byte_channel(nz(OUT_CAP));
        let config = DownlinkConfig {
            events_when_not_synced: cfg.ewns,
            terminate_on_unlinked: cfg.term,
            buffer_size: nz(64),
        };
        let path = Address::text(None, "/remote", "lane");
        let (fut, value_tx, map_tx) = match cfg.kind {
            Kind::Value => {
                let (tx, rx) = mpsc::channel::<ValueDownlinkSet<i32>>(64);
                let lc = BasicValueDownlinkLifecycle::<i32>::default()
                    .with(rec)
                    .on_linked_blocking(|r| r.rec(Cb::Linked))
                    .on_synced_blocking(|r, v| r.rec(Cb::SyncedV(*v)))
                    .on_event_blocking(|r, v| r.rec(Cb::Event(*v)))
                    .on_set_blocking(|r, prev, new| r.rec(Cb::Set { prev: prev.copied(), new: *new }))
                    .on_unlinked_blocking(|r| r.rec(Cb::Unlinked));
                let task = DownlinkTask::new(ValueDownlinkModel::new(rx, lc));
                (task.run(path, config, in_rx, out_tx), Some(tx), None)
            }
            Kind::Map => {
                let (tx, rx) = mpsc::channel::<MapOperation<i32, i32>>(64);
                let lc = BasicMapDownlinkLifecycle::<i32, i32>::default()
                    .with(rec)
                    .on_linked_blocking(|r| r.rec(Cb::Linked))
                    .on_synced_blocking(|r, map| r.rec(Cb::SyncedM(snap_of(map.iter()))))
                    .on_update_blocking(|r, key, map, prev, new| {
                        r.rec(Cb::Update { key, map: snap_of(map.iter()), prev, new: *new })
                    })
                    .on_removed_blocking(|r, key, map, prev| {
                        r.rec(Cb::Remove { key, map: snap_of(map.iter()), prev })
                    })
                    .on_clear_blocking(|r, old| r.rec(Cb::Clear { old: snap_of(old.iter()) }))
                    .on_unlink_blocking(|r| r.rec(Cb::Unlinked));
                let task = DownlinkTask::new(MapDownlinkModel::new(rx, lc));
                (task.run(path, config, in_rx, out_tx), None, Some(tx))
            }
        };
        let fut = fut.with_budget(nz(cfg.budget)).boxed();
        let flag = Arc::new(Flag(AtomicBool::new(true)));
        let waker = Waker::from(flag.clone());
        let senders = Arc::new(Mutex::new(Senders { value_tx, map_tx }));
        let s2 = senders.clone();
        rec2.set_hook(move || *s2.lock() = Senders::default());
        ClientSys {
            fut: Some(fut),
            flag,
            waker,
            in_tx: Some(in_tx),
            out_rx: Some(out_rx),
            senders,
            result: None,
            cfg: *cfg,
            rec: rec2,
        }
    }
}

impl Sys for ClientSys {
    fn poll_idle(&mut self) -> Result<usize, String> {
        let mut n = 0;
        while let Some(fut) = self.fut.as_mut() {
            if !self.flag.0.swap(false, Ordering::SeqCst) {
                break;
            }
            n += 1;
            if n > MAX_ROUNDS {
                return Err("client downlink task did not become idle".into());
            }
            let mut cx = Context::from_waker(&self.waker);
            if let Poll::Ready(r) = fut.as_mut().poll(&mut cx) {
                self.result = Some(r.map_err(|e| format!("{:?}", e)));
                self.fut = None;
                // the task owned the reader; the harness writer is now useless
                self.in_tx = None;
            }
        }
        Ok(n)
    }

    fn writer(&mut self) -> &mut Option<ByteWriter> {
        &mut self.in_tx
    }

    fn drain_out(&mut self) -> usize {
        drain(&mut self.out_rx)
    }

    fn local_write(&mut self, _idx: usize, w: &Write) {
        // what `ValueDownlinkView::set` / `MapDownlinkHandle::{update,remove,clear}` do: send on
        // the model's channel (never full here: the harness settles after every write)
        match w {
            Write::Set(v) => {
                if let Some(tx) = &self.senders.lock().value_tx {
                    let _ = tx.try_send(ValueDownlinkSet { to: *v });
                }
            }
            Write::Upd(k, v) => {
                if let Some(tx) = &self.senders.lock().map_tx {
                    let _ = tx.try_send(MapOperation::Update { key: *k, value: *v });
                }
            }
            Write::Rem(k) => {
                if let Some(tx) = &self.senders.lock().map_tx {
                    let _ = tx.try_send(MapOperation::Remove { key: *k });
                }
            }
            Write::Clear => {
                if let Some(tx) = &self.senders.lock().map_tx {
                    let _ = tx.try_send(MapOperation::Clear);
                }
            }
        }
    }

    fn control(&mut self, _idx: usize, c: &Ctl) {
        match c {
            Ctl::DropWriters => {
                *self.senders.lock() = Senders::default();
            }
            Ctl::DropOutput => self.out_rx = None,
            Ctl::Stop => {}
            // a new session on new channels: for a stand-alone client downlink that is a new task
            Ctl::Reconnect => *self = ClientSys::new(&self.cfg.clone(), self.rec.clone()),
        }
    }

    fn finished(&self) -> Option<Result<(), String>> {
        self.result.clone()
    }
}

pub fn drain(rx: &mut Option<ByteReader>) -> usize {
    let mut total = 0;
    loop {
        let Some(r) = rx.as_mut() else {
            break;
        };
        let mut tmp = [0u8; 4096];
        let mut rb = ReadBuf::new(&mut tmp);
        match harness_op(|cx| Pin::new(&mut *r).poll_read(cx, &mut rb)) {
            Poll::Ready(Ok(())) => {
                let n = rb.filled().len();
                if n == 0 {
                    *rx = None;
                    break;
                }
                total += n;
            }
            Poll::Ready(Err(_)) => {
                *rx = None;
                break;
            }
            Poll::Pending => break,
        }
    }
    total
}

// ------------------------------------------------------------------------------------------------
// generic delivery
// ------------------------------------------------------------------------------------------------

pub struct Driver<S: Sys> {
    pub sys: S,
    pub rec: Arc<Rec>,
    /// Whole frames not yet written. Frames are never split by the harness: a split inside an
    /// event body is a property of the notification *decoder* (C09/C10), not of the state fold.
    outbox: VecDeque<BytesMut>,
    pub hang: Option<String>,
    pub out_bytes: usize,
    /// Bytes of notifications that could not be delivered because the downlink closed its input.
    pub undelivered: usize,
    pub split_frames: usize,
}

impl<S: Sys> Driver<S> {
    pub fn new(sys: S, rec: Arc<Rec>) -> Self {
        Driver {
            sys,
            rec,
            outbox: VecDeque::new(),
            hang: None,
            out_bytes: 0,
            undelivered: 0,
            split_frames: 0,
        }
    }

    /// Write the next frame of the outbox. Returns bytes written.
    fn pump(&mut self) -> usize {
        if self.outbox.is_empty() {
            return 0;
        }
        let pending: usize = self.outbox.iter().map(|f| f.len()).sum();
        let Some(w) = self.sys.writer().as_mut() else {
            self.undelivered += pending;
            self.outbox.clear();
            return 0;
        };
        let frame = &self.outbox[0];
        match harness_op(|cx| Pin::new(&mut *w).poll_write(cx, frame)) {
            Poll::Ready(Ok(k)) => {
                if k == self.outbox[0].len() {
                    self.outbox.pop_front();
                } else {
                    // cannot happen while the channel capacity exceeds the bytes of one case
                    self.split_frames += 1;
                    let _ = self.outbox[0].split_to(k);
                }
                k
            }
            Poll::Ready(Err(_)) => {
                *self.sys.writer() = None;
                self.undelivered += pending;
                self.outbox.clear();
                0
            }
            Poll::Pending => 0,
        }
    }

    /// Deliver everything and run to a fixpoint.
    pub fn settle(&mut self) {
        if self.hang.is_some() {
            return;
        }
        let mut rounds = 0;
        loop {
            rounds += 1;
            let mut progress = self.pump();
            match self.sys.poll_idle() {
                Ok(n) => progress += n,
                Err(e) => {
                    self.hang = Some(e);
                    return;
                }
            }
            let d = self.sys.drain_out();
            self.out_bytes += d;
            progress += d;
            if progress == 0 {
                break;
            }
            if rounds == 1000 && std::env::var("VERIF_DUMP").is_ok() {
                eprintln!("settle: 1000 rounds; progress={} outbox={} finished={:?}", progress, self.outbox.len(), self.sys.finished());
            }
            if rounds > MAX_ROUNDS {
                self.hang = Some("delivery did not reach a fixpoint".into());
                return;
            }
        }
    }

    /// Interpret the op list. `settle_after[i]` says whether to run to a fixpoint after op i
    /// (always done around local writes so that their position in the notification order is
    /// well defined).
    pub fn run(&mut self, ops: &[DOp], settle_after: impl Fn(usize) -> bool, close_input: bool) {
        self.settle();
        for (i, op) in ops.iter().enumerate() {
            match op {
                DOp::N(n) => {
                    if settle_after(i) {
                        self.rec.cur.store(i, Ordering::SeqCst);
                    }
                    self.outbox.extend(n.frames());
                    if settle_after(i) {
                        self.settle();
                    } else {
                        // make some progress without draining everything
                        self.pump();
                    }
                }
                DOp::W(w) => {
                    self.settle();
                    self.rec.cur.store(i, Ordering::SeqCst);
                    self.sys.local_write(i, w);
                    self.settle();
                }
                DOp::C(c) => {
                    self.settle();
                    self.rec.cur.store(i, Ordering::SeqCst);
                    self.sys.control(i, c);
                    self.settle();
                }
            }
        }
        self.rec.cur.store(ops.len(), Ordering::SeqCst);
        self.settle();
        if close_input {
            // end of the input stream (the runtime drops its end)
            *self.sys.writer() = None;
            self.settle();
        }
    }
}

pub struct RunObs {
    pub trace: Vec<(usize, Cb)>,
    pub finished: Option<Result<(), String>>,
    pub hang: Option<String>,
    pub out_bytes: usize,
    pub undelivered: usize,
    pub split_frames: usize,
}

impl<S: Sys> Driver<S> {
    pub fn observe(&self) -> RunObs {
        RunObs {
            trace: self.rec.trace.lock().clone(),
            finished: self.sys.finished(),
            hang: self.hang.clone(),
            out_bytes: self.out_bytes,
            undelivered: self.undelivered,
            split_frames: self.split_frames,
        }
    }
}
