//! C07 A shared downlink serves every consumer a complete, ordered session.
//!
//! System under test: the real `ValueDownlinkRuntime` / `MapDownlinkRuntime` (engine.rs). The harness
//! plays a legal remote lane and up to 5 consumers; the generated op list owns the schedule. The oracle
//! is the statement of C07 evaluated over the observed histories (see NOTES.md for the exact laws).

mod engine;

use engine::*;
use proptest::prelude::*;
use serde::{Deserialize, Serialize};
use std::collections::{BTreeMap, HashMap};
use vcommon::{pick_index, Ctx, Verdict};

const MAX_CONSUMERS: usize = 5;
const CAPS: [usize; 12] = [1, 2, 3, 5, 8, 13, 21, 34, 64, 128, 512, 4096];

#[derive(Clone, Debug, PartialEq, Eq, Serialize, Deserialize)]
enum Op {
    /// A consumer attaches (notification channel capacity, operation channel capacity).
    Attach { sync: bool, keep: bool, in_cap: usize, out_cap: usize },
    /// Consumer c queues an operation in its outbox.
    Write { c: u16, w: W },
    /// Consumer c writes at most n bytes of its outbox.
    CPump { c: u16, n: usize },
    /// Consumer c reads at most n bytes of notifications.
    CRead { c: u16, n: usize },
    CDrop { c: u16 },
    /// Consumer c stops listening (drops its notification reader) but keeps writing commands.
    CDropReader { c: u16 },
    /// The remote lane reads at most n bytes of what the runtime wrote and answers complete frames.
    RRead { n: usize },
    /// The remote reads exactly k further whole frames (the runtime is polled while it does so) and
    /// not a byte of the next one.
    RReadFrames { k: usize },
    /// Consumer c writes its whole outbox, the runtime being polled whenever the channel is full.
    CFlush { c: u16 },
    /// The remote writes at most n bytes of its output.
    RPump { n: usize },
    /// Spontaneous change of the lane.
    RChange { w: W },
    /// The lane unlinks (or, before the link, will refuse it).
    RUnlink,
    /// The connection to the remote goes away.
    RClose,
    /// Only the outgoing half of the connection fails (the remote's reader of the runtime's output is dropped).
    RCloseReader,
    /// Only the incoming half fails (the remote's writer is dropped).
    RCloseWriter,
    Poll { k: usize },
    Advance { ms: u64 },
    Stop,
    Settle,
}

#[derive(Clone, Debug, Serialize, Deserialize)]
struct Case {
    params: Params,
    ops: Vec<Op>,
}

// ---------------------------------------------------------------------------------------------
// generators

fn arb_cap() -> impl Strategy<Value = usize> {
    (0usize..CAPS.len()).prop_map(|i| CAPS[i])
}

fn arb_small_cap() -> impl Strategy<Value = usize> {
    prop_oneof![3 => (0usize..8).prop_map(|i| CAPS[i]), 1 => arb_cap()]
}

fn arb_nbytes() -> impl Strategy<Value = usize> {
    prop_oneof![
        4 => 1usize..16,
        3 => 16usize..80,
        1 => 80usize..600,
        2 => Just(usize::MAX),
    ]
}

fn arb_w(kind: Kind) -> BoxedStrategy<W> {
    match kind {
        Kind::Value => prop_oneof![6 => Just(W::Val { id: 0, pad: 0 }), 1 => Just(W::Empty)].boxed(),
        Kind::Map => prop_oneof![
            6 => (0u8..KEYS.len() as u8).prop_map(|k| W::Upd { k, id: 0, pad: 0 }),
            3 => (0u8..KEYS.len() as u8).prop_map(|k| W::Rem { k }),
            1 => Just(W::Clr),
        ]
        .boxed(),
    }
}

fn arb_op(kind: Kind) -> impl Strategy<Value = Op> {
    prop_oneof![
        16 => (any::<bool>(), any::<bool>(), arb_small_cap(), arb_small_cap())
            .prop_map(|(sync, keep, in_cap, out_cap)| Op::Attach { sync, keep, in_cap, out_cap }),
        // a SYNC consumer is the usual case
        8 => (arb_small_cap(), arb_small_cap())
            .prop_map(|(in_cap, out_cap)| Op::Attach { sync: true, keep: true, in_cap, out_cap }),
        48 => (any::<u16>(), arb_w(kind)).prop_map(|(c, w)| Op::Write { c, w }),
        20 => (any::<u16>(), arb_nbytes()).prop_map(|(c, n)| Op::CPump { c, n }),
        24 => (any::<u16>(), arb_nbytes()).prop_map(|(c, n)| Op::CRead { c, n }),
        3 => any::<u16>().prop_map(|c| Op::CDrop { c }),
        24 => arb_nbytes().prop_map(|n| Op::RRead { n }),
        24 => arb_nbytes().prop_map(|n| Op::RPump { n }),
        12 => arb_w(kind).prop_map(|w| Op::RChange { w }),
        // the link ends early in roughly a third of the cases (lane unlinks / connection drops / stop)
        1 => Just(Op::RUnlink),
        1 => Just(Op::RClose),
        1 => Just(Op::Stop),
        1 => Just(Op::RCloseReader),
        1 => Just(Op::RCloseWriter),
        2 => any::<u16>().prop_map(|c| Op::CDropReader { c }),
        28 => (1usize..6).prop_map(|k| Op::Poll { k }),
        6 => Just(Op::Poll { k: 1000 }),
        4 => (1u64..400).prop_map(|ms| Op::Advance { ms }),
        2 => (400u64..1500).prop_map(|ms| Op::Advance { ms }),
        8 => Just(Op::Settle),
    ]
}

fn arb_params(kind: Kind) -> impl Strategy<Value = Params> {
    (
        any::<u64>(),
        prop_oneof![Just(2usize), Just(3), Just(8), Just(64)],
        prop_oneof![Just(1usize), Just(2), Just(8)],
        arb_cap(),
        arb_cap(),
        prop_oneof![Just(500u64), Just(1000), Just(30_000)],
        proptest::collection::vec((0u8..NKEYS, Just(0u32)), 0..4),
    )
        .prop_map(
            move |(seed, budget, attachment_queue, to_remote_cap, from_remote_cap, empty_timeout_ms, init)| Params {
                kind,
                seed,
                budget,
                attachment_queue,
                to_remote_cap,
                from_remote_cap,
                empty_timeout_ms,
                init,
            },
        )
}

/// Writes of a burst: few keys (so that later writes hit keys that are still queued), more clears.
fn arb_burst_w(kind: Kind, clear: bool) -> BoxedStrategy<W> {
    match kind {
        Kind::Value => prop_oneof![8 => Just(W::Val { id: 0, pad: 0 }), 1 => Just(W::Empty)].boxed(),
        Kind::Map => prop_oneof![
            8 => (0u8..6).prop_map(|k| W::Upd { k, id: 0, pad: 0 }),
            2 => (0u8..6).prop_map(|k| W::Rem { k }),
            if clear { 1 } else { 0 } => Just(W::Clr),
        ]
        .boxed(),
    }
}

fn arb_big_w(kind: Kind, min_pad: u16) -> BoxedStrategy<W> {
    match kind {
        Kind::Value => (min_pad..9500u16).prop_map(|pad| W::Val { id: 0, pad }).boxed(),
        Kind::Map => (0u8..6, min_pad..9500u16).prop_map(|(k, pad)| W::Upd { k, id: 0, pad }).boxed(),
    }
}

/// A targeted burst by one consumer against a remote that reads nothing:
/// 1. a frame of more than 8 KiB is written and delivered: the runtime's `FramedWrite` is over its
///    back-pressure boundary and its flush cannot complete;
/// 2. several more writes (often `clear`, then another long update, then updates of a few keys) are
///    delivered: they go through the back-pressure relief (value buffer / map queue);
/// 3. the remote reads exactly k whole frames, so that exactly the head of the queue (a popped clear, the
///    long entry) is written and the output blocks again with entries still queued;
/// 4. more writes on the same few keys arrive; 3-4 may repeat.
fn arb_burst(kind: Kind) -> impl Strategy<Value = Vec<Op>> {
    let round = (
        1usize..4,
        proptest::collection::vec(arb_burst_w(kind, true), 1..4),
    );
    (
        any::<u16>(),
        any::<bool>(),
        arb_big_w(kind, 8300),
        proptest::collection::vec(arb_burst_w(kind, true), 0..3),
        prop_oneof![3 => Just(true), 1 => Just(false)],
        prop_oneof![3 => arb_big_w(kind, 8300).prop_map(Some), 1 => Just(None)],
        proptest::collection::vec(arb_burst_w(kind, false), 2..6),
        proptest::collection::vec(round, 1..4),
    )
        .prop_map(move |(c, settle_first, head, before, clear, big, after, rounds)| {
            let mut ops = vec![];
            if settle_first {
                ops.push(Op::Settle);
            }
            ops.push(Op::Write { c, w: head });
            ops.push(Op::CFlush { c });
            for w in before {
                ops.push(Op::Write { c, w });
            }
            if clear && kind == Kind::Map {
                ops.push(Op::Write { c, w: W::Clr });
            }
            if let Some(w) = big {
                ops.push(Op::Write { c, w });
            }
            for w in after {
                ops.push(Op::Write { c, w });
            }
            ops.push(Op::CFlush { c });
            for (k, ws) in rounds {
                ops.push(Op::RReadFrames { k });
                for w in ws {
                    ops.push(Op::Write { c, w });
                }
                ops.push(Op::CFlush { c });
            }
            ops
        })
}

fn arb_case(kind: Kind, max_ops: usize) -> impl Strategy<Value = Case> {
    let burst_weight = match kind {
        Kind::Map => 2,
        Kind::Value => 1,
    };
    (
        arb_params(kind),
        prop_oneof![3 => Just(true), 1 => Just(false)],
        proptest::collection::vec(arb_op(kind), 1..max_ops),
        prop_oneof![
            4 => Just(None),
            burst_weight => (any::<u16>(), arb_burst(kind)).prop_map(Some),
        ],
    )
        .prop_map(|(mut params, attach_first, mut ops, burst)| {
            if let Some((at, burst)) = burst {
                // keep the case within the op budget: the burst replaces the tail of the random part
                ops.truncate(ops.len().saturating_sub(burst.len() / 2).max(1));
                let at = pick_index(at, ops.len() + 1);
                let tail = ops.split_off(at);
                ops.extend(burst);
                ops.extend(tail);
            }
            // unique ids: a body identifies one write of the case
            let mut next = 1u32;
            let mut fresh = |w: &mut W| match w {
                W::Val { id, .. } | W::Upd { id, .. } => {
                    *id = next;
                    next += 1;
                }
                _ => {}
            };
            let mut big = false;
            for op in ops.iter_mut() {
                match op {
                    Op::Write { w, .. } | Op::RChange { w } => {
                        fresh(w);
                        big |= w.is_big();
                    }
                    _ => {}
                }
            }
            for (i, (_, id)) in params.init.iter_mut().enumerate() {
                *id = 900_000 + i as u32;
            }
            if attach_first {
                ops.insert(0, Op::Attach { sync: true, keep: true, in_cap: 64, out_cap: 64 });
            }
            if big {
                // 9 KB frames through 1-byte channels would cost thousands of scheduling rounds per frame;
                // the socket side stays small relative to the frames (it still blocks every write)
                params.to_remote_cap = params.to_remote_cap.max(128);
                params.from_remote_cap = params.from_remote_cap.max(512);
                for op in ops.iter_mut() {
                    if let Op::Attach { in_cap, out_cap, .. } = op {
                        *in_cap = (*in_cap).max(256);
                        *out_cap = (*out_cap).max(256);
                    }
                }
            }
            Case { params, ops }
        })
}

/// Index selector that `pick_index` maps to consumer i of n.
fn sel(i: usize, n: usize) -> u16 {
    ((((2 * i + 1) as u32) << 15) / n as u32) as u16
}

/// Attach storm: a slow first consumer keeps the read task busy (it is flushing `synced` into a 1-byte
/// channel), the attachment queue is tiny, several SYNC consumers attach at once, the lane answers their
/// syncs, every newcomer looks into its (still empty) channel, then everything drains. Exercises the
/// hand-over of a late joiner to the read and write sides.
fn arb_storm_case(kind: Kind) -> impl Strategy<Value = Case> {
    (
        arb_params(kind),
        1usize..3,
        2usize..5,
        proptest::collection::vec((any::<bool>(), arb_small_cap()), 4),
        any::<bool>(),
    )
        .prop_map(move |(mut params, queue, newcomers, opts, change)| {
            params.attachment_queue = queue;
            params.empty_timeout_ms = 30_000;
            let n = 1 + newcomers;
            let mut ops = vec![
                Op::Attach { sync: true, keep: true, in_cap: 1, out_cap: 64 },
                Op::Poll { k: 1000 },
                Op::RRead { n: usize::MAX },
                Op::RPump { n: usize::MAX },
                Op::Poll { k: 1000 },
                // the first consumer has read `linked`: the link is up, its `synced` is stuck behind 1 byte
                Op::CRead { c: 0, n: 1 },
                Op::Poll { k: 1000 },
            ];
            if change {
                ops.push(Op::RChange { w: if kind == Kind::Value { W::Val { id: 1, pad: 0 } } else { W::Upd { k: 0, id: 1, pad: 0 } } });
                ops.push(Op::RPump { n: usize::MAX });
            }
            for i in 0..newcomers {
                let (sync, cap) = opts[i];
                ops.push(Op::Attach { sync: sync || i + 1 == newcomers, keep: false, in_cap: cap.max(2), out_cap: 64 });
            }
            ops.push(Op::Poll { k: 1000 });
            ops.push(Op::RRead { n: usize::MAX });
            ops.push(Op::RPump { n: usize::MAX });
            ops.push(Op::Poll { k: 1000 });
            for i in 1..n {
                ops.push(Op::CRead { c: sel(i, n), n: 1 });
            }
            ops.push(Op::Settle);
            Case { params, ops }
        })
}

/// Idle stop with a last command in flight: the only consumer does not listen (so the read side votes to
/// stop after `empty_timeout`), gets a first command through, writes its last command(s) while the remote
/// reads nothing, detaches, and the clock passes `empty_timeout` again. Whatever was written before the
/// consumer went away and was not superseded must still reach the lane completely.
fn arb_idle_stop_case(kind: Kind) -> impl Strategy<Value = Case> {
    (
        arb_params(kind),
        prop_oneof![Just(500u64), Just(1000)],
        arb_small_cap(),
        any::<bool>(),
        any::<bool>(),
        1usize..3,
        (1u64..300, 1u64..300, any::<bool>()),
        any::<bool>(),
    )
        .prop_map(move |(mut params, timeout, cap, sync, big, last_n, (d1, d2, twice), listen_drop_late)| {
            params.empty_timeout_ms = timeout;
            params.to_remote_cap = cap;
            let mut id = 0u32;
            let mut w = |pad: u16| {
                id += 1;
                match kind {
                    Kind::Value => W::Val { id, pad },
                    Kind::Map => W::Upd { k: (id % 3) as u8 * 2, id, pad },
                }
            };
            let mut ops = vec![Op::Attach { sync, keep: false, in_cap: 64, out_cap: 16_384 }];
            if !listen_drop_late {
                ops.push(Op::CDropReader { c: 0 });
            }
            ops.push(Op::Settle);
            if listen_drop_late {
                ops.push(Op::CDropReader { c: 0 });
                // the read side only notices when it next writes to the consumer
                ops.push(Op::RChange { w: w(0) });
                ops.push(Op::Settle);
            }
            ops.push(Op::Advance { ms: timeout + d1 });
            ops.push(Op::Poll { k: 1000 });
            ops.push(Op::Write { c: 0, w: w(0) });
            ops.push(Op::CFlush { c: 0 });
            ops.push(Op::Settle);
            for i in 0..last_n {
                let pad = if big && i + 1 == last_n { 8500 } else { 0 };
                ops.push(Op::Write { c: 0, w: w(pad) });
            }
            if twice {
                // delivered while the runtime runs, then the consumer goes away
                ops.push(Op::CFlush { c: 0 });
            } else {
                // the last command(s) and the end of the consumer's stream reach the runtime together
                ops.push(Op::CPump { c: 0, n: usize::MAX });
            }
            ops.push(Op::CDrop { c: 0 });
            ops.push(Op::Poll { k: 1000 });
            ops.push(Op::Advance { ms: timeout + d2 });
            ops.push(Op::Poll { k: 1000 });
            if twice {
                ops.push(Op::Advance { ms: timeout + d2 });
                ops.push(Op::Poll { k: 1000 });
            }
            Case { params, ops }
        })
}

/// Mostly random op lists (with bursts), plus the two scenario templates.
fn arb_any_case(kind: Kind, max_ops: usize) -> impl Strategy<Value = Case> {
    prop_oneof![
        16 => arb_case(kind, max_ops),
        1 => arb_storm_case(kind),
        1 => arb_idle_stop_case(kind),
    ]
}

// ---------------------------------------------------------------------------------------------
// execution

async fn apply_op(rt: &mut Rt, op: &Op) {
    let n = rt.consumers.len();
    let ci = |c: u16| pick_index(c, n);
    match op {
        Op::Attach { sync, keep, in_cap, out_cap } => {
            if n < MAX_CONSUMERS {
                rt.attach(*sync, *keep, *in_cap, *out_cap);
            }
        }
        Op::Write { c, w } if n > 0 => rt.consumers[ci(*c)].write(w),
        Op::CPump { c, n: k } if n > 0 => {
            rt.consumers[ci(*c)].pump(*k);
        }
        Op::CRead { c, n: k } if n > 0 => {
            rt.consumers[ci(*c)].read(*k);
        }
        Op::CDrop { c } if n > 0 => rt.consumers[ci(*c)].drop_now(),
        Op::CDropReader { c } if n > 0 => rt.consumers[ci(*c)].drop_reader(),
        Op::RCloseReader => rt.remote.close_reader(),
        Op::RCloseWriter => rt.remote.close_writer(),
        Op::RRead { n } => {
            rt.remote.read(*n);
        }
        Op::RReadFrames { k } => {
            let target = rt.remote.received.len() + *k;
            loop {
                let got = rt.remote.read_frames(target - rt.remote.received.len());
                let polled = rt.poll(1000);
                if rt.remote.received.len() >= target || (got == 0 && polled == 0) {
                    break;
                }
            }
        }
        Op::CFlush { c } if n > 0 => {
            let i = ci(*c);
            loop {
                let wrote = rt.consumers[i].pump(usize::MAX);
                let polled = rt.poll(1000);
                if rt.consumers[i].outbox_len() == 0 || (wrote == 0 && polled == 0) {
                    break;
                }
            }
        }
        Op::RPump { n } => {
            rt.remote.pump(*n);
        }
        Op::RChange { w } => rt.remote.spontaneous(w),
        Op::RUnlink => rt.remote.unlink(),
        Op::RClose => rt.remote.close(),
        Op::Poll { k } => {
            rt.poll(*k);
        }
        Op::Advance { ms } => rt.advance(*ms).await,
        Op::Stop => rt.stop(),
        Op::Settle => {
            rt.settle();
        }
        _ => {}
    }
}

struct CObs {
    reader_dropped: Option<u64>,
    last_empty_read: Option<u64>,
    /// frames read by the fixpoint after the generated ops (before the final stop)
    snap_frames: usize,
    sync: bool,
    attach_seq: u64,
    frames: Vec<(u64, Note)>,
    sent: Vec<Sent>,
    dropped: Option<u64>,
    eof: Option<u64>,
    decode_error: Option<String>,
}

struct Obs {
    kind: Kind,
    consumers: Vec<CObs>,
    emitted: Vec<Emission>,
    received: Vec<(u64, Req)>,
    remote_decode_error: Option<String>,
    remote_closed: Option<u64>,
    reader_closed: Option<u64>,
    attachment_queue: usize,
    /// bytes of an incomplete frame left when the runtime closed its output
    truncated: Option<usize>,
    /// state of things at the fixpoint after the generated ops (before the final stop)
    snap_emitted: usize,
    snap_received: usize,
    snap_running: bool,
    snap_stopped: bool,
    idle_at: Vec<u64>,
    advanced_ms: u64,
    empty_timeout_ms: u64,
    done_after_stop: bool,
    polls: u64,
}

fn execute(case: &Case) -> Obs {
    block_on_paused(case.params.seed, async {
        let mut rt = Rt::start(&case.params);
        for op in &case.ops {
            apply_op(&mut rt, op).await;
        }
        rt.settle();
        let snap_emitted = rt.remote.emitted.len();
        let snap_received = rt.remote.received.len();
        let snap_running = !rt.is_done();
        let snap_frames: Vec<usize> = rt.consumers.iter().map(|c| c.frames.len()).collect();
        let snap_stopped = rt.stopped.is_some();
        let advanced_ms = rt.advanced_ms;
        // the link closes: every consumer that is still there must be told
        rt.stop();
        rt.settle();
        Obs {
            kind: rt.kind,
            consumers: rt
                .consumers
                .iter()
                .enumerate()
                .map(|(i, c)| CObs {
                    reader_dropped: c.reader_dropped,
                    last_empty_read: c.last_empty_read,
                    snap_frames: snap_frames.get(i).copied().unwrap_or(0),
                    sync: c.sync,
                    attach_seq: c.attach_seq,
                    frames: c.frames.clone(),
                    sent: c.sent.clone(),
                    dropped: c.dropped,
                    eof: c.eof,
                    decode_error: c.decode_error.clone(),
                })
                .collect(),
            emitted: rt.remote.emitted.clone(),
            received: rt.remote.received.clone(),
            remote_decode_error: rt.remote.decode_error.clone(),
            remote_closed: [rt.remote.closed, rt.remote.closed_reader, rt.remote.closed_writer]
                .iter()
                .flatten()
                .min()
                .copied(),
            reader_closed: rt.remote.closed_reader,
            attachment_queue: case.params.attachment_queue.max(1),
            truncated: rt.remote.truncated_input(),
            snap_emitted,
            snap_received,
            snap_running,
            snap_stopped,
            idle_at: rt.idle_at.clone(),
            advanced_ms,
            empty_timeout_ms: case.params.empty_timeout_ms,
            done_after_stop: rt.is_done(),
            polls: rt.polls,
        }
    })
}

// ---------------------------------------------------------------------------------------------
// oracle

fn show_evs<'a>(it: impl IntoIterator<Item = &'a Ev>) -> String {
    let v: Vec<String> = it.into_iter().map(|e| e.show()).collect();
    format!("[{}]", v.join(", "))
}

fn is_subsequence(small: &[Ev], big: &[&Ev]) -> bool {
    let mut i = 0;
    for b in big {
        if i < small.len() && **b == small[i] {
            i += 1;
        }
    }
    i == small.len()
}

enum StreamProblem {
    Fabricated(Ev),
    OutOfOrder,
    Missing(String),
}

/// `stream` must be a contiguous run evs[s..s+n] of the remote's event emissions; it must not start
/// after position `need_from` (first event the consumer is certainly entitled to) and, when `need_to`
/// is given, must reach it.
fn check_run(stream: &[Ev], evs: &[&Ev], need_from: usize, need_to: Option<usize>) -> Result<(), StreamProblem> {
    let n = stream.len();
    if n == 0 {
        return match need_to {
            Some(t) if need_from < t => Err(StreamProblem::Missing(format!(
                "received no event but the remote emitted {}",
                show_evs(evs[need_from..t].iter().copied())
            ))),
            _ => Ok(()),
        };
    }
    let mut aligned = vec![];
    if n <= evs.len() {
        for s in 0..=(evs.len() - n) {
            if (0..n).all(|i| *evs[s + i] == stream[i]) {
                aligned.push(s);
            }
        }
    }
    if aligned.is_empty() {
        for e in stream {
            if !evs.iter().any(|x| *x == e) {
                return Err(StreamProblem::Fabricated(e.clone()));
            }
        }
        return if is_subsequence(stream, evs) {
            Err(StreamProblem::Missing("events were skipped in the middle of the stream".into()))
        } else {
            Err(StreamProblem::OutOfOrder)
        };
    }
    let ok = aligned
        .iter()
        .any(|s| *s <= need_from && need_to.map_or(true, |t| s + n >= t));
    if ok {
        Ok(())
    } else {
        let s = aligned[0];
        let mut what = vec![];
        if s > need_from {
            what.push(format!("skipped at the start: {}", show_evs(evs[need_from..s].iter().copied())));
        }
        if let Some(t) = need_to {
            if s + n < t {
                what.push(format!("not delivered at the end: {}", show_evs(evs[s + n..t].iter().copied())));
            }
        }
        Err(StreamProblem::Missing(what.join("; ")))
    }
}


/// Everything needed to judge the notifications of one consumer.
struct SessionCx<'a> {
    obs: &'a Obs,
    /// the lane's event emissions in order, and their emission indices
    evs: &'a [&'a Ev],
    evs_idx: &'a [usize],
    ci: usize,
    c: &'a CObs,
    /// the frames the law is evaluated on: while the link is still up at the fixpoint after the generated ops
    /// only what the consumer had read BY THEN counts (the harness's own stop afterwards makes the runtime
    /// flush everything, which would hide an event that was withheld while the link was quiet)
    frames: &'a [(u64, Note)],
    linked_at: usize,
    /// position in `evs` that the consumer's events must reach (None: the link was cut)
    need_to: Option<usize>,
}

impl<'a> SessionCx<'a> {
    fn pos_of(&self, q: usize) -> usize {
        self.evs_idx.partition_point(|i| *i < q)
    }

    /// linked, then every later event in order (`owed`: events emitted after it read linked must be there).
    fn plain_session(&self, owed: bool, cell: &str) -> Result<(), (String, String)> {
        let kn = self.obs.kind.name();
        let linked_seq = self.frames[self.linked_at].0;
        let stream: Vec<Ev> = self
            .frames
            .iter()
            .filter_map(|(_, f)| match f {
                Note::Event(e) => Some(e.clone()),
                _ => None,
            })
            .collect();
        let (need_from, need_to) = if owed {
            (
                self.evs_idx.partition_point(|i| self.obs.emitted[*i].seq < linked_seq),
                self.need_to,
            )
        } else {
            (self.evs.len(), None)
        };
        match check_run(&stream, self.evs, need_from, need_to) {
            Ok(()) => Ok(()),
            Err(StreamProblem::Fabricated(e)) => Err((
                format!("event-fabricated:{}", kn),
                format!("consumer {} received {} which the lane never emitted", self.ci, e.show()),
            )),
            Err(StreamProblem::OutOfOrder) => Err((
                format!("events-out-of-order:{}/{}", kn, cell),
                format!(
                    "consumer {} received {} which is not in the lane's emission order {}",
                    self.ci,
                    show_evs(&stream),
                    show_evs(self.evs.iter().copied())
                ),
            )),
            Err(StreamProblem::Missing(what)) => Err((
                format!("events-missing:{}/{}", kn, cell),
                format!(
                    "consumer {} (sync={}, attached at seq {}, read linked at seq {}) received {} of the lane's {}: {}",
                    self.ci,
                    self.c.sync,
                    self.c.attach_seq,
                    linked_seq,
                    show_evs(&stream),
                    show_evs(self.evs.iter().copied()),
                    what
                ),
            )),
        }
    }

    /// linked, synced together with a state consistent with the lane, then every later event in order:
    /// there is an instant q of the lane's history (just after emission q-1, before the consumer read
    /// synced) whose state is the consumer's replica and after which the lane emitted exactly the
    /// consumer's later events.
    fn synced_session(&self, sy: usize) -> Result<(), (String, String)> {
        let obs = self.obs;
        let kind = obs.kind;
        let kn = kind.name();
        let c = self.c;
        let synced_seq = self.frames[sy].0;
        let linked_seq = self.frames[self.linked_at].0;
        let mut replica = State::empty(kind);
        let mut pre: Vec<Ev> = vec![];
        for (_, f) in &self.frames[self.linked_at..sy] {
            if let Note::Event(e) = f {
                replica.apply(e);
                pre.push(e.clone());
            }
        }
        let post: Vec<Ev> = self.frames[sy..]
            .iter()
            .filter_map(|(_, f)| match f {
                Note::Event(e) => Some(e.clone()),
                _ => None,
            })
            .collect();
        let n = post.len();
        let mut aligned: Vec<usize> = vec![];
        for q in 1..=obs.emitted.len() {
            if obs.emitted[q - 1].seq >= synced_seq {
                break;
            }
            let p0 = self.pos_of(q);
            if p0 + n > self.evs.len() || !(0..n).all(|i| *self.evs[p0 + i] == post[i]) {
                continue;
            }
            if self.need_to.map_or(false, |t| p0 + n < t) {
                continue;
            }
            if obs.emitted[q - 1].state_after == replica {
                return Ok(());
            }
            aligned.push(q);
        }
        if aligned.is_empty() {
            // the events after synced are not "every later event in order" for any instant
            let mut fabricated = None;
            for e in &post {
                if !self.evs.iter().any(|x| *x == e) {
                    fabricated = Some(e.clone());
                }
            }
            let (sig, what) = if let Some(e) = fabricated {
                (format!("event-fabricated:{}", kn), format!("{} was never emitted", e.show()))
            } else if is_subsequence(&post, self.evs) {
                (
                    format!("events-missing:{}/after-synced", kn),
                    "no instant of the lane's history is followed by exactly these events (some were skipped or not delivered)".to_string(),
                )
            } else {
                (format!("events-out-of-order:{}/after-synced", kn), "not in emission order".to_string())
            };
            return Err((
                sig,
                format!(
                    "consumer {} after synced (read at seq {}) received {}; the lane emitted {} ({}); must reach position {:?}",
                    self.ci,
                    synced_seq,
                    show_evs(&post),
                    show_evs(self.evs.iter().copied()),
                    what,
                    self.need_to
                ),
            ));
        }
        // The later events fit, the state does not. One specific way for that to happen: the consumer
        // was handed a faithful, gap-free tail of the lane's emissions that ends at a `synced` frame,
        // but the tail starts inside (or after) the replay that this synced closes -- it joined the
        // read side while somebody's sync was being answered. That requires that it had not yet read
        // `linked` when the lane read the sync request.
        let mid_replay = aligned.iter().any(|q| {
            let j = q - 1;
            let EmKind::Synced { req_seq } = obs.emitted[j].kind else { return false };
            let end = self.pos_of(j);
            let tail_ok = pre.len() <= end && (0..pre.len()).all(|i| *self.evs[end - pre.len() + i] == pre[i]);
            tail_ok && linked_seq > req_seq
        });
        let states: Vec<String> = aligned.iter().map(|q| obs.emitted[q - 1].state_after.show()).collect();
        Err((
            format!("synced-state:{}{}", kn, if mid_replay { "/joined-mid-replay" } else { "" }),
            format!(
                "consumer {} (attached at seq {}, read linked at seq {}) received synced at seq {} holding {} (from events {}) but the lane's state at the instant(s) its later events start from was {:?}{}",
                self.ci,
                c.attach_seq,
                linked_seq,
                synced_seq,
                replica.show(),
                show_evs(&pre),
                states,
                if mid_replay { " -- the events it was given are a gap-free tail of the lane's emissions up to a synced frame, starting after the replay for that synced had begun" } else { "" }
            ),
        ))
    }
}

fn check(case: &Case) -> Verdict {
    let obs = execute(case);
    let mut v = Verdict::new();
    let kind = obs.kind;
    let kn = kind.name();
    let dump = std::env::var("VERIF_DUMP").is_ok();
    if dump {
        eprintln!("--- case {:?}", case.params);
        for (i, e) in obs.emitted.iter().enumerate() {
            eprintln!(
                "remote emit[{}] seq={} pumped={:?} {:?} state_after={}",
                i,
                e.seq,
                e.pumped,
                e.kind,
                e.state_after.show()
            );
        }
        for (s, r) in &obs.received {
            eprintln!("remote recv seq={} {:?}", s, r);
        }
        for (i, c) in obs.consumers.iter().enumerate() {
            eprintln!(
                "consumer {} sync={} attach={} dropped={:?} eof={:?}",
                i, c.sync, c.attach_seq, c.dropped, c.eof
            );
            for (s, f) in &c.frames {
                eprintln!("   frame seq={} {:?}", s, f);
            }
            for s in &c.sent {
                eprintln!("   sent queued={} written={:?} {:?}", s.queued, s.written, s.w);
            }
        }
        eprintln!(
            "snap: emitted={} received={} running={} stopped={} closed={:?} advanced={}ms polls={}",
            obs.snap_emitted, obs.snap_received, obs.snap_running, obs.snap_stopped, obs.remote_closed, obs.advanced_ms, obs.polls
        );
    }

    if let Some(e) = &obs.remote_decode_error {
        v.fail("wire-undecodable", format!("the remote could not decode what the runtime wrote: {}", e));
    }

    // ---- the wire: first frame is link, syncs only on behalf of SYNC consumers
    let mut syncs = 0usize;
    for (i, (seq, r)) in obs.received.iter().enumerate() {
        match r {
            Req::Link => {
                if i != 0 {
                    v.fail("link-twice", format!("a second link frame was sent (frame {})", i));
                }
            }
            Req::Sync => {
                syncs += 1;
                let entitled = obs.consumers.iter().filter(|c| c.sync && c.attach_seq < *seq).count();
                if syncs > entitled {
                    v.fail(
                        "sync-without-sync-consumer",
                        format!("{} sync frames were sent but only {} SYNC consumers had attached", syncs, entitled),
                    );
                }
            }
            _ => {}
        }
        if i == 0 && *r != Req::Link {
            v.fail("first-frame-not-link", format!("the first frame on the wire is {:?}", r));
        }
    }

    let evs_idx: Vec<usize> = obs
        .emitted
        .iter()
        .enumerate()
        .filter(|(_, e)| matches!(e.kind, EmKind::Event(_)))
        .map(|(i, _)| i)
        .collect();
    let evs: Vec<&Ev> = evs_idx
        .iter()
        .map(|i| match &obs.emitted[*i].kind {
            EmKind::Event(e) => e,
            _ => unreachable!(),
        })
        .collect();
    // position in `evs` of the first event whose emission index is >= q
    let pos_of = |q: usize| evs_idx.partition_point(|i| *i < q);

    let first_linked = obs.emitted.iter().position(|e| e.kind == EmKind::Linked);
    let unlinked_idx = obs.emitted.iter().position(|e| e.kind == EmKind::Unlinked);
    let no_timer_fired = obs.advanced_ms < obs.empty_timeout_ms;
    let undisturbed = !obs.snap_stopped && obs.remote_closed.is_none();
    // the link is still up at the fixpoint after the generated ops
    let live_link = undisturbed && obs.snap_running && unlinked_idx.is_none();
    // the only thing that ended the link is the lane's own unlinked frame
    let clean_unlinked = undisturbed
        && no_timer_fired
        && unlinked_idx.map_or(false, |u| obs.emitted[u].pumped.is_some());
    let remote_linked_delivered = first_linked.map_or(false, |i| obs.emitted[i].pumped.is_some());

    let mut late_join = false;
    let mut late_sync = false;
    let mut late_nosync = false;
    let mut join_during_sync = false;

    for (ci, c) in obs.consumers.iter().enumerate() {
        if let Some(e) = &c.decode_error {
            v.fail("notification-undecodable", format!("consumer {}: {}", ci, e));
            continue;
        }
        // classes: attached when the runtime had certainly seen `linked`
        if let Some(fl) = first_linked {
            if let Some(p) = obs.emitted[fl].pumped {
                if obs.idle_at.iter().any(|t| *t > p && *t < c.attach_seq) && obs.snap_emitted > 0 {
                    late_join = true;
                    if c.sync {
                        late_sync = true;
                    } else {
                        late_nosync = true;
                    }
                }
            }
        }
        if c.sync {
            for e in &obs.emitted {
                if let EmKind::Synced { req_seq } = e.kind {
                    if req_seq < c.attach_seq && e.pumped.map_or(true, |p| p > c.attach_seq) {
                        join_during_sync = true;
                    }
                }
            }
        }

        // ---- grammar of the session
        let mut linked_at: Option<usize> = None;
        let mut synced_at: Option<usize> = None;
        let mut unlinked_at: Option<usize> = None;
        for (i, (_, f)) in c.frames.iter().enumerate() {
            if unlinked_at.is_some() {
                v.fail("frame-after-unlinked", format!("consumer {} received {:?} after unlinked", ci, f));
                break;
            }
            match f {
                Note::Linked => {
                    if linked_at.is_some() {
                        v.fail("linked-twice", format!("consumer {} received linked twice", ci));
                    } else {
                        linked_at = Some(i);
                    }
                }
                Note::Synced => {
                    if linked_at.is_none() {
                        v.fail("synced-before-linked", format!("consumer {} received synced before linked", ci));
                    }
                    if synced_at.is_some() {
                        v.fail("synced-twice", format!("consumer {} received synced twice", ci));
                    } else {
                        synced_at = Some(i);
                    }
                }
                Note::Event(e) => {
                    if linked_at.is_none() {
                        v.fail(
                            "event-before-linked",
                            format!("consumer {} received event {} before linked", ci, e.show()),
                        );
                    }
                    if let Ev::Bad(b) = e {
                        v.fail(
                            format!("event-fabricated:{}", kn),
                            format!("consumer {} received an undecodable event body {:?}", ci, String::from_utf8_lossy(b)),
                        );
                    }
                }
                Note::Unlinked => unlinked_at = Some(i),
            }
        }
        let alive = c.dropped.is_none() && c.reader_dropped.is_none();
        // ---- unlinked when the link closes (the harness stopped the runtime at the end of every case)
        if alive && linked_at.is_some() && unlinked_at.is_none() {
            v.fail(
                "unlinked-missing",
                format!(
                    "consumer {} was linked and never went away, the link closed (runtime finished: {}) but it received no unlinked; frames {:?}",
                    ci, obs.done_after_stop, c.frames
                ),
            );
        }
        if alive && live_link && remote_linked_delivered && linked_at.is_none() {
            v.fail(
                "never-linked",
                format!("consumer {} is attached, the lane answered linked, but the consumer was not told", ci),
            );
        }
        let Some(l) = linked_at else { continue };
        // what must have arrived
        let need_to: Option<usize> = if alive && live_link {
            Some(pos_of(obs.snap_emitted))
        } else if alive && clean_unlinked {
            Some(pos_of(unlinked_idx.unwrap()))
        } else {
            None
        };
        // link still up: judge what had arrived by the fixpoint, before the harness's own stop
        let frames: &[(u64, Note)] = if alive && live_link {
            &c.frames[..c.snap_frames.min(c.frames.len())]
        } else {
            &c.frames[..]
        };
        if l >= frames.len() {
            continue;
        }
        let synced_at = synced_at.filter(|i| *i < frames.len());
        let cx = SessionCx {
            obs: &obs,
            evs: &evs,
            evs_idx: &evs_idx,
            ci,
            c,
            frames,
            linked_at: l,
            need_to,
        };
        if c.sync {
            match synced_at {
                Some(sy) => {
                    if let Err((sig, detail)) = cx.synced_session(sy) {
                        v.fail(sig, detail);
                    }
                }
                None => {
                    // not synced yet: it is owed nothing, only order is checked
                    if let Err((sig, detail)) = cx.plain_session(false, "sync-unsynced") {
                        v.fail(sig, detail);
                    }
                    if alive && live_link {
                        // `synced` frames that answer a sync request the lane read after this consumer attached
                        let linked_seq = c.frames[l].0;
                        let answers: Vec<&Emission> = obs.emitted[..obs.snap_emitted]
                            .iter()
                            .filter(|e| match e.kind {
                                EmKind::Synced { req_seq } => req_seq > c.attach_seq && e.pumped.is_some(),
                                _ => false,
                            })
                            .collect();
                        // one that entered the runtime after the consumer had read `linked` certainly found
                        // the consumer on the read side
                        let ignored = answers.iter().any(|e| e.pumped.unwrap() > linked_seq);
                        // With the hand-over in /repo (read side first, then write side) the write side can
                        // only send a sync for a consumer that is already in the read side's attachment queue
                        // (capacity Q) or taken from it. So when the last sync frame was written at most Q
                        // consumers up to and including this one (attach order = queue order) were still
                        // untouched by the read side. A consumer that attached after the link was up is
                        // written `linked` the moment it is taken, so "looked into its channel at or after the
                        // lane read that sync request, found nothing, and no byte had ever arrived" certifies
                        // "not taken yet".
                        let last_sync_read = obs.received[..obs.snap_received]
                            .iter()
                            .filter(|(_, r)| *r == Req::Sync)
                            .map(|(s, _)| *s)
                            .max();
                        let first_linked_read = obs
                            .consumers
                            .iter()
                            .filter_map(|o| o.frames.iter().find(|(_, f)| *f == Note::Linked).map(|(s, _)| *s))
                            .min();
                        let beyond_queue = match (last_sync_read, first_linked_read) {
                            (Some(rs), Some(fl)) if rs > c.attach_seq => {
                                let untouched = |o: &CObs| {
                                    o.attach_seq > fl && o.attach_seq <= c.attach_seq && o.last_empty_read.map_or(false, |t| t >= rs)
                                };
                                untouched(c) && obs.consumers.iter().filter(|o| untouched(o)).count() > obs.attachment_queue
                            }
                            _ => false,
                        };
                        // (evidence only: this pattern also occurs, rarely, on the unchanged tree, so it cannot
                        // serve as a signature of its own)
                        if beyond_queue && !answers.is_empty() && !ignored {
                            v.class("never-synced-with-more-untouched-consumers-than-queue");
                        }
                        let (cell, why) = if answers.is_empty() {
                            ("no-sync-after-attach", "; no sync request reached the lane after it attached")
                        } else if ignored {
                            (
                                "synced-ignored",
                                " although a synced frame answering a sync request made after it attached reached the runtime after the consumer had read linked",
                            )
                        } else {
                            (
                                "sync-answered-after-attach",
                                " although the lane answered a sync request that it read after the consumer attached (every such synced had reached the runtime before the consumer read linked: it may have passed before the read side knew the consumer)",
                            )
                        };
                        v.fail(
                            format!("never-synced:{}/{}", kn, cell),
                            format!(
                                "consumer {} (attached at seq {}, read linked at seq {}) asked to be synced, the link is up and everything was delivered, but it never received synced{}; frames {:?}; wire {:?}",
                                ci, c.attach_seq, linked_seq, why, c.frames, obs.received
                            ),
                        );
                    }
                }
            }
        } else if let Err((sig, detail)) = cx.plain_session(true, "nosync") {
            // Is the consumer being served as if it had asked for SYNC (nothing until a synced, then
            // a correct synced session)? That is one specific defect; everything else is generic.
            let as_sync = match synced_at {
                Some(sy) => cx.synced_session(sy).is_ok(),
                None => !frames.iter().any(|(_, f)| matches!(f, Note::Event(_))),
            };
            if sig.starts_with("events-missing") && as_sync {
                v.fail(
                    format!("events-missing:{}/nosync-served-as-sync", kn),
                    format!("{} -- the consumer did not ask for SYNC but is served exactly like one that is waiting for / got its synced", detail),
                );
            } else {
                v.fail(sig, detail);
            }
        }
    }

    // ---- the outgoing half of the connection failed: once the runtime has had something to write (two
    // commands: the failed flush of the first is noticed when the next arrives) the consumers must be told
    if let Some(t) = obs.reader_closed {
        // a command c1 delivered after the failure by a consumer that had read `linked`, then the runtime
        // polled until idle (c1 is in the write buffer, its flush has failed), then another command c2
        // delivered: the write task sees the failed flush when c2 arrives and stops
        let mut witnessed = false;
        for c in obs.consumers.iter().filter(|c| c.dropped.is_none()) {
            let Some(ls) = c.frames.iter().find(|(_, f)| *f == Note::Linked).map(|(s, _)| *s) else { continue };
            for s1 in c.sent.iter().filter_map(|s| s.written).filter(|w| *w > t && *w > ls) {
                let Some(idle) = obs.idle_at.iter().copied().find(|i| *i > s1) else { continue };
                let later = obs
                    .consumers
                    .iter()
                    .filter(|o| o.dropped.is_none())
                    .any(|o| o.sent.iter().filter_map(|s| s.written).any(|w| w > idle));
                if later {
                    witnessed = true;
                }
            }
        }
        if witnessed {
            for (ci, c) in obs.consumers.iter().enumerate() {
                let alive = c.dropped.is_none() && c.reader_dropped.is_none();
                let upto = &c.frames[..c.snap_frames.min(c.frames.len())];
                if alive && upto.iter().any(|(_, f)| *f == Note::Linked) && !upto.iter().any(|(_, f)| *f == Note::Unlinked) {
                    v.fail(
                        "unlinked-missing/output-half-failed",
                        format!(
                            "the remote stopped reading the runtime's output at seq {} (outgoing half failed); a command was delivered afterwards, the runtime ran until idle, another command was delivered and everything drained, yet consumer {} was not told unlinked (runtime still running: {}); frames {:?}",
                            t, ci, obs.snap_running, upto
                        ),
                    );
                }
            }
            v.class("outgoing-half-failed-then-two-commands");
        }
    }
    // the runtime stopped on its own idle vote: it may only do so with everything flushed
    let idle_stop = !obs.snap_running && undisturbed && unlinked_idx.is_none();
    if idle_stop {
        if let Some(n) = obs.truncated {
            v.fail(
                "wire-truncated-frame/idle-stop",
                format!(
                    "the runtime stopped because nobody was attached for empty_timeout and closed its output in the middle of a frame ({} bytes of an incomplete frame; the lane had received {:?})",
                    n,
                    obs.received.iter().map(|(_, r)| r).collect::<Vec<_>>().len()
                ),
            );
        }
    }

    // ---- commands
    let cmds: Vec<&Ev> = obs.received[..obs.snap_received]
        .iter()
        .filter_map(|(_, r)| match r {
            Req::Command(e) => Some(e),
            _ => None,
        })
        .collect();
    // what each consumer sent (fully written operations, in order)
    let sent: Vec<Vec<Ev>> = obs
        .consumers
        .iter()
        .map(|c| c.sent.iter().filter(|s| s.written.is_some()).map(|s| s.w.ev()).collect())
        .collect();
    let total_sent: usize = sent.iter().map(|s| s.len()).sum();
    let writers: Vec<usize> = (0..sent.len()).filter(|i| !sent[*i].is_empty()).collect();
    let mut quiescent = live_link || (undisturbed && obs.snap_running);
    let mut coalesced = false;

    // unique bodies -> (consumer, index)
    let mut origin: HashMap<Vec<u8>, (usize, usize)> = HashMap::new();
    for (ci, s) in sent.iter().enumerate() {
        for (i, e) in s.iter().enumerate() {
            match e {
                Ev::Val(b) if !b.is_empty() => {
                    origin.insert(b.clone(), (ci, i));
                }
                Ev::Upd(_, b) => {
                    origin.insert(b.clone(), (ci, i));
                }
                _ => {}
            }
        }
    }
    let count = |pred: &dyn Fn(&Ev) -> bool| -> (usize, usize) {
        (
            cmds.iter().filter(|e| pred(e)).count(),
            sent.iter().flatten().filter(|e| pred(e)).count(),
        )
    };
    // no fabrication, no duplication, per consumer order
    let mut last_idx: HashMap<(usize, Option<u8>), usize> = HashMap::new();
    let mut seen_unique: HashMap<Vec<u8>, usize> = HashMap::new();
    for (x, e) in cmds.iter().enumerate() {
        let unique_body = match e {
            Ev::Val(b) if !b.is_empty() => Some((b, None)),
            Ev::Upd(k, b) => Some((b, Some(*k))),
            Ev::Bad(b) => {
                v.fail(
                    format!("command-fabricated:{}", kn),
                    format!("the lane received an unintelligible command {:?}", String::from_utf8_lossy(b)),
                );
                None
            }
            _ => None,
        };
        if let Some((b, key)) = unique_body {
            match origin.get(b) {
                None => v.fail(
                    format!("command-fabricated:{}", kn),
                    format!("the lane received {} which no consumer sent; sent {:?}", e.show(), sent.iter().map(|s| show_evs(s)).collect::<Vec<_>>()),
                ),
                Some((ci, i)) => {
                    if sent[*ci][*i] != **e {
                        v.fail(
                            format!("command-fabricated:{}", kn),
                            format!("the lane received {} but consumer {} sent {}", e.show(), ci, sent[*ci][*i].show()),
                        );
                    }
                    if seen_unique.insert(b.clone(), x).is_some() {
                        v.fail(
                            format!("command-duplicated:{}", kn),
                            format!("the lane received {} twice; all received {}", e.show(), show_evs(cmds.iter().copied())),
                        );
                    } else if let Some(prev) = last_idx.get(&(*ci, key)) {
                        if *i < *prev {
                            v.fail(
                                format!("command-reordered:{}", kn),
                                format!(
                                    "consumer {} sent {} but the lane received {} after a later one; received {}",
                                    ci,
                                    show_evs(&sent[*ci]),
                                    e.show(),
                                    show_evs(cmds.iter().copied())
                                ),
                            );
                        }
                    }
                    let ent = last_idx.entry((*ci, key)).or_insert(*i);
                    *ent = (*ent).max(*i);
                }
            }
        }
    }
    // contents that do not identify their sender: never more than were sent
    match kind {
        Kind::Value => {
            let (r, s) = count(&|e| matches!(e, Ev::Val(b) if b.is_empty()));
            if r > s {
                v.fail("command-fabricated:value", format!("the lane received {} empty commands, {} were sent", r, s));
            }
        }
        Kind::Map => {
            for k in 0..NKEYS {
                let (r, s) = count(&|e| *e == Ev::Rem(k));
                if r > s {
                    v.fail(
                        "command-fabricated:map",
                        format!("the lane received {} removes of {}, {} were sent", r, canon_spelling(k), s),
                    );
                }
            }
            let (r, s) = count(&|e| *e == Ev::Clr);
            if r > s {
                v.fail("command-fabricated:map", format!("the lane received {} clears, {} were sent", r, s));
            }
        }
    }

    // After an idle stop the laws still hold for consumers that were certainly registered on the write
    // side (the lane received something only they can have sent): everything they wrote before they
    // went away was read by the write task, and it only votes to stop when idle and flushed. A consumer
    // that attached while the stop was being decided may legitimately lose everything.
    if idle_stop && !writers.is_empty() {
        let certain = |w: &usize| cmds.iter().any(|e| match e {
            Ev::Val(b) if !b.is_empty() => origin.get(b).map_or(false, |(ci, _)| ci == w),
            Ev::Upd(_, b) => origin.get(b).map_or(false, |(ci, _)| ci == w),
            _ => false,
        });
        if writers.iter().all(certain) {
            quiescent = true;
            v.class("idle-stop-command-laws");
        }
    }
    if quiescent {
        if cmds.len() < total_sent {
            coalesced = true;
        }
        let detail = |what: &str| {
            format!(
                "{}: sent per consumer {:?}; the lane received {}",
                what,
                sent.iter().map(|s| show_evs(s)).collect::<Vec<_>>(),
                show_evs(cmds.iter().copied())
            )
        };
        match kind {
            Kind::Value => {
                if writers.len() == 1 {
                    let s = &sent[writers[0]];
                    let got: Vec<Ev> = cmds.iter().map(|e| (*e).clone()).collect();
                    let sref: Vec<&Ev> = s.iter().collect();
                    if !is_subsequence(&got, &sref) {
                        v.fail("command-reordered:value", detail("the received commands are not an in-order subsequence of the single writer's"));
                    }
                }
                if !writers.is_empty() {
                    let last = cmds.last();
                    let candidates: Vec<&Ev> = writers.iter().map(|w| sent[*w].last().unwrap()).collect();
                    if !last.map_or(false, |l| candidates.iter().any(|c| *c == *l)) {
                        let cell = if writers.len() == 1 { "single-writer" } else { "multi-writer" };
                        v.fail(
                            format!("final-state:value/{}", cell),
                            detail("the last command the lane received is not the last command of any consumer (a command that nothing superseded was dropped)"),
                        );
                    }
                }
            }
            Kind::Map => {
                // conflicting operations of one consumer: what was sent later must not be overtaken
                for (x, e) in cmds.iter().enumerate() {
                    let Ev::Upd(k, b) = e else { continue };
                    let Some((ci, i)) = origin.get(b) else { continue };
                    let later_conflict = sent[*ci][*i + 1..].iter().any(|s| s.affects(*k));
                    if later_conflict && !cmds[x + 1..].iter().any(|r| r.affects(*k)) {
                        v.fail(
                            "command-reordered:map/conflict",
                            detail(&format!(
                                "consumer {} sent an operation on key {} (or a clear) after {}, yet nothing affecting that key arrived after it",
                                ci,
                                canon_spelling(*k),
                                e.show()
                            )),
                        );
                    }
                }
                if writers.len() == 1 {
                    let s = &sent[writers[0]];
                    let embed_ok = embeds(s, &cmds);
                    if !embed_ok {
                        v.fail(
                            "command-reordered:map",
                            detail("the received commands are not an order-preserving (per key and across clears) selection of the single writer's"),
                        );
                    }
                    let mut want = State::empty(kind);
                    for e in s {
                        want.apply(e);
                    }
                    let mut got = State::empty(kind);
                    for e in &cmds {
                        got.apply(e);
                    }
                    if want != got {
                        v.fail(
                            "final-state:map/single-writer",
                            detail(&format!(
                                "applying what the lane received gives {} but applying everything that was sent gives {}",
                                got.show(),
                                want.show()
                            )),
                        );
                    }
                } else if writers.len() > 1 {
                    for k in 0..NKEYS {
                        let last = cmds.iter().rev().find(|e| e.affects(k));
                        let candidates: Vec<&Ev> = writers
                            .iter()
                            .filter_map(|w| sent[*w].iter().rev().find(|e| e.affects(k)))
                            .collect();
                        if candidates.is_empty() {
                            continue;
                        }
                        if !last.map_or(false, |l| candidates.iter().any(|c| *c == *l)) {
                            v.fail(
                                "final-state:map/multi-writer",
                                detail(&format!(
                                    "the last received operation affecting key {} is {:?}, which is no consumer's last operation affecting it",
                                    canon_spelling(k),
                                    last.map(|e| e.show())
                                )),
                            );
                        }
                    }
                }
            }
        }
    }

    // ---- evidence
    if late_join || coalesced {
        v.nontrivial();
    }
    v.class_if(late_join, "attach-after-linked");
    v.class_if(late_sync, "late-sync-consumer");
    v.class_if(late_nosync, "late-nosync-consumer");
    v.class_if(join_during_sync, "attach-during-sync");
    v.class_if(coalesced, "commands-coalesced");
    v.class_if(obs.consumers.len() >= 2, "consumers>=2");
    v.class_if(obs.consumers.len() >= 4, "consumers>=4");
    v.class_if(writers.len() == 1, "single-writer");
    v.class_if(writers.len() >= 2, "multi-writer");
    v.class_if(obs.consumers.iter().any(|c| c.dropped.is_some()), "consumer-dropped");
    v.class_if(unlinked_idx.is_some(), "remote-unlinked");
    v.class_if(clean_unlinked, "clean-unlinked");
    v.class_if(obs.remote_closed.is_some(), "remote-closed");
    v.class_if(obs.reader_closed.is_some(), "outgoing-half-failed");
    // the shape of seeded change C07-8: a sync reply (event immediately followed by synced, both in the
    // runtime's input before it ran again) arrives while another consumer that listens had already read
    // linked, nothing is emitted afterwards, and the link is still up at the fixpoint
    {
        let mut shape = false;
        for j in 1..obs.snap_emitted.min(obs.emitted.len()) {
            let (EmKind::Synced { .. }, EmKind::Event(_)) = (&obs.emitted[j].kind, &obs.emitted[j - 1].kind) else { continue };
            let (Some(pe), Some(ps)) = (obs.emitted[j - 1].pumped, obs.emitted[j].pumped) else { continue };
            let together = !obs.idle_at.iter().any(|i| *i > pe && *i < ps);
            let quiet = j + 1 == obs.snap_emitted;
            let listener_before = obs.consumers.iter().any(|c| {
                c.dropped.is_none()
                    && c.reader_dropped.is_none()
                    && c.frames.iter().any(|(s, f)| *f == Note::Linked && *s < obs.emitted[j - 1].seq)
            });
            let late_sync = obs.consumers.iter().filter(|c| c.sync).count() >= 2;
            if together && quiet && listener_before && late_sync && live_link {
                shape = true;
            }
        }
        v.class_if(shape, "sync-reply-delivered-together-to-registered-listener-then-quiet");
    }
    v.class_if(obs.consumers.iter().any(|c| c.reader_dropped.is_some()), "consumer-stopped-listening");
    v.class_if(obs.snap_stopped, "stopped-by-op");
    v.class_if(live_link, "link-up-at-end");
    v.class_if(!obs.snap_running && undisturbed && unlinked_idx.is_none(), "timeout-stop");
    v.class_if(
        obs.consumers.iter().any(|c| c.sync && c.frames.iter().any(|(_, f)| *f == Note::Synced)),
        "some-consumer-synced",
    );
    v.class_if(
        obs.emitted.iter().filter(|e| matches!(e.kind, EmKind::Event(_))).count() >= 3,
        "events>=3",
    );
    v.class_if(cmds.iter().any(|e| matches!(e, Ev::Val(b) if b.is_empty())), "empty-body-command");
    v.class_if(case.ops.iter().any(|o| matches!(o, Op::RReadFrames { .. })), "burst");
    v.class_if(
        obs.consumers.iter().any(|c| c.sent.iter().any(|s| s.w.is_big() && s.written.is_some())),
        "frame>8KiB-delivered",
    );
    if kind == Kind::Map {
        // Proxies (from the histories; the queue itself is not observable) for the states of the map
        // back-pressure queue that need a clear to go THROUGH the queue and be written while keyed entries
        // stay behind: (A) when the lane read a clear, >= 2 later updates of distinct keys by the consumer
        // that sent the clear were already delivered to the runtime and had not reached the lane;
        // (B) after such a clear, the consumer delivered another operation on a key that at that moment
        // had an outstanding update followed by an outstanding update of a different key.
        let mut recv_time: HashMap<Vec<u8>, u64> = HashMap::new();
        let mut clear_times: Vec<u64> = vec![];
        for (t, r) in &obs.received[..obs.snap_received] {
            match r {
                Req::Command(Ev::Upd(_, b)) => {
                    recv_time.entry(b.clone()).or_insert(*t);
                }
                Req::Command(Ev::Clr) => clear_times.push(*t),
                _ => {}
            }
        }
        let mut class_a = false;
        let mut class_b = false;
        for t in &clear_times {
            for c in &obs.consumers {
                let ops: Vec<(u64, Ev)> = c
                    .sent
                    .iter()
                    .filter_map(|s| s.written.map(|w| (w, s.w.ev())))
                    .collect();
                let Some(j) = ops.iter().rposition(|(w, e)| *e == Ev::Clr && *w < *t) else { continue };
                let outstanding_at = |upto: usize, at: u64| -> Vec<(usize, u8)> {
                    // latest outstanding update per key among ops (j, upto), in sending order
                    let mut out: Vec<(usize, u8)> = vec![];
                    for (i, (w, e)) in ops.iter().enumerate().take(upto).skip(j + 1) {
                        if let Ev::Upd(k, b) = e {
                            if *w < at && recv_time.get(b).map_or(true, |rt| *rt > at) {
                                out.retain(|(_, k2)| k2 != k);
                                out.push((i, *k));
                            }
                        }
                    }
                    out
                };
                if outstanding_at(ops.len(), *t).len() >= 2 {
                    class_a = true;
                }
                for (i2, (w2, e2)) in ops.iter().enumerate().skip(j + 1) {
                    if *w2 <= *t {
                        continue;
                    }
                    let Some(k) = e2.key() else { continue };
                    let out = outstanding_at(i2, *w2);
                    if let Some(pos) = out.iter().position(|(_, k2)| *k2 == k) {
                        if pos + 1 < out.len() {
                            class_b = true;
                        }
                    }
                }
            }
        }
        v.class_if(class_a, "clear-written-with>=2-entries-behind");
        v.class_if(class_b, "op-on-queued-non-tail-key-after-written-clear");
        let mut spell: BTreeMap<(usize, u8), Vec<u8>> = BTreeMap::new();
        let mut respelled = false;
        for (ci, c) in obs.consumers.iter().enumerate() {
            for s in &c.sent {
                if let W::Upd { k, .. } | W::Rem { k } = &s.w {
                    let key = KEYS[*k as usize % KEYS.len()].1;
                    let e = spell.entry((ci, key)).or_default();
                    if !e.contains(k) {
                        e.push(*k);
                    }
                    if e.len() > 1 {
                        respelled = true;
                    }
                }
            }
        }
        v.class_if(respelled, "key-respelled");
    }
    v
}

/// Is `cmds` a selection of `sent` (content-wise) in which conflicting operations (same key, or either
/// a clear) keep their order? Greedy earliest match is complete because equal operations conflict.
fn embeds(sent: &[Ev], cmds: &[&Ev]) -> bool {
    let mut used = vec![false; sent.len()];
    let mut fpos: Vec<usize> = vec![];
    for (x, e) in cmds.iter().enumerate() {
        let lower = (0..x)
            .filter(|y| conflicts(cmds[*y], e))
            .map(|y| fpos[y] + 1)
            .max()
            .unwrap_or(0);
        match (lower..sent.len()).find(|j| !used[*j] && sent[*j] == **e) {
            Some(j) => {
                used[j] = true;
                fpos.push(j);
            }
            None => return false,
        }
    }
    true
}

// ---------------------------------------------------------------------------------------------
// the map back-pressure queue on its own (small scope, exhaustive)

/// One symbol per step: 0 upd a, 1 upd "a" (the same Recon key), 2 upd b, 3 upd c, 4 rem a, 5 rem b,
/// 6 clear, 7 pop (what the write task does when a blocked write completes), 8 upd / 9 rem with a key that is
/// not valid UTF-8 (must be refused by itself and change nothing else).
#[derive(Clone, Debug, Serialize, Deserialize)]
struct QCase {
    ops: Vec<u8>,
}

const QSYMS: u64 = 10;

fn enumerate_queue(depth: u32, worker: usize, workers: usize) -> impl Iterator<Item = QCase> {
    (1..=depth).flat_map(move |d| {
        let total = QSYMS.pow(d);
        (0..total)
            .filter(move |i| (*i as usize) % workers == worker)
            .map(move |mut i| {
                let mut ops = Vec::with_capacity(d as usize);
                for _ in 0..d {
                    ops.push((i % QSYMS) as u8);
                    i /= QSYMS;
                }
                QCase { ops }
            })
    })
}

fn arb_qcase(max: usize) -> impl Strategy<Value = QCase> {
    // pops are frequent so that the queue head moves while entries stay behind
    let sym = prop_oneof![12 => 0u8..4, 4 => 4u8..6, 4 => Just(6u8), 10 => Just(7u8), 1 => 8u8..10];
    proptest::collection::vec(sym, 1..max).prop_map(|ops| QCase { ops })
}

/// The statement's command clause for one writer, on `MapBackpressure` driven exactly as the write task
/// drives it (`push_operation` while a write is pending, `prepare_write` when it completes): what comes out
/// is an order-preserving (per key, across clears) selection of what went in and folds to the same map.
fn check_queue(case: &QCase) -> Verdict {
    use bytes::{Bytes, BytesMut};
    use swimos_agent_protocol::MapOperation;
    use swimos_runtime::verif_hooks::{BackpressureStrategy, MapBackpressure};
    let mut v = Verdict::new();
    let mut q = MapBackpressure::default();
    let mut sent: Vec<Ev> = vec![];
    let mut got: Vec<Ev> = vec![];
    // reference content of the queue (None = clear), to measure the interesting states
    let mut model: Vec<Option<u8>> = vec![];
    let mut clear_popped_with_2 = false;
    let mut after_popped_clear = false;
    let mut non_tail_after_clear = false;
    let mut buffer = BytesMut::new();
    let mut pop = |q: &mut MapBackpressure, got: &mut Vec<Ev>, v: &mut Verdict| {
        if q.has_data() {
            q.prepare_write(&mut buffer);
            let ev = decode_command(Kind::Map, Bytes::copy_from_slice(&buffer));
            if let Ev::Bad(b) = &ev {
                v.fail("queue:undecodable", format!("popped {:?}", String::from_utf8_lossy(b)));
            }
            got.push(ev);
            true
        } else {
            false
        }
    };
    let spell = |k: u8| -> BytesMut { BytesMut::from(KEYS[k as usize].0.as_bytes()) };
    let mut invalid_pushed = false;
    let mut valid_update_after_invalid = false;
    for (i, sym) in case.ops.iter().enumerate() {
        let id = (i + 1).to_string();
        if *sym >= 8 {
            // a key that is not valid UTF-8: refused, and nothing else is affected
            let bad = BytesMut::from(&[b'k', 0xff, 0xfe][..]);
            let raw: MapOperation<BytesMut, BytesMut> = if *sym == 8 {
                MapOperation::Update { key: bad, value: BytesMut::from(id.as_bytes()) }
            } else {
                MapOperation::Remove { key: bad }
            };
            if q.push_operation(raw).is_ok() {
                v.fail("queue:invalid-key-accepted", format!("an operation whose key is not UTF-8 was accepted; ops {:?}", case.ops));
            }
            invalid_pushed = true;
            continue;
        }
        if invalid_pushed && *sym < 4 {
            valid_update_after_invalid = true;
        }
        let op: Option<(MapOperation<BytesMut, BytesMut>, Ev)> = match sym {
            0 => Some((MapOperation::Update { key: spell(0), value: BytesMut::from(id.as_bytes()) }, Ev::Upd(0, id.clone().into_bytes()))),
            1 => Some((MapOperation::Update { key: spell(1), value: BytesMut::from(id.as_bytes()) }, Ev::Upd(0, id.clone().into_bytes()))),
            2 => Some((MapOperation::Update { key: spell(2), value: BytesMut::from(id.as_bytes()) }, Ev::Upd(1, id.clone().into_bytes()))),
            3 => Some((MapOperation::Update { key: spell(4), value: BytesMut::from(id.as_bytes()) }, Ev::Upd(2, id.clone().into_bytes()))),
            4 => Some((MapOperation::Remove { key: spell(0) }, Ev::Rem(0))),
            5 => Some((MapOperation::Remove { key: spell(2) }, Ev::Rem(1))),
            6 => Some((MapOperation::Clear, Ev::Clr)),
            _ => None,
        };
        match op {
            Some((raw, ev)) => {
                if let Some(k) = ev.key() {
                    match model.iter().position(|e| *e == Some(k)) {
                        Some(pos) => {
                            if after_popped_clear && pos + 1 < model.len() {
                                non_tail_after_clear = true;
                            }
                        }
                        None => model.push(Some(k)),
                    }
                } else {
                    model.clear();
                    model.push(None);
                    after_popped_clear = false;
                }
                if let Err(e) = q.push_operation(raw) {
                    v.fail("queue:valid-key-refused", format!("{} (ops {:?})", e, case.ops));
                }
                sent.push(ev);
            }
            None => {
                let popped = pop(&mut q, &mut got, &mut v);
                if popped != !model.is_empty() {
                    v.fail(
                        "queue:pop-emptiness",
                        format!("has_data() = {} but {} entries should be queued; ops {:?}", popped, model.len(), case.ops),
                    );
                }
                if !model.is_empty() {
                    if model.remove(0).is_none() {
                        after_popped_clear = !model.is_empty();
                        if model.len() >= 2 {
                            clear_popped_with_2 = true;
                        }
                    } else if model.is_empty() {
                        after_popped_clear = false;
                    }
                }
            }
        }
    }
    let mut guard = 0;
    while pop(&mut q, &mut got, &mut v) {
        guard += 1;
        if guard > case.ops.len() + 2 {
            v.fail("queue:never-empties", format!("more pops than pushes; ops {:?}", case.ops));
            break;
        }
    }
    let got_ref: Vec<&Ev> = got.iter().collect();
    let detail = |what: &str| format!("{}: pushed {} popped {} (ops {:?})", what, show_evs(&sent), show_evs(&got), case.ops);
    if !embeds(&sent, &got_ref) {
        v.fail("queue:order", detail("the popped operations are not an order-preserving (per key, across clears) selection of the pushed ones"));
    }
    let mut want = State::empty(Kind::Map);
    for e in &sent {
        want.apply(e);
    }
    let mut have = State::empty(Kind::Map);
    for e in &got {
        have.apply(e);
    }
    if want != have {
        v.fail(
            "queue:final-state",
            detail(&format!("applying the popped operations gives {} but applying the pushed ones gives {}", have.show(), want.show())),
        );
    }
    if got.len() < sent.len() {
        v.nontrivial();
    }
    v.class_if(got.len() < sent.len(), "superseded");
    v.class_if(invalid_pushed, "invalid-utf8-key-pushed");
    v.class_if(valid_update_after_invalid, "valid-update-after-invalid-key");
    v.class_if(clear_popped_with_2, "clear-popped-with>=2-entries-queued");
    v.class_if(non_tail_after_clear, "op-on-queued-non-tail-key-after-popped-clear");
    v
}

fn conflicts(a: &Ev, b: &Ev) -> bool {
    match (a, b) {
        (Ev::Clr, _) | (_, Ev::Clr) => true,
        _ => match (a.key(), b.key()) {
            (Some(x), Some(y)) => x == y,
            _ => false,
        },
    }
}

/// The key table is sound: spellings of one key are equal and hash alike for the runtime's
/// `ReconKey`, spellings of different keys differ; and the map codecs used by the harness agree.
fn selftest() -> Result<(), String> {
    use std::hash::Hasher;
    let h = |s: &str| {
        let mut st = std::collections::hash_map::DefaultHasher::new();
        swimos_recon::recon_hash(s, &mut st);
        st.finish()
    };
    for (a, ka) in KEYS.iter() {
        for (b, kb) in KEYS.iter() {
            let eq = swimos_recon::compare_recon_values(a, b);
            if eq != (ka == kb) {
                return Err(format!("compare_recon_values({:?},{:?}) = {}", a, b, eq));
            }
            if ka == kb && h(a) != h(b) {
                return Err(format!("recon_hash differs for {:?} and {:?}", a, b));
            }
        }
    }
    Ok(())
}

fn main() {
    let args: Vec<String> = std::env::args().skip(1).collect();
    let mut ctx = Ctx::new("C07", &args);
    ctx.rule(
        "op lists (attach consumer with options/buffer sizes, consumer queues an operation / writes <=n bytes / reads <=n bytes / \
         drops, remote lane model reads <=n bytes and answers / writes <=n bytes / changes spontaneously / unlinks / connection closes, \
         poll runtime <=k, advance clock, stop, settle) against the real Value/MapDownlinkRuntime with channel capacities 1..4096, \
         generated coop budget, attachment queue, empty timeout and select seed. Non-trivial = a consumer attached after the runtime \
         had certainly processed the lane's `linked` (dl_state != Init), or at the final fixpoint the lane had received fewer commands \
         than were sent (commands were pushed while a write was pending and superseded). Distinct by the Debug form of the case.",
    );
    ctx.assume("the harness remote lane model emits only sequences a real lane can emit (link->linked, sync->replay+synced, command->event, every change of a linked lane is an event)");
    ctx.assume("single-threaded harness-owned schedule: op-level interleavings of the runtime future, the remote and the consumers");
    if let Err(e) = selftest() {
        ctx.inconclusive(format!("key table self test failed: {}", e));
    }
    let n_value = ctx.pick(250_000, 8_000_000);
    let n_map = ctx.pick(250_000, 8_000_000);
    let max_ops = ctx.pick(70, 160);
    ctx.prop("value-session", n_value, move || arb_any_case(Kind::Value, max_ops), check);
    ctx.prop("map-session", n_map, move || arb_any_case(Kind::Map, max_ops), check);
    // the per-key queue behind the map downlink's (and the map uplink's) back-pressure relief, on its own
    let depth = ctx.pick(6, 8);
    ctx.enumerate("map-queue-small-scope", move |w, ws| enumerate_queue(depth, w, ws), check_queue);
    let n_q = ctx.pick(200_000, 10_000_000);
    let qmax = ctx.pick(30, 80);
    ctx.prop("map-queue-random", n_q, move || arb_qcase(qmax), check_queue);
    ctx.finish();
}
