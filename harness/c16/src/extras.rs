//! Second part of the battery: the built-in `Form` implementations that are not serde types
//! (`Blob`, `Timestamp`, `RouteUri`, `Text`, `RetryStrategy`, `Quantity`, `Arc<T>`, `Box<[u8]>`,
//! `NonZeroUsize`, `Duration`) placed in every position of a derived record, and values whose
//! sizes cross the MessagePack marker boundaries (fixmap / map16 / map32, fixarray / array16 /
//! array32, fixstr / str8 / str16 / str32, bin8 / bin16 / bin32, fixext / ext8 / ext16).
//!
//! The battery types carry the real library types (the derive has to see them); serde goes through
//! the `Ser` trait (`#[serde(with = "via_repr")]`), which maps each leaf type to a plain serde value.

use crate::battery::{Battery, TwoFields};
use chrono::{TimeZone, Utc};
use num_bigint::{BigInt, BigUint};
use proptest::prelude::*;
use serde::de::DeserializeOwned;
use serde::{Deserialize, Serialize};
use std::collections::HashMap;
use std::fmt::Debug;
use std::num::NonZeroUsize;
use std::str::FromStr;
use std::sync::Arc;
use std::time::Duration;
use swimos_form::Form;
use swimos_model::{Blob, Text, Timestamp};
use swimos_utilities::future::{Quantity, RetryStrategy};
use swimos_utilities::routing::RouteUri;

/// Conversion to and from a plain serde representation.
pub trait Ser: Sized {
    type Repr: Serialize + DeserializeOwned;
    fn to_repr(&self) -> Self::Repr;
    fn from_repr(repr: Self::Repr) -> Self;
}

pub mod via_repr {
    use super::Ser;
    use serde::{Deserialize, Deserializer, Serialize, Serializer};
    pub fn serialize<T: Ser, S: Serializer>(x: &T, s: S) -> Result<S::Ok, S::Error> {
        x.to_repr().serialize(s)
    }
    pub fn deserialize<'de, T: Ser, D: Deserializer<'de>>(d: D) -> Result<T, D::Error> {
        Ok(T::from_repr(T::Repr::deserialize(d)?))
    }
}

macro_rules! ser_identity {
    ($($ty:ty),*) => {
        $(impl Ser for $ty {
            type Repr = $ty;
            fn to_repr(&self) -> $ty { self.clone() }
            fn from_repr(repr: $ty) -> $ty { repr }
        })*
    };
}
ser_identity!(Vec<u8>, bool, i32, i64, u32, u64, String, (), Duration, NonZeroUsize, TwoFields);

impl Ser for Box<[u8]> {
    type Repr = Vec<u8>;
    fn to_repr(&self) -> Vec<u8> {
        self.to_vec()
    }
    fn from_repr(repr: Vec<u8>) -> Self {
        repr.into_boxed_slice()
    }
}

impl Ser for f64 {
    type Repr = u64;
    fn to_repr(&self) -> u64 {
        self.to_bits()
    }
    fn from_repr(repr: u64) -> f64 {
        f64::from_bits(repr)
    }
}

impl Ser for BigInt {
    type Repr = String;
    fn to_repr(&self) -> String {
        self.to_string()
    }
    fn from_repr(repr: String) -> Self {
        BigInt::from_str(&repr).expect("bad BigInt in case")
    }
}

impl Ser for BigUint {
    type Repr = String;
    fn to_repr(&self) -> String {
        self.to_string()
    }
    fn from_repr(repr: String) -> Self {
        BigUint::from_str(&repr).expect("bad BigUint in case")
    }
}

/// The content of the blob exactly as held (no base64 interpretation).
impl Ser for Blob {
    type Repr = Vec<u8>;
    fn to_repr(&self) -> Vec<u8> {
        self.as_ref().to_vec()
    }
    fn from_repr(repr: Vec<u8>) -> Self {
        Blob::from_vec(repr)
    }
}

impl Ser for Text {
    type Repr = String;
    fn to_repr(&self) -> String {
        self.as_str().to_string()
    }
    fn from_repr(repr: String) -> Self {
        Text::new(&repr)
    }
}

impl Ser for RouteUri {
    type Repr = String;
    fn to_repr(&self) -> String {
        self.as_str().to_string()
    }
    fn from_repr(repr: String) -> Self {
        RouteUri::from_str(&repr).expect("bad route URI in case")
    }
}

/// (seconds, nanoseconds) since the epoch.
impl Ser for Timestamp {
    type Repr = (i64, u32);
    fn to_repr(&self) -> (i64, u32) {
        let dt = self.as_ref();
        (dt.timestamp(), dt.timestamp_subsec_nanos())
    }
    fn from_repr((secs, nanos): (i64, u32)) -> Self {
        Timestamp::from(Utc.timestamp_opt(secs, nanos).single().expect("bad timestamp in case"))
    }
}

impl<T: Ser> Ser for Quantity<T> {
    type Repr = Option<T::Repr>;
    fn to_repr(&self) -> Self::Repr {
        match self {
            Quantity::Finite(t) => Some(t.to_repr()),
            Quantity::Infinite => None,
        }
    }
    fn from_repr(repr: Self::Repr) -> Self {
        match repr {
            Some(r) => Quantity::Finite(T::from_repr(r)),
            None => Quantity::Infinite,
        }
    }
}

#[derive(Clone, Debug, Serialize, Deserialize)]
pub enum RetryRepr {
    None,
    Immediate(NonZeroUsize),
    Interval(Duration, Option<NonZeroUsize>),
    Exponential(Duration, Option<Duration>),
    /// a shape the public constructors cannot produce (kept so that whatever a reader returns can be shown)
    Other(String),
}

impl Ser for RetryStrategy {
    type Repr = RetryRepr;
    fn to_repr(&self) -> RetryRepr {
        match self {
            RetryStrategy::None(_) => RetryRepr::None,
            RetryStrategy::Interval(s) => match (s.delay, s.retry) {
                (None, Quantity::Finite(n)) if n > 0 => RetryRepr::Immediate(NonZeroUsize::new(n).unwrap()),
                (Some(d), Quantity::Finite(n)) if n > 0 => RetryRepr::Interval(d, NonZeroUsize::new(n)),
                (Some(d), Quantity::Infinite) => RetryRepr::Interval(d, None),
                _ => RetryRepr::Other(format!("{:?}", self)),
            },
            RetryStrategy::Exponential(s) => RetryRepr::Exponential(
                s.max_interval,
                match s.max_backoff {
                    Quantity::Finite(d) => Some(d),
                    Quantity::Infinite => None,
                },
            ),
        }
    }
    fn from_repr(repr: RetryRepr) -> Self {
        match repr {
            RetryRepr::None | RetryRepr::Other(_) => RetryStrategy::none(),
            RetryRepr::Immediate(n) => RetryStrategy::immediate(n),
            RetryRepr::Interval(d, n) => RetryStrategy::interval(
                d,
                match n {
                    Some(n) => Quantity::Finite(n),
                    None => Quantity::Infinite,
                },
            ),
            RetryRepr::Exponential(d, b) => RetryStrategy::exponential(
                d,
                match b {
                    Some(b) => Quantity::Finite(b),
                    None => Quantity::Infinite,
                },
            ),
        }
    }
}

impl<T: Ser> Ser for Arc<T> {
    type Repr = T::Repr;
    fn to_repr(&self) -> T::Repr {
        (**self).to_repr()
    }
    fn from_repr(repr: T::Repr) -> Self {
        Arc::new(T::from_repr(repr))
    }
}

impl<T: Ser> Ser for Option<T> {
    type Repr = Option<T::Repr>;
    fn to_repr(&self) -> Self::Repr {
        self.as_ref().map(Ser::to_repr)
    }
    fn from_repr(repr: Self::Repr) -> Self {
        repr.map(T::from_repr)
    }
}

/// NB `Vec<u8>` has its own (identity) implementation above; `u8` is deliberately not `Ser`.
impl<T: Ser> Ser for Vec<T> {
    type Repr = Vec<T::Repr>;
    fn to_repr(&self) -> Self::Repr {
        self.iter().map(Ser::to_repr).collect()
    }
    fn from_repr(repr: Self::Repr) -> Self {
        repr.into_iter().map(T::from_repr).collect()
    }
}

impl<T: Ser> Ser for HashMap<String, T> {
    type Repr = HashMap<String, T::Repr>;
    fn to_repr(&self) -> Self::Repr {
        self.iter().map(|(k, v)| (k.clone(), v.to_repr())).collect()
    }
    fn from_repr(repr: Self::Repr) -> Self {
        repr.into_iter().map(|(k, v)| (k, T::from_repr(v))).collect()
    }
}

// ---------------------------------------------------------------------------------------------
// Leaf strategies

pub trait Leaf: Form + Ser + Clone + Debug + Send + Sync + 'static {
    fn leaf() -> BoxedStrategy<Self>;
}

/// Lengths around the MessagePack marker boundaries that are cheap enough for every sub-check.
pub fn small_len() -> BoxedStrategy<usize> {
    prop_oneof![
        6 => 0usize..6,
        2 => proptest::sample::select(vec![14usize, 15, 16, 17, 31, 32, 33]),
        1 => proptest::sample::select(vec![255usize, 256, 257]),
    ]
    .boxed()
}

/// Lengths for the dedicated `sizes` sub-check (up to the 16 bit boundary).
pub fn big_len() -> BoxedStrategy<usize> {
    prop_oneof![
        3 => proptest::sample::select(vec![15usize, 16, 17, 31, 32, 33, 255, 256, 257]),
        2 => proptest::sample::select(vec![65_534usize, 65_535, 65_536, 65_537]),
        1 => 0usize..300,
    ]
    .boxed()
}

fn bytes_of(len: BoxedStrategy<usize>) -> BoxedStrategy<Vec<u8>> {
    (len, any::<u8>(), any::<u8>())
        .prop_map(|(n, a, step)| (0..n).map(|i| a.wrapping_add((i as u8).wrapping_mul(step))).collect())
        .boxed()
}

fn string_of(len: BoxedStrategy<usize>) -> BoxedStrategy<String> {
    (len, prop_oneof![Just('a'), Just('Z'), Just('é'), Just(' '), Just('"'), Just('日')], any::<bool>())
        .prop_map(|(n, c, ident)| {
            let mut s = String::new();
            if ident {
                s.push('k');
            }
            // length is in bytes for MessagePack: pad with ASCII to hit the boundary exactly
            while s.len() + c.len_utf8() <= n {
                s.push(c);
            }
            while s.len() < n {
                s.push('x');
            }
            s
        })
        .boxed()
}

impl Leaf for Vec<u8> {
    fn leaf() -> BoxedStrategy<Self> {
        prop_oneof![
            3 => proptest::collection::vec(any::<u8>(), 0..8),
            2 => bytes_of(small_len()),
        ]
        .boxed()
    }
}

impl Leaf for Blob {
    fn leaf() -> BoxedStrategy<Self> {
        <Vec<u8> as Leaf>::leaf().prop_map(Blob::from_vec).boxed()
    }
}

impl Leaf for Box<[u8]> {
    fn leaf() -> BoxedStrategy<Self> {
        <Vec<u8> as Leaf>::leaf().prop_map(Vec::into_boxed_slice).boxed()
    }
}

impl Leaf for Text {
    fn leaf() -> BoxedStrategy<Self> {
        prop_oneof![
            3 => vgen::arb_text(),
            1 => string_of(small_len()),
        ]
        .prop_map(|s| Text::new(&s))
        .boxed()
    }
}

/// Timestamps with microsecond precision (the wire form is microseconds since the epoch, so
/// anything finer is not carried by design): the epoch, sub-second values on both sides of it,
/// year 1, year 9999, the limits of chrono's range.
pub fn timestamps() -> BoxedStrategy<Timestamp> {
    let secs = prop_oneof![
        3 => proptest::sample::select(vec![
            0i64, 1, -1, 2, -2, 59, 1_700_000_000, 2_147_483_647, 2_147_483_648, -2_147_483_648, -2_147_483_649,
            4_294_967_296, 253_402_300_799, -62_135_596_800, 8_210_266_876_799, -8_334_601_228_800,
        ]),
        2 => -4_000_000_000i64..4_000_000_000,
        1 => -8_000_000_000_000i64..8_000_000_000_000,
    ];
    let micros = prop_oneof![
        3 => proptest::sample::select(vec![0u32, 1, 999_999, 500_000, 1_000, 999, 123_456]),
        1 => 0u32..1_000_000,
    ];
    (secs, micros)
        .prop_map(|(s, us)| Timestamp::from(Utc.timestamp_opt(s, us * 1000).single().expect("timestamp in range")))
        .boxed()
}

impl Leaf for Timestamp {
    fn leaf() -> BoxedStrategy<Self> {
        timestamps()
    }
}

pub fn durations() -> BoxedStrategy<Duration> {
    let secs = prop_oneof![
        3 => proptest::sample::select(vec![0u64, 1, 59, 300, u32::MAX as u64, u32::MAX as u64 + 1, i64::MAX as u64, i64::MAX as u64 + 1, u64::MAX]),
        1 => any::<u64>(),
        2 => 0u64..100_000,
    ];
    let nanos = prop_oneof![
        3 => proptest::sample::select(vec![0u32, 1, 999_999_999, 500_000_000, 1_000, 1_000_000]),
        1 => 0u32..1_000_000_000,
    ];
    (secs, nanos).prop_map(|(s, n)| Duration::new(s, n)).boxed()
}

impl Leaf for Duration {
    fn leaf() -> BoxedStrategy<Self> {
        durations()
    }
}

pub fn route_uris() -> BoxedStrategy<RouteUri> {
    let fixed = vec![
        "/", ".", "/node", "/a/b/c", "relative", "relative/path", "swim:/node", "swimos:meta:node/unit%2Ffoo/lane/bar", "/unit/%41",
        "/a?q=1", "/a#frag", "/a?q=1#frag", "/with%20space", "/a/", "//", "/%E6%97%A5", "/~tilde", "/a:b", "/;x", "/a,b", "/@at",
        "/(paren)", "/a=b&c", "/0", "mailto:x",
    ];
    prop_oneof![
        2 => proptest::sample::select(fixed).prop_map(|s| s.to_string()),
        1 => proptest::collection::vec("[a-z0-9_.~-]{1,6}", 1..4).prop_map(|segs| format!("/{}", segs.join("/"))),
    ]
    .prop_filter_map("not a route URI", |s| RouteUri::from_str(&s).ok())
    .boxed()
}

impl Leaf for RouteUri {
    fn leaf() -> BoxedStrategy<Self> {
        route_uris()
    }
}

fn non_zero() -> BoxedStrategy<NonZeroUsize> {
    prop_oneof![
        2 => 1usize..20,
        1 => proptest::sample::select(vec![1usize, u32::MAX as usize, u32::MAX as usize + 1, i64::MAX as usize, usize::MAX]),
        1 => 1usize..usize::MAX,
    ]
    .prop_map(|n| NonZeroUsize::new(n).unwrap())
    .boxed()
}

impl Leaf for NonZeroUsize {
    fn leaf() -> BoxedStrategy<Self> {
        non_zero()
    }
}

fn quantity<T: Debug + Clone + 'static>(s: BoxedStrategy<T>) -> BoxedStrategy<Quantity<T>> {
    prop_oneof![3 => s.prop_map(Quantity::Finite), 1 => Just(Quantity::Infinite)].boxed()
}

/// Every shape the public constructors can build.
pub fn retry_strategies() -> BoxedStrategy<RetryStrategy> {
    prop_oneof![
        1 => Just(RetryStrategy::none()),
        2 => non_zero().prop_map(RetryStrategy::immediate),
        2 => (durations(), quantity(non_zero())).prop_map(|(d, q)| RetryStrategy::interval(d, q)),
        2 => (durations(), quantity(durations())).prop_map(|(d, q)| RetryStrategy::exponential(d, q)),
        1 => Just(RetryStrategy::default_exponential()),
        1 => Just(RetryStrategy::default_interval()),
        1 => Just(RetryStrategy::default_immediate()),
    ]
    .boxed()
}

impl Leaf for RetryStrategy {
    fn leaf() -> BoxedStrategy<Self> {
        retry_strategies()
    }
}

impl Leaf for Quantity<Duration> {
    fn leaf() -> BoxedStrategy<Self> {
        quantity(durations())
    }
}

/// Big integers whose byte length crosses the fixext / ext8 / ext16 boundaries.
pub fn sized_bigints() -> BoxedStrategy<BigInt> {
    (
        any::<i64>(),
        prop_oneof![
            4 => 0usize..140,
            2 => proptest::sample::select(vec![0usize, 1, 7, 8, 9, 56, 57, 63, 64, 65, 120, 121, 2031, 2032, 2033, 2040]),
        ],
    )
        .prop_map(|(n, sh)| BigInt::from(n) << sh)
        .boxed()
}

impl Leaf for BigInt {
    fn leaf() -> BoxedStrategy<Self> {
        sized_bigints()
    }
}

impl Leaf for BigUint {
    fn leaf() -> BoxedStrategy<Self> {
        sized_bigints().prop_map(|b| b.magnitude().clone()).boxed()
    }
}

impl Leaf for f64 {
    fn leaf() -> BoxedStrategy<Self> {
        vgen::arb_f64()
    }
}

impl Leaf for bool {
    fn leaf() -> BoxedStrategy<Self> {
        any::<bool>().boxed()
    }
}

impl Leaf for i64 {
    fn leaf() -> BoxedStrategy<Self> {
        prop_oneof![any::<i64>(), -40i64..40, proptest::sample::select(vec![i64::MIN, i64::MAX, 127, 128, -32, -33, 65535, 65536])].boxed()
    }
}

impl Leaf for u64 {
    fn leaf() -> BoxedStrategy<Self> {
        prop_oneof![any::<u64>(), 0u64..40, proptest::sample::select(vec![u64::MAX, i64::MAX as u64 + 1, 127, 128, 255, 256])].boxed()
    }
}

impl Leaf for () {
    fn leaf() -> BoxedStrategy<Self> {
        Just(()).boxed()
    }
}

impl Leaf for TwoFields {
    fn leaf() -> BoxedStrategy<Self> {
        TwoFields::arb()
    }
}

impl<T: Leaf> Leaf for Arc<T> {
    fn leaf() -> BoxedStrategy<Self> {
        T::leaf().prop_map(Arc::new).boxed()
    }
}

// ---------------------------------------------------------------------------------------------
// Generic containers putting a leaf type into each position

/// The body of the record is the value.
#[derive(Form, Clone, Debug, Serialize, Deserialize)]
#[serde(bound(serialize = "T: Ser", deserialize = "T: Ser"))]
pub struct BodyOf<T> {
    #[form(header)]
    h: Option<i32>,
    #[form(body)]
    #[serde(with = "via_repr")]
    b: T,
}

impl<T: Leaf> Battery for BodyOf<T> {
    fn arb() -> BoxedStrategy<Self> {
        (proptest::option::of(-3i32..300), T::leaf()).prop_map(|(h, b)| BodyOf { h, b }).boxed()
    }
}

/// The body of a header-less record is the value (only the tag attribute precedes it).
#[derive(Form, Clone, Debug, Serialize, Deserialize)]
#[serde(bound(serialize = "T: Ser", deserialize = "T: Ser"))]
#[form(tag = "bare")]
pub struct BareBodyOf<T> {
    #[form(body)]
    #[serde(with = "via_repr")]
    b: T,
}

impl<T: Leaf> Battery for BareBodyOf<T> {
    fn arb() -> BoxedStrategy<Self> {
        T::leaf().prop_map(|b| BareBodyOf { b }).boxed()
    }
}

/// The value in attribute, header body, header slot, slot, optional slot, sequence, map and `Arc`
/// positions.
#[derive(Form, Clone, Debug, Serialize, Deserialize)]
#[serde(bound(serialize = "T: Ser", deserialize = "T: Ser"))]
pub struct Positions<T> {
    #[form(attr)]
    #[serde(with = "via_repr")]
    a: T,
    #[form(header_body)]
    #[serde(with = "via_repr")]
    hb: T,
    #[form(header)]
    #[serde(with = "via_repr")]
    h: T,
    #[serde(with = "via_repr")]
    s: T,
    #[serde(with = "via_repr")]
    o: Option<T>,
    #[serde(with = "via_repr")]
    v: Vec<T>,
    #[serde(with = "via_repr")]
    m: HashMap<String, T>,
    #[serde(with = "via_repr")]
    arc: Arc<T>,
}

impl<T: Leaf> Battery for Positions<T>
where
    Vec<T>: Ser,
{
    fn arb() -> BoxedStrategy<Self> {
        (
            (T::leaf(), T::leaf(), T::leaf(), T::leaf()),
            proptest::option::of(T::leaf()),
            proptest::collection::vec(T::leaf(), 0..3),
            proptest::collection::hash_map("[a-z]{1,4}", T::leaf(), 0..3),
            T::leaf(),
        )
            .prop_map(|((a, hb, h, s), o, v, m, arc)| Positions { a, hb, h, s, o, v, m, arc: Arc::new(arc) })
            .boxed()
    }
}

/// Top level: a newtype is represented exactly as its content.
#[derive(Form, Clone, Debug, Serialize, Deserialize)]
#[serde(bound(serialize = "T: Ser", deserialize = "T: Ser"))]
#[form(newtype)]
pub struct Top<T>(#[serde(with = "via_repr")] T);

impl<T: Leaf> Battery for Top<T> {
    fn arb() -> BoxedStrategy<Self> {
        T::leaf().prop_map(Top).boxed()
    }
}

/// The runtime's map update message: header slot + `Arc` body.
#[derive(Form, Clone, Debug, Serialize, Deserialize)]
#[serde(bound(serialize = "K: Ser, V: Ser", deserialize = "K: Ser, V: Ser"))]
pub enum MapUpdateArc<K, V> {
    #[form(tag = "update")]
    Update(#[form(header, name = "key")] #[serde(with = "via_repr")] K, #[form(body)] #[serde(with = "via_repr")] Arc<V>),
    #[form(tag = "remove")]
    Remove(#[form(header, name = "key")] #[serde(with = "via_repr")] K),
    #[form(tag = "clear")]
    Clear,
}

impl<K: Leaf, V: Leaf> Battery for MapUpdateArc<K, V> {
    fn arb() -> BoxedStrategy<Self> {
        prop_oneof![
            3 => (K::leaf(), V::leaf()).prop_map(|(k, v)| MapUpdateArc::Update(k, Arc::new(v))),
            1 => K::leaf().prop_map(MapUpdateArc::Remove),
            1 => Just(MapUpdateArc::Clear),
        ]
        .boxed()
    }
}

/// The remaining built-ins as ordinary slots.
#[derive(Form, Clone, Debug, Serialize, Deserialize)]
pub struct Builtins {
    #[serde(with = "via_repr")]
    retry: RetryStrategy,
    #[serde(with = "via_repr")]
    retries: Vec<RetryStrategy>,
    #[serde(with = "via_repr")]
    q: Quantity<Duration>,
    #[form(header)]
    nz: NonZeroUsize,
    #[form(attr)]
    d: Duration,
    #[serde(with = "via_repr")]
    boxed: Box<[u8]>,
    #[serde(with = "via_repr")]
    uri: Option<RouteUri>,
}

impl Battery for Builtins {
    fn arb() -> BoxedStrategy<Self> {
        (
            retry_strategies(),
            proptest::collection::vec(retry_strategies(), 0..3),
            quantity(durations()),
            non_zero(),
            durations(),
            <Box<[u8]> as Leaf>::leaf(),
            proptest::option::of(route_uris()),
        )
            .prop_map(|(retry, retries, q, nz, d, boxed, uri)| Builtins { retry, retries, q, nz, d, boxed, uri })
            .boxed()
    }
}

// ---------------------------------------------------------------------------------------------
// Sizes

/// 16 attributes after the tag: the attribute map of the MessagePack form is a map16.
#[derive(Form, Clone, Debug, Serialize, Deserialize)]
pub struct ManyAttrs {
    #[form(attr)]
    a0: i32,
    #[form(attr)]
    a1: i32,
    #[form(attr)]
    a2: i32,
    #[form(attr)]
    a3: i32,
    #[form(attr)]
    a4: i32,
    #[form(attr)]
    a5: i32,
    #[form(attr)]
    a6: i32,
    #[form(attr)]
    a7: i32,
    #[form(attr)]
    a8: i32,
    #[form(attr)]
    a9: i32,
    #[form(attr)]
    a10: i32,
    #[form(attr)]
    a11: i32,
    #[form(attr)]
    a12: i32,
    #[form(attr)]
    a13: Option<i32>,
    #[form(attr)]
    a14: Option<i32>,
    #[form(attr)]
    a15: Option<bool>,
    x: i32,
}

impl Battery for ManyAttrs {
    fn arb() -> BoxedStrategy<Self> {
        (
            proptest::collection::vec(-3i32..300, 13),
            proptest::option::weighted(0.8, -3i32..300),
            proptest::option::weighted(0.8, -3i32..300),
            proptest::option::weighted(0.8, any::<bool>()),
            -3i32..300,
        )
            .prop_map(|(a, a13, a14, a15, x)| ManyAttrs {
                a0: a[0],
                a1: a[1],
                a2: a[2],
                a3: a[3],
                a4: a[4],
                a5: a[5],
                a6: a[6],
                a7: a[7],
                a8: a[8],
                a9: a[9],
                a10: a[10],
                a11: a[11],
                a12: a[12],
                a13,
                a14,
                a15,
                x,
            })
            .boxed()
    }
}

/// 17 slots (two optional): the body of the MessagePack form is a fixmap of 15 or a map16 of 16 / 17;
/// 16 header slots likewise for the body of the tag attribute.
#[derive(Form, Clone, Debug, Serialize, Deserialize)]
pub struct ManyFields {
    f0: i32,
    f1: i32,
    f2: i32,
    f3: i32,
    f4: i32,
    f5: i32,
    f6: i32,
    f7: i32,
    f8: i32,
    f9: i32,
    f10: i32,
    f11: i32,
    f12: i32,
    f13: i32,
    f14: String,
    f15: Option<i32>,
    f16: Option<bool>,
    #[form(header)]
    h0: i32,
    #[form(header)]
    h1: i32,
    #[form(header)]
    h2: i32,
    #[form(header)]
    h3: i32,
    #[form(header)]
    h4: i32,
    #[form(header)]
    h5: i32,
    #[form(header)]
    h6: i32,
    #[form(header)]
    h7: i32,
    #[form(header)]
    h8: i32,
    #[form(header)]
    h9: i32,
    #[form(header)]
    h10: i32,
    #[form(header)]
    h11: i32,
    #[form(header)]
    h12: i32,
    #[form(header)]
    h13: i32,
    #[form(header)]
    h14: Option<i32>,
    #[form(header)]
    h15: Option<i32>,
}

impl Battery for ManyFields {
    fn arb() -> BoxedStrategy<Self> {
        (
            proptest::collection::vec(-3i32..300, 14),
            "[a-z]{0,3}",
            proptest::option::weighted(0.7, -3i32..300),
            proptest::option::weighted(0.7, any::<bool>()),
            proptest::collection::vec(-3i32..300, 14),
            proptest::option::weighted(0.7, -3i32..300),
            proptest::option::weighted(0.7, -3i32..300),
        )
            .prop_map(|(f, f14, f15, f16, h, h14, h15)| ManyFields {
                f0: f[0],
                f1: f[1],
                f2: f[2],
                f3: f[3],
                f4: f[4],
                f5: f[5],
                f6: f[6],
                f7: f[7],
                f8: f[8],
                f9: f[9],
                f10: f[10],
                f11: f[11],
                f12: f[12],
                f13: f[13],
                f14,
                f15,
                f16,
                h0: h[0],
                h1: h[1],
                h2: h[2],
                h3: h[3],
                h4: h[4],
                h5: h[5],
                h6: h[6],
                h7: h[7],
                h8: h[8],
                h9: h[9],
                h10: h[10],
                h11: h[11],
                h12: h[12],
                h13: h[13],
                h14,
                h15,
            })
            .boxed()
    }
}

/// Collections, strings and blobs whose lengths sit on the marker boundaries; nested records with
/// many attributes (the attribute map of a *nested* record takes a different reader path).
#[derive(Form, Clone, Debug, Serialize, Deserialize)]
pub struct Sizes {
    v: Vec<i32>,
    m: HashMap<i32, bool>,
    s: String,
    b: Vec<u8>,
    #[form(attr)]
    av: Vec<bool>,
    #[form(header)]
    hm: HashMap<String, i32>,
    nested: Vec<ManyAttrs>,
    keyed: HashMap<String, ManyFields>,
    recs: Vec<TwoFields>,
}

fn sizes_with(len: fn() -> BoxedStrategy<usize>) -> BoxedStrategy<Sizes> {
    // at most one of the collections is long in any one case (keeps the cost of a case bounded)
    (
        (0usize..7, len()),
        any::<i32>(),
        proptest::collection::vec(ManyAttrs::arb(), 0..2),
        proptest::collection::hash_map("[a-z]{1,3}", ManyFields::arb(), 0..2),
        (0usize..3, TwoFields::arb()),
    )
        .prop_flat_map(|((which, n), seed, nested, keyed, (nrecs, rec))| {
            let pick = move |i: usize| if which == i { n } else { (seed.unsigned_abs() as usize >> (4 * i)) % 4 };
            let key_len = if which == 6 { n.clamp(1, 300) } else { 2 };
            (
                Just((pick(0), pick(1), pick(4), pick(5), key_len)),
                string_of(Just(pick(2)).boxed()),
                bytes_of(Just(pick(3)).boxed()),
                Just((seed, nested, keyed, nrecs, rec)),
            )
        })
        .prop_map(|((nv, nm, nav, nhm, key_len), s, b, (seed, nested, keyed, nrecs, rec))| Sizes {
            v: (0..nv as i32).map(|i| i.wrapping_mul(seed | 1)).collect(),
            m: (0..nm as i32).map(|i| (i.wrapping_add(seed), i % 3 == 0)).collect(),
            s,
            b,
            av: (0..nav).map(|i| (i + seed.unsigned_abs() as usize) % 2 == 0).collect(),
            hm: (0..nhm).map(|i| (format!("{:0width$}", i, width = key_len), i as i32)).collect(),
            nested,
            keyed,
            recs: (0..nrecs).map(|_| rec.clone()).collect(),
        })
        .boxed()
}

impl Battery for Sizes {
    fn arb() -> BoxedStrategy<Self> {
        sizes_with(small_len)
    }
}

impl Sizes {
    pub fn arb_big() -> BoxedStrategy<Self> {
        sizes_with(big_len)
    }
}
