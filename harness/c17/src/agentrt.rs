//! Sub-check `agent-runtime`: the inactivity clause of C17 decided against the REAL agent runtime
//! (`AgentRouteTask::run_agent`: read task + write task + HTTP task + the three-party timeout coordinator) with a
//! real `AgentModel` agent, polled by the harness (vsim) on a paused clock that is advanced 1 ms at a time.
//!
//! Clause: "an agent ... runtime stops for inactivity only when every one of its constituent tasks has an outstanding
//! vote to stop at the same moment". Each task casts its vote `inactive_timeout` after its last own activity and
//! withdraws it on its next own activity (agent/task/mod.rs: read task = an envelope from a remote, any lane, known or
//! not; write task = a lane event from the agent, whether or not any remote is linked / writable; HTTP task = a
//! request). Hence, if the agent stops for inactivity at instant t, no task had own activity in the open interval
//! (t - inactive_timeout, t).

use parking_lot::Mutex;
use proptest::prelude::*;
use serde::{Deserialize, Serialize};
use std::sync::atomic::{AtomicI64, AtomicU64, Ordering};
use std::sync::Arc;
use std::time::Duration;
use swimos::agent::agent_lifecycle::HandlerContext;
use swimos::agent::agent_model::AgentModel;
use swimos::agent::event_handler::{EventHandler, HandlerActionExt};
use swimos::agent::lanes::{CommandLane, ValueLane};
use swimos::agent::{lifecycle, projections, AgentLaneModel};
use vcommon::Verdict;
use vsim::{block_on_paused, Req, Sim, SimParams};

#[projections]
#[derive(AgentLaneModel)]
pub struct TAgent {
    v0: ValueLane<i64>,
    v1: ValueLane<i64>,
    ctl: CommandLane<i64>,
}

#[derive(Clone, Debug, PartialEq, Eq)]
enum TEv {
    /// on_event of value lane 0 / 1: the agent emitted a lane event
    Lane(u8),
    Stop,
}

struct TShared {
    start: Mutex<Option<tokio::time::Instant>>,
    log: Mutex<Vec<(u64, TEv)>>,
    next: AtomicI64,
}

impl TShared {
    fn now_ms(&self) -> u64 {
        let s = self.start.lock().expect("start is set before the agent runs");
        tokio::time::Instant::now().duration_since(s).as_millis() as u64
    }
    fn rec(&self, e: TEv) {
        let t = self.now_ms();
        self.log.lock().push((t, e));
    }
}

#[derive(Clone)]
struct TLifecycle {
    shared: Arc<TShared>,
}

type Ctx = HandlerContext<TAgent>;

#[lifecycle(TAgent)]
impl TLifecycle {
    #[on_stop]
    fn on_stop(&self, context: Ctx) -> impl EventHandler<TAgent> {
        let sh = self.shared.clone();
        context.effect(move || sh.rec(TEv::Stop))
    }

    #[on_event(v0)]
    fn v0_event(&self, context: Ctx, _value: &i64) -> impl EventHandler<TAgent> {
        let sh = self.shared.clone();
        context.effect(move || sh.rec(TEv::Lane(0)))
    }

    #[on_event(v1)]
    fn v1_event(&self, context: Ctx, _value: &i64) -> impl EventHandler<TAgent> {
        let sh = self.shared.clone();
        context.effect(move || sh.rec(TEv::Lane(1)))
    }

    /// Command `2 * delay_ms + lane`: set value lane `lane` after `delay_ms` (an agent-side lane event that is not
    /// accompanied by any envelope).
    #[on_command(ctl)]
    fn on_ctl(&self, context: Ctx, value: &i64) -> impl EventHandler<TAgent> {
        let n = (*value).max(0);
        let (delay, lane) = ((n / 2) as u64, n % 2);
        let v = self.shared.next.fetch_add(1, Ordering::SeqCst);
        let set: Box<dyn EventHandler<TAgent> + Send> = if lane == 0 {
            Box::new(context.set_value(TAgent::V0, v))
        } else {
            Box::new(context.set_value(TAgent::V1, v))
        };
        context.run_after(Duration::from_millis(delay), set).discard()
    }
}

const LANES: [&str; 3] = ["v0", "v1", "ctl"];
const UNKNOWN: [&str; 2] = ["nolane", "v00"];

#[derive(Clone, Debug, PartialEq, Eq, Serialize, Deserialize)]
pub enum Action {
    /// command to the control lane: value lane `lane` is set `delay` ms later by a timer of the agent
    Later { r: u8, delay: u64, lane: u8 },
    /// command (set) to a value lane
    Cmd { r: u8, lane: u8 },
    Link { r: u8, lane: u8 },
    Sync { r: u8, lane: u8 },
    /// command / link / sync addressed to a lane the agent does not have
    UnknownCmd { r: u8, which: u8 },
    UnknownLink { r: u8, which: u8 },
    UnknownSync { r: u8, which: u8 },
    Http,
    /// remote r reads at most n bytes of responses (its writer stays busy otherwise)
    Read { r: u8, n: usize },
}

#[derive(Clone, Debug, Serialize, Deserialize)]
pub struct Case {
    seed: u64,
    budget: usize,
    timeout_ms: u64,
    /// response channel capacity per remote (1-2 remotes, all attached at time 0)
    remotes: Vec<usize>,
    /// (virtual ms, action), executed in order of time
    timeline: Vec<(u64, Action)>,
    horizon_ms: u64,
}

fn arb_time(t: u64) -> impl Strategy<Value = u64> {
    // instants around multiples of the timeout (+-1 ms, half of it), and anywhere
    prop_oneof![
        3 => (1u64..4, prop_oneof![Just(-1i64), Just(0), Just(1)]).prop_map(move |(k, d)| ((k * t) as i64 + d).max(0) as u64),
        2 => (0u64..6).prop_map(move |k| k * t / 2 + 1),
        3 => 0u64..(4 * t),
    ]
}

fn arb_action(t: u64) -> impl Strategy<Value = Action> {
    let delay = prop_oneof![
        2 => Just(t + 1),
        2 => Just(t - 1),
        2 => (t / 2)..(2 * t),
        1 => 1u64..t,
    ];
    prop_oneof![
        6 => (0u8..2, delay, 0u8..2).prop_map(|(r, delay, lane)| Action::Later { r, delay, lane }),
        2 => (0u8..2, 0u8..2).prop_map(|(r, lane)| Action::Cmd { r, lane }),
        2 => (0u8..2, 0u8..2).prop_map(|(r, lane)| Action::Link { r, lane }),
        1 => (0u8..2, 0u8..2).prop_map(|(r, lane)| Action::Sync { r, lane }),
        6 => (0u8..2, 0u8..2).prop_map(|(r, which)| Action::UnknownCmd { r, which }),
        1 => (0u8..2, 0u8..2).prop_map(|(r, which)| Action::UnknownLink { r, which }),
        1 => (0u8..2, 0u8..2).prop_map(|(r, which)| Action::UnknownSync { r, which }),
        5 => Just(Action::Http),
        1 => (0u8..2, prop_oneof![Just(8usize), Just(usize::MAX)]).prop_map(|(r, n)| Action::Read { r, n }),
    ]
}

pub fn strategy() -> impl Strategy<Value = Case> {
    (
        any::<u64>(),
        prop_oneof![Just(3usize), Just(8), Just(64)],
        prop_oneof![Just(20u64), Just(40)],
        proptest::collection::vec(prop_oneof![Just(1usize), Just(16), Just(4096)], 1..3),
    )
        .prop_flat_map(|(seed, budget, t, remotes)| {
            let timeline = proptest::collection::vec((arb_time(t), arb_action(t)), 1..9);
            (Just(seed), Just(budget), Just(t), Just(remotes), timeline)
        })
        .prop_map(|(seed, budget, t, remotes, mut timeline)| {
            timeline.sort_by_key(|(at, _)| *at);
            Case {
                seed,
                budget,
                timeout_ms: t,
                remotes,
                timeline,
                horizon_ms: 7 * t,
            }
        })
}

/// Deliver every queued request and poll until nothing is woken, WITHOUT reading any response (a remote whose channel
/// is full keeps its writer busy).
fn drive(sim: &mut Sim) {
    let mut rounds = 0;
    loop {
        let mut progress = 0;
        for r in sim.remotes.iter_mut() {
            progress += r.pump(usize::MAX);
        }
        progress += sim.poll(10_000);
        rounds += 1;
        if progress == 0 || rounds > 10_000 {
            break;
        }
    }
}

struct Obs {
    /// own activities (virtual ms) per task: read, write, http
    read: Vec<u64>,
    write: Vec<u64>,
    http: Vec<u64>,
    /// the agent's on_stop ran at this instant
    stop: Option<u64>,
    reasons: Vec<String>,
    result: Option<Result<(), String>>,
}

fn execute(case: &Case) -> Obs {
    block_on_paused(case.seed, async {
        let shared = Arc::new(TShared {
            start: Mutex::new(Some(tokio::time::Instant::now())),
            log: Mutex::new(vec![]),
            next: AtomicI64::new(1),
        });
        let lifecycle = TLifecycle { shared: shared.clone() };
        let agent = AgentModel::new(TAgent::default, lifecycle.into_lifecycle());
        let params = SimParams {
            seed: case.seed,
            budget: case.budget,
            inactive_timeout_ms: case.timeout_ms,
            ..SimParams::default()
        };
        let clock = Arc::new(AtomicU64::new(1));
        let mut sim = Sim::start(&agent, &params, clock, None);
        sim.run_until_idle();
        for cap in &case.remotes {
            sim.attach(4096, *cap);
        }
        drive(&mut sim);
        let nrem = case.remotes.len();
        let (mut read, mut http) = (vec![], vec![]);
        let stopped = |sh: &TShared| sh.log.lock().iter().find(|(_, e)| *e == TEv::Stop).map(|(t, _)| *t);
        let mut next = 0usize;
        let mut ms = 0u64;
        while ms <= case.horizon_ms && stopped(&shared).is_none() && !sim.is_done() {
            if ms > 0 {
                sim.advance(Duration::from_millis(1)).await;
                drive(&mut sim);
                if stopped(&shared).is_some() || sim.is_done() {
                    break;
                }
            }
            while next < case.timeline.len() && case.timeline[next].0 <= ms {
                let (_, action) = &case.timeline[next];
                next += 1;
                let rem = |r: &u8| (*r as usize) % nrem;
                match action {
                    Action::Later { r, delay, lane } => {
                        let body = (2 * *delay as i64 + *lane as i64).to_string();
                        sim.remotes[rem(r)].send("ctl", Req::Command(body.into_bytes()));
                        read.push(ms);
                    }
                    Action::Cmd { r, lane } => {
                        let v = shared.next.fetch_add(1, Ordering::SeqCst);
                        sim.remotes[rem(r)].send(LANES[(*lane % 2) as usize], Req::Command(v.to_string().into_bytes()));
                        read.push(ms);
                    }
                    Action::Link { r, lane } => {
                        sim.remotes[rem(r)].send(LANES[(*lane % 2) as usize], Req::Link);
                        read.push(ms);
                    }
                    Action::Sync { r, lane } => {
                        sim.remotes[rem(r)].send(LANES[(*lane % 2) as usize], Req::Sync);
                        read.push(ms);
                    }
                    Action::UnknownCmd { r, which } => {
                        sim.remotes[rem(r)].send(UNKNOWN[(*which % 2) as usize], Req::Command(b"1".to_vec()));
                        read.push(ms);
                    }
                    Action::UnknownLink { r, which } => {
                        sim.remotes[rem(r)].send(UNKNOWN[(*which % 2) as usize], Req::Link);
                        read.push(ms);
                    }
                    Action::UnknownSync { r, which } => {
                        sim.remotes[rem(r)].send(UNKNOWN[(*which % 2) as usize], Req::Sync);
                        read.push(ms);
                    }
                    Action::Http => {
                        if sim.http_request("v0") {
                            http.push(ms);
                        }
                    }
                    Action::Read { r, n } => {
                        sim.remotes[rem(r)].read(*n);
                    }
                }
                drive(&mut sim);
                // an envelope only counts once it has been written completely (and then it was consumed by `drive`)
                for r in sim.remotes.iter() {
                    if r.outbox_len() > 0 {
                        read.pop();
                    }
                }
            }
            ms += 1;
        }
        let stop = stopped(&shared);
        sim.settle();
        let reasons = sim
            .remotes
            .iter_mut()
            .map(|r| match r.disconnection_reason() {
                Some(Ok(reason)) => format!("{:?}", reason),
                Some(Err(_)) => "dropped".to_string(),
                None => "attached".to_string(),
            })
            .collect();
        let write = shared
            .log
            .lock()
            .iter()
            .filter(|(_, e)| matches!(e, TEv::Lane(_)))
            .map(|(t, _)| *t)
            .collect();
        Obs {
            read,
            write,
            http,
            stop,
            reasons,
            result: sim.result.clone(),
        }
    })
}

/// Instants at which the task can have cast a vote: `t` after an own activity (or the start) that is not followed by
/// another own activity within `t`.
fn vote_times(acts: &[u64], t: u64, until: u64) -> Vec<u64> {
    let mut pts = vec![0u64];
    pts.extend(acts.iter().copied());
    pts.sort();
    let mut out = vec![];
    for (i, p) in pts.iter().enumerate() {
        let next = pts.get(i + 1).copied().unwrap_or(u64::MAX);
        if next > p + t && p + t <= until {
            out.push(p + t);
        }
    }
    out
}

pub fn check(case: &Case) -> Verdict {
    let obs = execute(case);
    if std::env::var("VERIF_DUMP").is_ok() {
        eprintln!(
            "read {:?} write {:?} http {:?} stop {:?} reasons {:?} result {:?}",
            obs.read, obs.write, obs.http, obs.stop, obs.reasons, obs.result
        );
    }
    let mut v = Verdict::new();
    let t = case.timeout_ms;
    if let Some(Err(e)) = &obs.result {
        v.fail("agent-runtime:agent-failed", format!("the agent task ended with an error: {}", e));
    }
    // Nothing in a history stops the agent (no stop signal, no stop handler, remotes stay attached, the prune delay is
    // far away), so if it stopped it stopped for inactivity - whichever task completed the vote (the remotes are told
    // `AgentTimedOut` only when the write task did, `AgentStoppedExternally` otherwise).
    let timed_out = obs.stop.is_some() && !matches!(obs.result, Some(Err(_)));
    if let (Some(stop), true) = (obs.stop, timed_out) {
        for (name, acts) in [("read", &obs.read), ("write", &obs.write), ("http", &obs.http)] {
            // ties are allowed on both sides: activity exactly `t` before the stop (the vote is cast at that instant)
            // and activity at the stop instant itself (it completed or raced the unanimity)
            if let Some(a) = acts.iter().find(|a| **a < stop && **a + t > stop) {
                v.fail(
                    format!("agent-runtime:stopped-while-active:{}", name),
                    format!(
                        "the agent stopped for inactivity at {} ms (inactive_timeout {} ms, remotes told {:?}) although the {} task had own activity at {} ms, i.e. {} ms before: it cannot have had an outstanding vote. own activity: read (envelopes) {:?}, write (lane events) {:?}, http (requests) {:?}",
                        stop, t, obs.reasons, name, a, stop - a, obs.read, obs.write, obs.http
                    ),
                );
            }
        }
        let votes: Vec<u64> = [&obs.read, &obs.write, &obs.http].iter().flat_map(|a| vote_times(a, t, stop)).collect();
        let all: Vec<u64> = obs.read.iter().chain(obs.write.iter()).chain(obs.http.iter()).copied().collect();
        let revived = votes.iter().any(|vt| all.iter().any(|a| a > vt && *a <= stop));
        if revived {
            v.nontrivial();
        }
        v.class("stopped-for-inactivity");
        v.class_if(revived, "activity-after-a-vote");
        v.class_if(obs.write.iter().any(|a| *a > t), "lane-event-after-first-timeout");
    } else {
        v.class_if(obs.stop.is_none(), "still-running-at-horizon");
    }
    v.class_if(case.timeline.iter().any(|(_, a)| matches!(a, Action::UnknownCmd { .. })), "command-for-unknown-lane");
    v.class_if(case.timeline.iter().any(|(_, a)| matches!(a, Action::Http)), "http-request");
    v.class_if(case.remotes.iter().any(|c| *c <= 16), "small-response-channel");
    v
}
