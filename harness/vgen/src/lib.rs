//! Shared generators for the pure engines (serialisable mirror of `Value`, boundary pools,
//! random strategies).
mod gen;
pub mod recon_text;
pub use gen::*;
