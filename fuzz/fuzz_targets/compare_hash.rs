//! C15: compare_recon_values / recon_hash agree with parsed equality (oracle inside the target).
//! Input: two strings separated by the first 0xFF byte (never part of valid UTF-8).
#![no_main]
use libfuzzer_sys::fuzz_target;
use std::collections::hash_map::DefaultHasher;
use std::hash::Hasher;
use swimos_recon::parser::parse_recognize;
use swimos_recon::{compare_recon_values, recon_hash};

include!("common.rs");

fn hash(t: &str) -> u64 {
    let mut h = DefaultHasher::new();
    recon_hash(t, &mut h);
    h.finish()
}

/// Leaves / attribute names / slot markers without the record body boundaries.
fn flat(v: &Value, out: &mut Vec<String>) {
    match v {
        Value::Record(attrs, items) => {
            for a in attrs {
                out.push(format!("@{:?}(", a.name.as_str()));
                if !matches!(a.value, Value::Extant) {
                    flat(&a.value, out);
                }
                out.push(")".into());
            }
            for i in items {
                match i {
                    Item::ValueItem(x) => flat(x, out),
                    Item::Slot(k, x) => {
                        flat(k, out);
                        out.push(":".into());
                        flat(x, out);
                    }
                }
            }
        }
        ow => out.push(format!("{:?}", ow)),
    }
}

/// Known hash findings: string delimiters or new lines inside an attribute body, signed zero.
fn known_hash_cell(t: &str) -> bool {
    let mut in_str = false;
    let mut esc = false;
    let mut parens = 0usize;
    for c in t.chars() {
        if in_str {
            if esc {
                esc = false;
            } else if c == '\\' {
                esc = true;
            } else if c == '"' {
                in_str = false;
            } else if parens > 0 && matches!(c, ',' | ';' | ':' | '{' | '}' | '(' | ')') {
                return true;
            }
            continue;
        }
        match c {
            '"' => in_str = true,
            '(' => parens += 1,
            ')' => parens = parens.saturating_sub(1),
            '\n' | '\r' if parens > 0 => return true,
            _ => {}
        }
    }
    false
}

fn has_float_zero(v: &Value) -> bool {
    match v {
        Value::Float64Value(x) => *x == 0.0,
        Value::Record(a, i) => {
            a.iter().any(|a| has_float_zero(&a.value))
                || i.iter().any(|i| match i {
                    Item::ValueItem(v) => has_float_zero(v),
                    Item::Slot(k, v) => has_float_zero(k) || has_float_zero(v),
                })
        }
        _ => false,
    }
}

fuzz_target!(|data: &[u8]| {
    if data.len() > 2048 {
        return;
    }
    let Some(p) = data.iter().position(|b| *b == 0xff) else { return };
    let (Ok(a), Ok(b)) = (std::str::from_utf8(&data[..p]), std::str::from_utf8(&data[p + 1..])) else { return };
    if has_surrogate_escape(a) || has_surrogate_escape(b) {
        return;
    }
    let pa = parse_recognize::<Value>(a, false).ok();
    let pb = parse_recognize::<Value>(b, false).ok();
    let cmp = compare_recon_values(a, b);
    assert_eq!(cmp, compare_recon_values(b, a), "asymmetric: {:?} {:?}", a, b);
    assert!(compare_recon_values(a, a), "irreflexive: {:?}", a);
    assert!(compare_recon_values(b, b), "irreflexive: {:?}", b);
    let expected = match (&pa, &pb) {
        (Some(x), Some(y)) => x == y,
        _ => a == b,
    };
    if cmp != expected {
        if let (Some(x), Some(y), true) = (&pa, &pb, cmp) {
            // Known finding (C15 cmp-false-positive:nesting-only)
            let (mut fx, mut fy) = (vec![], vec![]);
            flat(x, &mut fx);
            flat(y, &mut fy);
            if fx == fy {
                return;
            }
        }
        panic!("compare({:?}, {:?}) = {} but expected {} (parsed {:?} / {:?})", a, b, cmp, expected, pa, pb);
    }
    if cmp && hash(a) != hash(b) {
        let known = known_hash_cell(a)
            || known_hash_cell(b)
            || pa.as_ref().map(has_float_zero).unwrap_or(false)
            || pb.as_ref().map(has_float_zero).unwrap_or(false);
        assert!(known, "compare({:?}, {:?}) = true but recon_hash differs", a, b);
    }
});
