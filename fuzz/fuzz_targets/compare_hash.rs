//! C15: compare_recon_values / recon_hash agree with parsed equality (oracle inside the target).
//! Input: two strings separated by the first 0xFF byte (never part of valid UTF-8).
//! Exempt are exactly the two OPEN findings: a comparator false positive that the frozen copy of the repository's
//! comparison algorithm (`harness/c15/src/head_model.rs`) reproduces (`cmp-false-positive:head-summed-sizes`)
//! and a hash difference that disappears when the item
//! separating new lines of attribute bodies are written as commas (`hash-differs:newline-separator-in-attr-body`).
#![no_main]
use libfuzzer_sys::fuzz_target;
use std::collections::hash_map::DefaultHasher;
use std::hash::Hasher;
use swimos_recon::parser::parse_recognize;
use swimos_recon::{compare_recon_values, recon_hash};

include!("common.rs");

#[path = "/verif/harness/c15/src/head_model.rs"]
#[allow(dead_code)]
mod head_model;

fn hash(t: &str) -> u64 {
    let mut h = DefaultHasher::new();
    recon_hash(t, &mut h);
    h.finish()
}

/// OPEN finding C15 `hash-differs:newline-in-attr-body`: `is_implicit_record` does not see a new line that
/// separates two items directly inside an attribute body (`@a(0\ntrue)` vs `@a(0,true)`).
/// Returns the text with every such new line (outside string literals, innermost bracket is `(`, an item on
/// both sides, first one of a run of blanks) replaced by `,`; `None` when there is none.
fn newline_separators_as_commas(t: &str) -> Option<String> {
    let chars: Vec<char> = t.chars().collect();
    let mut out = String::with_capacity(t.len());
    let mut stack: Vec<char> = vec![];
    let (mut in_str, mut esc, mut changed) = (false, false, false);
    let mut prev_sig = '(';
    for (i, &c) in chars.iter().enumerate() {
        if in_str {
            if esc {
                esc = false;
            } else if c == '\\' {
                esc = true;
            } else if c == '"' {
                in_str = false;
            }
            out.push(c);
            continue;
        }
        let mut w = c;
        match c {
            '"' => in_str = true,
            '(' | '{' => stack.push(c),
            ')' | '}' => {
                stack.pop();
            }
            '\n' | '\r' if stack.last() == Some(&'(') && !matches!(prev_sig, '(' | ',' | ';' | ':') => {
                let next_sig = chars[i + 1..].iter().copied().find(|c| !c.is_whitespace());
                if !matches!(next_sig, None | Some(')') | Some(',') | Some(';') | Some(':')) {
                    w = ',';
                    changed = true;
                }
            }
            _ => {}
        }
        if !w.is_whitespace() {
            prev_sig = w;
        }
        out.push(w);
    }
    changed.then_some(out)
}

/// Is a hash difference between the compare-equal texts `a`, `b` explained by the open finding alone?
/// Yes iff writing the item-separating new lines of attribute bodies as commas keeps both values, keeps the
/// texts compare-equal and makes the hashes agree. Anything else is a new defect.
fn explained_by_newline_in_attr_body(a: &str, b: &str, pa: &Option<Value>, pb: &Option<Value>) -> bool {
    let (na, nb) = (newline_separators_as_commas(a), newline_separators_as_commas(b));
    if na.is_none() && nb.is_none() {
        return false;
    }
    let (na, nb) = (na.unwrap_or_else(|| a.to_string()), nb.unwrap_or_else(|| b.to_string()));
    let same = |orig: &Option<Value>, t: &str| match (orig, parse_recognize::<Value>(t, false).ok()) {
        (Some(x), Some(y)) => structural_eq(x, &y),
        _ => false,
    };
    if !same(pa, &na) || !same(pb, &nb) {
        // the rewrite is not meaning preserving here (or a text is invalid): cannot tell, stay silent
        return true;
    }
    compare_recon_values(&na, &nb) && hash(&na) == hash(&nb)
}

fuzz_target!(|data: &[u8]| {
    if data.len() > 2048 {
        return;
    }
    let Some(p) = data.iter().position(|b| *b == 0xff) else { return };
    let (Ok(a), Ok(b)) = (std::str::from_utf8(&data[..p]), std::str::from_utf8(&data[p + 1..])) else { return };
    let pa = parse_recognize::<Value>(a, false).ok();
    let pb = parse_recognize::<Value>(b, false).ok();
    let cmp = compare_recon_values(a, b);
    assert_eq!(cmp, compare_recon_values(b, a), "asymmetric: {:?} {:?}", a, b);
    assert!(compare_recon_values(a, a), "irreflexive: {:?}", a);
    assert!(compare_recon_values(b, b), "irreflexive: {:?}", b);
    let expected = match (&pa, &pb) {
        (Some(x), Some(y)) => x == y,
        _ => a == b,
    };
    if cmp != expected {
        if pa.is_some() && pb.is_some() && cmp {
            // Known finding (C15 cmp-false-positive:head-summed-sizes): exactly the pairs that the frozen
            // copy of the repository's algorithm accepts (in both directions).
            if let (Some(ea), Some(eb)) = (head_model::events(a), head_model::events(b)) {
                if head_model::head_compare(&ea, &eb) == Some(true) && head_model::head_compare(&eb, &ea) == Some(true) {
                    return;
                }
            }
        }
        panic!("compare({:?}, {:?}) = {} but expected {} (parsed {:?} / {:?})", a, b, cmp, expected, pa, pb);
    }
    if cmp && hash(a) != hash(b) {
        assert!(
            explained_by_newline_in_attr_body(a, b, &pa, &pb),
            "compare({:?}, {:?}) = true but recon_hash differs",
            a,
            b
        );
    }
});
