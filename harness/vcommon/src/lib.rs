//! Shared plumbing for all verification engines: seeded proptest runners, case accounting,
//! known-finding matching, replay files and evidence files.
//!
//! Conventions (DESIGN.md §2.3-2.5):
//!  * every random choice comes from a proptest `TestRunner` whose RNG is seeded from
//!    (VERIF_SEED, property, sub-check, worker);
//!  * an oracle returns a `Verdict` listing *all* failures of a case, each with a signature;
//!    signatures listed as `finding:` in /verif/known_findings.txt are counted and skipped, anything
//!    else is shrunk and reported as a violation;
//!  * a panic inside the code under test is a failure with signature `panic:<file>:<line>`;
//!  * exit code 0 = held, 1 = violation, 2 = inconclusive.

pub mod runner;
pub use runner::*;

pub use proptest;
pub use serde;
pub use serde_json;
