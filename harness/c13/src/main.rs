mod c13;
mod kill;
mod model;
mod threads;

fn main() {
    let args: Vec<String> = std::env::args().skip(1).collect();
    if args.first().map(|s| s == kill::CHILD_CMD).unwrap_or(false) {
        kill::child_main(&args[1..]);
    }
    let mut ctx = vcommon::Ctx::new("C13", &args);
    c13::run(&mut ctx);
    ctx.finish();
}
