//! SIGKILL tier for the RocksDB store: a child process (this binary re-executed with a hidden
//! sub-command) runs a slice of the history against a directory and acknowledges every completed op
//! on its stdout; the parent kills it (or the child kills itself right after an acknowledgement),
//! reopens the directory in-process and checks that every acknowledged op is present, that the one
//! unacknowledged op that may have been in flight is atomically present or absent, and that ids are
//! stable and still unique (including a freshly allocated one). The remaining history continues in a
//! new child on the same directory, so one case has up to three kill points.
use crate::c13::{open_rocks, poll_once, Exec, Id, Scratch};
use crate::model::*;
use proptest::prelude::*;
use serde::{Deserialize, Serialize};
use std::io::{BufRead, BufReader, Write};
use std::os::unix::process::ExitStatusExt;
use std::collections::BTreeMap;
use std::path::Path;
use std::sync::Mutex;
use std::process::{Child, Command, Stdio};
use std::task::Poll;
use swimos_api::error::StoreError;
use swimos_api::persistence::{NodePersistence, PlanePersistence, RangeConsumer};
use vcommon::{pick_index, Verdict};

pub const CHILD_CMD: &str = "__c13_child";

#[derive(Clone, Debug, Serialize, Deserialize)]
pub struct KillCase {
    pub history: Case,
    /// (position selector within the remaining history, child kills itself right after the
    /// acknowledgement instead of being killed asynchronously by the parent)
    pub kills: Vec<(u16, bool)>,
}

pub fn arb_kill_case() -> impl Strategy<Value = KillCase> {
    (
        arb_kill_history(),
        proptest::collection::vec((any::<u16>(), proptest::bool::weighted(0.3)), 1..=3),
    )
        .prop_map(|(history, kills)| KillCase { history, kills })
}

fn target_item(op: &Op, n_items: usize) -> Option<usize> {
    match op {
        Op::Id(s) | Op::Write(s, ..) | Op::Erase(s, _) | Op::Clear(s) | Op::Read(s, _) => Some(pick_index(*s, n_items)),
        _ => None,
    }
}

// ---------------------------------------------------------------------------------------------
// Child side

struct ChildExec<P: PlanePersistence, F> {
    open: F,
    uris: Vec<String>,
    items: Vec<FlatItem>,
    plane: Option<P>,
    nodes: Vec<Option<P::Node>>,
    ids: Vec<Option<Id<P>>>,
}

impl<P: PlanePersistence, F: FnMut() -> Result<P, StoreError>> ChildExec<P, F> {
    fn node(&mut self, agent: usize) -> Result<(), String> {
        if self.plane.is_none() {
            self.plane = Some((self.open)().map_err(|e| format!("open: {:?}", e))?);
        }
        if self.nodes[agent].is_none() {
            let mut fut = self.plane.as_ref().unwrap().node_store(&self.uris[agent]);
            match poll_once(&mut fut) {
                Poll::Ready(Ok(n)) => self.nodes[agent] = Some(n),
                Poll::Ready(Err(e)) => return Err(format!("node_store: {:?}", e)),
                Poll::Pending => return Err("node_store pending".to_string()),
            }
        }
        Ok(())
    }

    fn id(&mut self, item: usize) -> Result<Id<P>, String> {
        let agent = self.items[item].agent;
        self.node(agent)?;
        if let Some(id) = self.ids[item] {
            return Ok(id);
        }
        let id = self.nodes[agent]
            .as_ref()
            .unwrap()
            .id_for(&self.items[item].name)
            .map_err(|e| format!("id_for: {:?}", e))?;
        self.ids[item] = Some(id);
        Ok(id)
    }

    fn drop_node(&mut self, agent: usize) {
        self.nodes[agent] = None;
        for (i, it) in self.items.iter().enumerate() {
            if it.agent == agent {
                self.ids[i] = None;
            }
        }
    }

    /// Returns the item addressed and the id used, for the acknowledgement.
    fn step(&mut self, op: &Op) -> Result<Option<(usize, String)>, String> {
        let n_items = self.items.len();
        let n_agents = self.uris.len();
        let Some(item) = target_item(op, n_items) else {
            match op {
                Op::ReopenNode(s) | Op::Handover(s) | Op::Stop(s) => self.drop_node(pick_index(*s, n_agents)),
                // not generated for the kill tier
                Op::Request(_) | Op::Abandon(..) | Op::Resolve(..) | Op::Fill(..) | Op::RemoveRun(..) => {}
                _ => {
                    for a in 0..n_agents {
                        self.drop_node(a);
                    }
                    self.plane = None;
                    // reopen at once: recovery of the write-ahead log is part of the window
                    self.node(0)?;
                }
            }
            return Ok(None);
        };
        let id = self.id(item)?;
        let agent = self.items[item].agent;
        let is_map = self.items[item].map;
        let node = self.nodes[agent].as_mut().unwrap();
        let r = match op {
            Op::Id(_) => node.id_for(&self.items[item].name).map(|_| ()),
            Op::Write(_, k, v) => {
                if is_map {
                    node.update_map(id, &k.0, &v.0)
                } else {
                    node.put_value(id, &v.0)
                }
            }
            Op::Erase(_, k) => {
                if is_map {
                    node.remove_map(id, &k.0)
                } else {
                    node.delete_value(id)
                }
            }
            Op::Clear(_) => {
                if is_map {
                    node.clear_map(id)
                } else {
                    node.delete_value(id)
                }
            }
            Op::Read(..) => {
                if is_map {
                    (|| {
                        let mut con = node.read_map(id)?;
                        while con.consume_next()?.is_some() {}
                        Ok(())
                    })()
                } else {
                    let mut buf = bytes::BytesMut::new();
                    node.get_value(id, &mut buf).map(|_| ())
                }
            }
            _ => Ok(()),
        };
        r.map_err(|e: StoreError| format!("{:?}", e))?;
        Ok(Some((item, format!("{:?}", id))))
    }
}

/// `__c13_child <case.json> <db dir> <first op> <self-kill after op | ->`
pub fn child_main(args: &[String]) -> ! {
    let fail = |msg: String| -> ! {
        println!("err - {}", msg);
        std::process::exit(3)
    };
    if args.len() < 4 {
        fail("usage".into());
    }
    let text = std::fs::read_to_string(&args[0]).unwrap_or_else(|e| fail(format!("case file: {}", e)));
    let case: Case = serde_json::from_str(&text).unwrap_or_else(|e| fail(format!("case file: {}", e)));
    let db = std::path::PathBuf::from(&args[1]);
    let start: usize = args[2].parse().unwrap_or_else(|_| fail("start".into()));
    let self_kill: Option<usize> = args[3].parse().ok();
    let (uris, items) = flatten(&case, true);
    let mut ex = ChildExec {
        open: || open_rocks(&db),
        nodes: uris.iter().map(|_| None).collect(),
        ids: items.iter().map(|_| None).collect(),
        uris,
        items,
        plane: None,
    };
    let out = std::io::stdout();
    for (idx, op) in case.ops.iter().enumerate().skip(start) {
        match ex.step(op) {
            Ok(ack) => {
                let mut o = out.lock();
                let _ = match ack {
                    Some((item, id)) => writeln!(o, "ack {} {} {}", idx, item, id),
                    None => writeln!(o, "ack {} - -", idx),
                };
                let _ = o.flush();
            }
            Err(e) => {
                println!("err {} {}", idx, e);
                std::process::exit(3);
            }
        }
        if self_kill == Some(idx) {
            unsafe {
                libc::kill(libc::getpid(), libc::SIGKILL);
            }
            loop {
                std::thread::sleep(std::time::Duration::from_secs(1));
            }
        }
    }
    drop(ex);
    println!("done");
    std::process::exit(0)
}

// ---------------------------------------------------------------------------------------------
// Parent side

struct ChildGuard(Child);

impl Drop for ChildGuard {
    fn drop(&mut self) {
        let _ = self.0.kill();
        let _ = self.0.wait();
    }
}

struct Ack {
    idx: usize,
    item: Option<usize>,
    id: String,
}

struct Outcome {
    acks: Vec<Ack>,
    err: Option<String>,
    done: bool,
    killed: bool,
    status: String,
}

fn run_child(casefile: &Path, db: &Path, errfile: &Path, start: usize, kill_at: Option<usize>, self_kill: bool) -> Outcome {
    let exe = std::env::current_exe().expect("current_exe");
    let stderr = std::fs::File::create(errfile).map(Stdio::from).unwrap_or_else(|_| Stdio::null());
    let mut cmd = Command::new(exe);
    cmd.arg(CHILD_CMD)
        .arg(casefile)
        .arg(db)
        .arg(start.to_string())
        .arg(match (kill_at, self_kill) {
            (Some(k), true) => k.to_string(),
            _ => "-".to_string(),
        })
        .stdin(Stdio::null())
        .stdout(Stdio::piped())
        .stderr(stderr);
    let mut child = ChildGuard(cmd.spawn().expect("cannot spawn child"));
    let stdout = child.0.stdout.take().expect("child stdout");
    let mut out = Outcome { acks: vec![], err: None, done: false, killed: false, status: String::new() };
    let mut sent = false;
    for line in BufReader::new(stdout).lines() {
        let Ok(line) = line else { break };
        let mut parts = line.splitn(4, ' ');
        match parts.next() {
            Some("ack") => {
                let idx: usize = parts.next().and_then(|s| s.parse().ok()).unwrap_or(usize::MAX);
                let item = parts.next().and_then(|s| s.parse().ok());
                let id = parts.next().unwrap_or("-").to_string();
                out.acks.push(Ack { idx, item, id });
                if !self_kill && !sent && kill_at.map(|k| idx >= k).unwrap_or(false) {
                    let _ = child.0.kill(); // SIGKILL
                    sent = true;
                }
            }
            Some("done") => out.done = true,
            Some("err") => out.err = Some(line.clone()),
            _ => out.err = Some(format!("unexpected child output {:?}", line)),
        }
    }
    match child.0.wait() {
        Ok(st) => {
            out.killed = st.signal() == Some(libc::SIGKILL);
            out.status = format!("{:?}", st);
            if !out.killed && !st.success() && out.err.is_none() {
                let tail = std::fs::read_to_string(errfile).unwrap_or_default();
                let tail: String = tail.chars().rev().take(600).collect::<String>().chars().rev().collect();
                out.err = Some(format!("child ended with {:?}; stderr: {}", st, tail));
            }
        }
        Err(e) => out.err = Some(format!("wait: {}", e)),
    }
    out
}

/// Failures already observed in this process, by case. The moment at which an asynchronous SIGKILL
/// lands is not reproducible, so a failing case may pass when it is executed again (while shrinking
/// and when the runner re-evaluates the final case). A case that has failed once keeps failing with
/// the recorded failures, which keeps the original detail in the report; shrunk variants are new
/// cases and are judged on their own execution.
static SEEN_FAILURES: Mutex<BTreeMap<u64, Vec<(String, String)>>> = Mutex::new(BTreeMap::new());

pub fn check_kill(kc: &KillCase) -> Verdict {
    let fp = vcommon::fnv1a(format!("{:?}", kc).as_bytes());
    let scratch = Scratch::new();
    let db = scratch.0.join("db");
    let v = kill_driver(kc, &scratch, || open_rocks(&db));
    sticky(fp, v, "the kill timing")
}

/// See `SEEN_FAILURES`.
pub fn sticky(fp: u64, mut v: Verdict, what: &str) -> Verdict {
    let mut seen = SEEN_FAILURES.lock().unwrap();
    if v.failures.is_empty() {
        if let Some(prev) = seen.get(&fp) {
            for (sig, detail) in prev {
                v.fail(sig.clone(), format!("{} (recorded from an earlier execution of this case; {} is not reproducible)", detail, what));
            }
        }
    } else if seen.len() < 10_000 {
        seen.entry(fp)
            .or_insert_with(|| v.failures.iter().map(|f| (f.sig.clone(), f.detail.clone())).collect());
    }
    v
}

fn kill_driver<P, F>(kc: &KillCase, scratch: &Scratch, open: F) -> Verdict
where
    P: PlanePersistence,
    F: FnMut() -> Result<P, StoreError> + Copy,
{
    let mut v = Verdict::new();
    let (uris, items) = flatten(&kc.history, true);
    let ops = &kc.history.ops;
    let db = scratch.0.join("db");
    let casefile = scratch.0.join("case.json");
    let errfile = scratch.0.join("child.err");
    std::fs::write(&casefile, serde_json::to_string(&kc.history).unwrap()).expect("write case file");

    let mut model: Vec<M> = items.iter().map(|i| M::empty(i.map)).collect();
    let mut first_ids: Vec<Option<Id<P>>> = items.iter().map(|_| None).collect();
    let mut extra_ids: Vec<(String, Id<P>)> = vec![];
    let mut acked_ids: Vec<Option<String>> = items.iter().map(|_| None).collect();
    let mut touched: Vec<bool> = items.iter().map(|_| false).collect();
    let mut kills = kc.kills.iter();
    let mut start = 0usize;
    let mut round = 0usize;
    let mut nontrivial = false;

    while start < ops.len() {
        let (kill_at, self_kill) = match kills.next() {
            Some((sel, s)) => (Some(start + pick_index(*sel, ops.len() - start)), *s),
            None => (None, false),
        };
        let out = run_child(&casefile, &db, &errfile, start, kill_at, self_kill);
        vcommon::tick();
        // acknowledged ops are applied to the model
        let mut next = start;
        for ack in &out.acks {
            if ack.idx != next || ack.item != target_item(&ops[next.min(ops.len() - 1)], items.len()) {
                v.fail("rocks-kill:harness-ack-sequence", format!("unexpected acknowledgement for op {} (expected {})", ack.idx, next));
                return v;
            }
            if let Some(item) = ack.item {
                touched[item] = true;
                match &acked_ids[item] {
                    Some(prev) if *prev != ack.id => {
                        v.fail(
                            "id-unstable:rocks-kill/writer",
                            format!(
                                "the writer process used id {} for item {:?} of {:?} at op#{} but {} earlier",
                                ack.id, items[item].name, uris[items[item].agent], ack.idx, prev
                            ),
                        );
                    }
                    Some(_) => {}
                    None => acked_ids[item] = Some(ack.id.clone()),
                }
                model[item].apply(&ops[next]);
            }
            next += 1;
        }
        if let Some(err) = &out.err {
            v.fail(
                "rocks-kill:writer-error",
                format!("the writer process failed at/after op#{} (round {}): {}", next, round, err),
            );
            return v;
        }
        let finished = next == ops.len();
        if !finished && !out.killed {
            v.fail(
                "rocks-kill:harness-child-exit",
                format!("child stopped at op#{} without being killed: {}", next, out.status),
            );
            return v;
        }
        if kill_at.is_some() {
            if out.killed {
                v.class("kill-landed");
                v.class(if self_kill { "kill-self-after-ack" } else { "kill-async" });
                if model.iter().any(|m| !m.is_empty()) {
                    nontrivial = true;
                }
            } else {
                v.class("kill-missed-child-finished");
            }
        }
        let inflight = if finished || !out.killed { None } else { Some(next) };

        // reopen in this process and compare
        let mut ex = Exec::new("rocks-kill", true, &uris, &items, open);
        ex.nontarget_labels = ("acked-state-map", "acked-state-value");
        ex.at = next;
        ex.model = model.clone();
        ex.first_ids = std::mem::take(&mut first_ids);
        ex.extra_ids = std::mem::take(&mut extra_ids);
        ex.touched = touched.clone();
        let verify = (|| -> Result<(), crate::c13::Abort> {
            if let Some(i) = inflight {
                let op = &ops[i];
                match target_item(op, items.len()) {
                    Some(item) => {
                        if acked_ids[item].is_none() {
                            v.class("inflight-op-allocates-id");
                        }
                        let pre = ex.model[item].clone();
                        let mut post = pre.clone();
                        post.apply(op);
                        let got = ex.read_item(item, &[])?;
                        if got == post && post != pre {
                            v.class("inflight-op-applied");
                        } else if got == pre {
                            v.class_if(post != pre, "inflight-op-not-applied");
                        } else {
                            ex.v.fail(
                                "rocks-kill:inflight-op-not-atomic",
                                format!(
                                    "[rocks-kill op#{}] after SIGKILL during {:?}: item {:?} of {:?} holds {} which is neither the state before ({}) nor after ({}) the op",
                                    i, op, items[item].name, uris[items[item].agent], got.describe(), pre.describe(), post.describe()
                                ),
                            );
                        }
                        ex.model[item] = got;
                    }
                    None => v.class("kill-during-reopen-op"),
                }
            }
            ex.sweep(None, false, "after SIGKILL of the writer and reopen")?;
            for item in 0..items.len() {
                if let (Some(acked), Some(id)) = (&acked_ids[item], &ex.first_ids[item]) {
                    if *acked != format!("{:?}", id) {
                        ex.v.fail(
                            "id-unstable:rocks-kill/reopen",
                            format!(
                                "[rocks-kill op#{}] item {:?} of {:?} was used under id {} by the writer process but id_for returns {:?} after the kill",
                                next, items[item].name, uris[items[item].agent], acked, id
                            ),
                        );
                    }
                }
            }
            ex.probe(&format!("\u{2}probe{}", round))?;
            Ok(())
        })();
        ex.close_all();
        model = ex.model.clone();
        first_ids = std::mem::take(&mut ex.first_ids);
        extra_ids = std::mem::take(&mut ex.extra_ids);
        touched = ex.touched.clone();
        let aborted = verify.is_err();
        v.merge(std::mem::take(&mut ex.v));
        drop(ex);
        if aborted {
            return v;
        }
        start = match inflight {
            Some(i) => i + 1,
            None => next,
        };
        round += 1;
    }

    // closing sweep over all items (allocates ids for never used ones)
    let mut ex = Exec::new("rocks-kill", true, &uris, &items, open);
    ex.nontarget_labels = ("acked-state-map", "acked-state-value");
    ex.at = ops.len();
    ex.model = model;
    ex.first_ids = first_ids;
    ex.extra_ids = extra_ids;
    ex.touched = touched;
    let _ = ex.sweep(None, true, "final sweep");
    ex.close_all();
    v.merge(std::mem::take(&mut ex.v));
    v.class_if(uris.len() >= 2, "agents>=2");
    if nontrivial {
        v.nontrivial();
    }
    v
}
