//! Two-thread tier: a writer thread and a reader thread move a generated amount of pattern data through
//! the real channel, each parking on its own counting waker whenever a poll returns Pending without a
//! self-wake. A monitor (the calling thread) detects the state in which every live side is parked with an
//! unwoken waker: since only channel operations of the other side can wake it, that state is permanent
//! (lost wake-up). All verdicts are schedule independent: a reported deadlock is a real one.
use crate::chan::{pattern, reset_budget, CountWaker};
use std::io::IoSlice;
use proptest::prelude::*;
use serde::{Deserialize, Serialize};
use std::num::NonZeroUsize;
use std::pin::Pin;
use std::sync::atomic::{AtomicBool, AtomicUsize, Ordering::SeqCst};
use std::sync::{Arc, Barrier, Mutex};
use std::task::{Context, Poll, Waker};
use swimos_byte_channel::byte_channel;
use tokio::io::{AsyncRead, AsyncWrite, ReadBuf};
use vcommon::Verdict;

#[derive(Clone, Copy, Debug, PartialEq, Eq, Serialize, Deserialize)]
pub enum Finish {
    DropWriter,
    ShutdownThenDrop,
    /// the reader is dropped after having received this many bytes; the writer must then fail
    DropReaderAfter(u32),
}

#[derive(Clone, Debug, Serialize, Deserialize)]
pub struct ThreadCase {
    cap: u32,
    /// bytes the writer tries to send
    total: u32,
    /// write request sizes / read buffer sizes, used cyclically
    wsizes: Vec<u32>,
    rsizes: Vec<u32>,
    /// 0: poll_write; 1..=4: poll_write_vectored with the request cut into that many slices (4: one of them empty)
    vectored: u8,
    /// coop budgets of the two tasks (>= 2: a budget of 1 can never make progress)
    wbudget: u8,
    rbudget: u8,
    finish: Finish,
}

fn build(cap: u32, total: u32, wsizes: Vec<u32>, rsizes: Vec<u32>, wbudget: u8, rbudget: u8, vectored: u8, fin: (u8, u32)) -> ThreadCase {
    let finish = match fin.0 {
        0..=2 => Finish::DropWriter,
        3..=4 => Finish::ShutdownThenDrop,
        _ => Finish::DropReaderAfter(fin.1 % (total + 1)),
    };
    ThreadCase {
        cap,
        total,
        wsizes,
        rsizes,
        wbudget,
        rbudget,
        vectored,
        finish,
    }
}

pub fn strategy() -> impl Strategy<Value = ThreadCase> {
    let budget = || prop_oneof![2 => Just(64u8), 3 => 2u8..=6];
    let vectored = || prop_oneof![3 => Just(0u8), 2 => 1u8..=4];
    let small = (prop_oneof![4 => 1u32..=4, 2 => 5u32..=16, 1 => 17u32..=64], 1u32..=6000).prop_flat_map(move |(cap, total)| {
        let size = prop_oneof![3 => Just(1u32), 2 => Just(cap), 1 => Just(cap + 1), 3 => 1..=cap + 1];
        (
            proptest::collection::vec(size.clone(), 1..=6),
            proptest::collection::vec(size, 1..=6),
            budget(),
            budget(),
            vectored(),
            (0u8..6, any::<u32>()),
        )
            .prop_map(move |(w, r, wb, rb, v, fin)| build(cap, total, w, r, wb, rb, v, fin))
    });
    // Large capacities, single operations around 4 KiB / 8 KiB / 64 KiB, small budgets.
    let large = (
        proptest::sample::select(vec![4096u32, 8191, 8192, 8193, 16384, 65535, 65536, 65537]),
        1u32..=700_000,
    )
        .prop_flat_map(move |(cap, total)| {
            let size = prop_oneof![
                3 => Just(cap),
                1 => Just(cap + 1),
                1 => Just(cap - 1),
                3 => proptest::sample::select(vec![4095u32, 4096, 4097, 8191, 8192, 8193, 16384, 65536]).prop_map(move |x| x.min(cap + 1)),
                1 => 1..=cap + 1,
            ];
            (
                proptest::collection::vec(size.clone(), 1..=4),
                proptest::collection::vec(size, 1..=4),
                2u8..=5,
                2u8..=5,
                vectored(),
                (0u8..6, any::<u32>()),
            )
                .prop_map(move |(w, r, wb, rb, v, fin)| build(cap, total, w, r, wb, rb, v, fin))
        });
    prop_oneof![3 => small, 1 => large]
}

struct SideState {
    waker: Arc<CountWaker>,
    /// strictly increasing; odd while the side waits for its waker (c0 is stored before it turns odd)
    state: AtomicUsize,
    /// wake count at the moment it started to wait
    c0: AtomicUsize,
    done: AtomicBool,
    parks: AtomicUsize,
}

impl SideState {
    fn new() -> SideState {
        SideState {
            waker: CountWaker::new(),
            state: AtomicUsize::new(0),
            c0: AtomicUsize::new(0),
            done: AtomicBool::new(false),
            parks: AtomicUsize::new(0),
        }
    }

    /// Wait until the waker has been woken more than `c0` times. Returns false when aborted.
    fn wait(&self, c0: usize, abort: &AtomicBool) -> bool {
        self.c0.store(c0, SeqCst);
        self.parks.fetch_add(1, SeqCst);
        self.state.fetch_add(1, SeqCst);
        let ok = loop {
            if self.waker.count() > c0 {
                break true;
            }
            if abort.load(SeqCst) {
                break false;
            }
            std::thread::yield_now();
        };
        self.state.fetch_add(1, SeqCst);
        ok
    }

    /// Is the side, in wait episode `state`, still unwoken?
    fn stuck(&self, state: usize) -> bool {
        state % 2 == 1 && self.waker.count() == self.c0.load(SeqCst)
    }
}

/// Marks the side as finished when its thread ends, also by a panic in the code under test (then the
/// other side is released as well), so that a panic can never hang the case.
struct DoneGuard<'a>(&'a SideState, &'a AtomicBool);

impl Drop for DoneGuard<'_> {
    fn drop(&mut self) {
        if std::thread::panicking() {
            self.1.store(true, SeqCst);
        }
        self.0.done.store(true, SeqCst);
    }
}

struct Shared {
    w: SideState,
    r: SideState,
    abort: AtomicBool,
    barrier: Barrier,
    /// bytes accepted from the writer
    accepted: AtomicUsize,
    /// upper bound of the bytes delivered to the reader (published BEFORE each poll_read)
    read_upper: AtomicUsize,
    fails: Mutex<Vec<(String, String)>>,
}

impl Shared {
    fn fail(&self, sig: &str, msg: String) {
        self.fails.lock().unwrap().push((sig.to_string(), msg));
    }
}

pub fn check(case: &ThreadCase) -> Verdict {
    let mut v = Verdict::new();
    if case.cap == 0 || case.cap as usize > crate::chan::MAX_CAP || case.vectored > 4 || case.wsizes.is_empty() || case.rsizes.is_empty() || case.wbudget < 2 || case.rbudget < 2 {
        return v;
    }
    let cap = case.cap as usize;
    let total = case.total as usize;
    let (writer, reader) = byte_channel(NonZeroUsize::new(cap).unwrap());
    let sh = Shared {
        w: SideState::new(),
        r: SideState::new(),
        abort: AtomicBool::new(false),
        barrier: Barrier::new(2),
        accepted: AtomicUsize::new(0),
        read_upper: AtomicUsize::new(0),
        fails: Mutex::new(vec![]),
    };
    let mut deadlock: Option<String> = None;
    let (sent, received, saw_eof, write_failed) = std::thread::scope(|scope| {
        let sh = &sh;
        let wh = scope.spawn(move || {
            let _guard = DoneGuard(&sh.w, &sh.abort);
            let mut writer = writer;
            let waker = Waker::from(sh.w.waker.clone());
            let mut cx = Context::from_waker(&waker);
            let mut sent = 0usize;
            let mut i = 0usize;
            let mut failed = false;
            sh.barrier.wait();
            reset_budget(case.wbudget);
            'outer: while sent < total {
                let k = (case.wsizes[i % case.wsizes.len()] as usize).clamp(1, cap + 1).min(total - sent);
                let data = pattern(sent, k);
                let c0 = sh.w.waker.count();
                let res = if case.vectored == 0 {
                    Pin::new(&mut writer).poll_write(&mut cx, data)
                } else {
                    // cut the request into `vectored` consecutive slices (the 4-slice form has an empty one)
                    let parts = case.vectored as usize;
                    let bounds: [usize; 5] = if parts == 4 {
                        [0, k / 3, k / 3, 2 * k / 3, k]
                    } else {
                        [0, k / parts, if parts == 2 { k } else { 2 * k / parts }, k, k]
                    };
                    let mut slices = [IoSlice::new(&[]); 4];
                    for j in 0..parts {
                        let end = if j + 1 == parts { k } else { bounds[j + 1] };
                        slices[j] = IoSlice::new(&data[bounds[j]..end]);
                    }
                    Pin::new(&mut writer).poll_write_vectored(&mut cx, &slices[..parts])
                };
                match res {
                    Poll::Ready(Ok(m)) => {
                        if m == 0 || m > k {
                            sh.fail("write-count:threads", format!("poll_write of {} bytes returned Ok({})", k, m));
                            break 'outer;
                        }
                        sent += m;
                        sh.accepted.store(sent, SeqCst);
                        // Everything the reader can have taken by now is bounded by read_upper.
                        let upper = sh.read_upper.load(SeqCst);
                        if sent > upper + cap {
                            sh.fail(
                                "capacity-exceeded:threads",
                                format!("{} bytes accepted while the reader cannot have received more than {}: more than {} buffered", sent, upper, cap),
                            );
                            break 'outer;
                        }
                        i += 1;
                    }
                    Poll::Ready(Err(_)) => {
                        failed = true;
                        break 'outer;
                    }
                    Poll::Pending => {
                        if sh.w.waker.count() == c0 && !sh.w.wait(c0, &sh.abort) {
                            break 'outer;
                        }
                        // the task is polled again
                        reset_budget(case.wbudget);
                    }
                }
            }
            if !failed && sent == total && case.finish == Finish::ShutdownThenDrop {
                loop {
                    let c0 = sh.w.waker.count();
                    match Pin::new(&mut writer).poll_shutdown(&mut cx) {
                        Poll::Ready(_) => break,
                        Poll::Pending => {
                            if sh.w.waker.count() == c0 {
                                sh.fail("pending-not-blocked:poll_shutdown/threads", "poll_shutdown returned Pending without waking its own waker".to_string());
                                break;
                            }
                            reset_budget(case.wbudget);
                        }
                    }
                }
            }
            drop(writer);
            (sent, failed)
        });
        let rh = scope.spawn(move || {
            let _guard = DoneGuard(&sh.r, &sh.abort);
            let mut reader = reader;
            let waker = Waker::from(sh.r.waker.clone());
            let mut cx = Context::from_waker(&waker);
            let mut received = 0usize;
            let mut i = 0usize;
            let mut eof = false;
            let mut room = vec![0u8; cap + 1];
            let stop_at = match case.finish {
                Finish::DropReaderAfter(n) => Some(n as usize),
                _ => None,
            };
            sh.barrier.wait();
            reset_budget(case.rbudget);
            loop {
                if let Some(n) = stop_at {
                    if received >= n {
                        break;
                    }
                }
                let n = (case.rsizes[i % case.rsizes.len()] as usize).clamp(1, cap + 1);
                let mut rb = ReadBuf::new(&mut room[..n]);
                sh.read_upper.store(received + n, SeqCst);
                let c0 = sh.r.waker.count();
                match Pin::new(&mut reader).poll_read(&mut cx, &mut rb) {
                    Poll::Ready(Ok(())) => {
                        let data = rb.filled();
                        if data.is_empty() {
                            eof = true;
                            break;
                        }
                        let want = pattern(received, data.len());
                        if data != want {
                            let j = data.iter().zip(want).position(|(a, b)| a != b).unwrap_or(0);
                            sh.fail(
                                "read-not-prefix-of-written:threads",
                                format!("byte {} of the stream is {} but {} was written", received + j, data[j], want[j]),
                            );
                            break;
                        }
                        received += data.len();
                        i += 1;
                    }
                    Poll::Ready(Err(e)) => {
                        sh.fail("read-error:threads", format!("poll_read failed with {:?}", e.kind()));
                        break;
                    }
                    Poll::Pending => {
                        if !rb.filled().is_empty() {
                            sh.fail(
                                "pending-read-filled-buffer:threads",
                                format!("poll_read returned Pending but put {} bytes into the buffer", rb.filled().len()),
                            );
                            break;
                        }
                        if sh.r.waker.count() == c0 && !sh.r.wait(c0, &sh.abort) {
                            break;
                        }
                        reset_budget(case.rbudget);
                    }
                }
            }
            drop(reader);
            (received, eof)
        });
        // Monitor. A wait episode is identified by the (strictly increasing, odd) state word; if both
        // state words are unchanged across the look, both sides were inside those episodes for the whole
        // look, and their wakers were unwoken during it. Only channel operations of the other side can
        // wake a waker, and neither side performs any while it waits: the state is permanent.
        loop {
            let sw1 = sh.w.state.load(SeqCst);
            let sr1 = sh.r.state.load(SeqCst);
            let wdone = sh.w.done.load(SeqCst);
            let rdone = sh.r.done.load(SeqCst);
            if wdone && rdone {
                break;
            }
            if (wdone || sh.w.stuck(sw1)) && (rdone || sh.r.stuck(sr1)) {
                let sw2 = sh.w.state.load(SeqCst);
                let sr2 = sh.r.state.load(SeqCst);
                if sw1 == sw2 && sr1 == sr2 {
                    deadlock = Some(format!(
                        "writer: {} (accepted {} bytes), reader: {} (received at most {} bytes)",
                        if wdone { "finished" } else { "parked, waker not woken" },
                        sh.accepted.load(SeqCst),
                        if rdone { "finished" } else { "parked, waker not woken" },
                        sh.read_upper.load(SeqCst)
                    ));
                    sh.abort.store(true, SeqCst);
                    break;
                }
            }
            std::thread::yield_now();
        }
        let w = wh.join();
        let r = rh.join();
        if w.is_err() {
            sh.fail("panic:threads/writer", "the writer thread panicked inside the channel (message on stderr)".to_string());
        }
        if r.is_err() {
            sh.fail("panic:threads/reader", "the reader thread panicked inside the channel (message on stderr)".to_string());
        }
        let (sent, failed) = w.unwrap_or((0, false));
        let (received, eof) = r.unwrap_or((0, false));
        (sent, received, eof, failed)
    });
    for (s, d) in sh.fails.lock().unwrap().drain(..) {
        v.fail(s, d);
    }
    if let Some(d) = deadlock {
        v.fail(
            "lost-wakeup:threads/deadlock",
            format!("every live side is parked on a waker that was never woken, nothing can wake them: {}", d),
        );
    } else if v.failures.is_empty() {
        match case.finish {
            Finish::DropWriter | Finish::ShutdownThenDrop => {
                if write_failed {
                    v.fail("write-error-while-open:threads", "a write failed although the reader was never dropped".to_string());
                } else if sent != total || received != total || !saw_eof {
                    v.fail(
                        "drain-lost-bytes:threads",
                        format!("writer sent {} of {} bytes and closed; reader received {} bytes, end of stream seen: {}", sent, total, received, saw_eof),
                    );
                }
            }
            Finish::DropReaderAfter(n) => {
                let n = n as usize;
                // the reader stops after >= n bytes; the writer either got everything in or failed
                if received < n.min(total) && !saw_eof {
                    v.fail("drain-lost-bytes:threads", format!("reader stopped after {} bytes, wanted {}", received, n));
                }
                if !write_failed && sent != total {
                    v.fail("write-stopped:threads", format!("writer stopped after {} of {} bytes without an error", sent, total));
                }
            }
        }
    }
    let wparks = sh.w.parks.load(SeqCst);
    let rparks = sh.r.parks.load(SeqCst);
    v.class_if(wparks > 0, "writer-parked");
    v.class_if(rparks > 0, "reader-parked");
    v.class_if(write_failed, "write-failed-after-close");
    v.class_if(saw_eof, "eof-seen");
    v.class_if(case.wbudget < 64 || case.rbudget < 64, "small-coop-budget");
    v.class_if(case.vectored > 0, "vectored-write");
    v.class_if(case.cap >= 4096, "capacity-4096+");
    if wparks > 0 && rparks > 0 {
        v.nontrivial();
    }
    v
}
