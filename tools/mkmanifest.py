#!/usr/bin/env python3
"""Regenerates /verif/MANIFEST.json from the table below and validates it against the schema."""
import json, sys, os
ROOT = os.path.dirname(os.path.dirname(os.path.abspath(__file__)))

CHECKS = {
 # id: (engine, category, technique, level text, level note, design_ref)
 "C01": ("agentsim", "exploration",
   "stateful property-based testing: generated op lists (protocol + schedule) against the real agent model + agent runtime in a harness-owned executor; history-invariant oracle; proptest shrinking",
   "2e5 (quick) generated operation lists drive the real AgentModel (value lanes with on_event trace) inside the real AgentRouteTask, polled by the harness in a paused, seeded current-thread runtime: 1-4 remotes with byte channels of 1..4096 bytes, generated lane buffer sizes, coop budgets and select seeds, commands from remotes and sets from handlers (programs, cascades). For every (remote, value lane) link session the received bodies must be values the lane held, in non-decreasing history order, and at quiescence the last one must be the lane's current value. Exploration of schedules and histories, not exhaustive.",
   "Trusts: the agent-side on_event trace as ground truth for the values a lane held (C06 checks the handler order independently); single-threaded op-level interleavings only; runtime HashMap iteration order is not pinned (oracles are schedule independent).",
   "DESIGN.md §4 C01"),
 "C19": ("pure", "exploration",
   "property-based testing: exhaustive pairs over a boundary pool + proptest random pairs/triples/sort vectors against algebraic-law oracles",
   "Every ordered pair of a 633-value boundary pool (all numeric kinds at their limits, the same number in several kinds, floats next to integers, texts, blobs, records) is checked for eq symmetry, eq=>hash (two hashers), cmp antisymmetry and cmp==Equal<=>eq, also lifted through Item/Slot/Attr/Record; random pairs, 3e5 triples (transitivity) and sort/BTreeMap/HashMap round trips on top. Exploration, not proof: the laws are universally quantified over an infinite domain, so a boundary-exhaustive + random search is the honest level.",
   "Trusts: the serialisable mirror type V <-> Value conversion in the harness; signatures listed in known_findings.txt are excluded cell by cell (int-kind x Float64 cmp==Equal-but-!=, floats within EPSILON).",
   "DESIGN.md §4 C19"),
}

NOT_YET = {}

def main():
    props = [json.loads(l) for l in open(os.path.join(ROOT, "properties.jsonl"))]
    checks = []
    na = []
    for p in props:
        pid = p["id"]
        if pid in CHECKS:
            eng, cat, tech, text, note, ref = CHECKS[pid]
            checks.append({
                "property_id": pid,
                "quick_cmd": f"./check {pid} quick",
                "thorough_cmd": f"./check {pid} thorough",
                "evidence_file": f"/verif/evidence/{pid}.json",
                "replay_cmd_template": "./check --replay {path}",
                "engine": eng,
                "level_claimed": {"category": cat, "text": text, "design_ref": ref},
                "level_note": note,
                "technique": tech,
            })
        else:
            na.append({"property_id": pid, "reason": NOT_YET.get(pid, "check not built yet in this round (planned: see DESIGN.md §4); no claim is made")})
    hooks_commits = []
    hf = os.path.join(ROOT, "tools", "hook_commits.txt")
    if os.path.exists(hf):
        hooks_commits = [l.split()[0] for l in open(hf) if l.strip()]
    m = {
        "version": 1,
        "setup_cmd": "cd /verif/harness && CARGO_NET_OFFLINE=true cargo build --offline --bins",
        "hooks": {
            "guard": "cargo feature `verif-hooks` (off by default) on swimos_runtime / swimos_server_app / swimos_remote",
            "enable": "the harness crates depend on the repo crates by path with features=[\"verif-hooks\"]; nothing is enabled in /repo's own workspace",
            "baseline_off_cmd": "cd /repo && cargo nextest run --workspace --no-fail-fast --test-threads 8 --offline || cargo test --workspace --no-fail-fast --offline",
            "source_commits": hooks_commits,
            "add_only": True,
        },
        "engines": [
            {"name": "agentsim", "path": "/verif/harness/vsim", "serves_properties": ["C01","C02","C03","C04","C05","C06","C14","C20"], "kind_free_text": "real AgentRouteTask (agent model + runtime) polled by hand in a paused seeded tokio runtime; harness remotes with partial reads/writes; generated op lists"},
            {"name": "pure", "path": "/verif/harness/c09 c10 c15 c16 c18 c19 (+ vgen, vcommon)", "serves_properties": ["C09","C10","C15","C16","C18","C19"], "kind_free_text": "proptest TestRunner / bounded-exhaustive enumeration over pure functions with explicit oracles"},
        ],
        "checks": checks,
        "not_applicable": na,
        "notes": "All checks are property-based tests / fuzzers (proptest, bounded-exhaustive enumeration, libFuzzer). Exit 0 held, 1 violation, 2 inconclusive. Known findings: /verif/known_findings.txt.",
    }
    out = os.path.join(ROOT, "MANIFEST.json")
    json.dump(m, open(out, "w"), indent=1)
    try:
        import jsonschema
        jsonschema.validate(m, json.load(open("/root/.vp/MANIFEST.schema.json")))
        print("MANIFEST.json valid;", len(checks), "checks,", len(na), "not_applicable")
    except ImportError:
        print("jsonschema not importable; wrote MANIFEST.json unvalidated")

main()
