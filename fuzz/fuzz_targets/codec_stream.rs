//! C10 on ARBITRARY bytes (oracle inside the target). Input: `[family][c0][c1][c2][stream ...]` (see
//! `codec_fams.rs`: 29 decoder families; c0..c2 = cyclic read sizes). The stream is fed through the selected
//! decoder twice, as `FramedRead` would (append a read, `decode` until `Ok(None)`, at the end `decode_eof`
//! until `Ok(None)`, stop at the first `Err`): once in the selected chunking and once in a single read. Laws:
//!  * no panic, no abort (a corrupt tag or length must be an `Err`);
//!  * progress: `decode` never grows the buffer and never returns messages on two consecutive calls without
//!    consuming input (`FramedRead` would spin);
//!  * chunking independence: both runs return the same messages (compared by their `Debug` text, which is
//!    kind exact for `Value`), each after consuming the same number of bytes of the stream, both end in a
//!    decoder error or both do not (unread bytes of an incomplete last frame at the end of input are not a
//!    decoder error), and without an error they leave the same number of bytes unread;
//!  * raw (bytes) decoders: every message re-encodes, with the raw encoder of the same wire format, to exactly
//!    the bytes consumed for it.
//! Exempt are only two OPEN C10 findings:
//!  * finding 9 (`reencode:command-raw@*/Flags`: the command decoder truncates the flags byte): for
//!    `command-raw` the re-encoding may differ from the consumed bytes in byte 0 and nowhere else;
//!  * `alloc:routed-req` (found by this target, /verif/fuzz/NOTES.md): the typed `RequestMessageDecoder`
//!    reserves `node_len + lane_len` as declared by a header whose path has not arrived yet. An input is dropped
//!    at exactly that call (decoder at a frame start, the 32 header bytes buffered, path incomplete) when the
//!    declared sum is > 2^16, the cap the repository already uses in the raw routed decoders (so exactly the
//!    inputs whose behaviour the finding changes; libFuzzer reports a multi-GiB request as out-of-memory and a
//!    smaller one costs ~20 ms of shadow-memory poisoning per run).
#![no_main]
use bytes::{BufMut, Bytes, BytesMut};
use libfuzzer_sys::{fuzz_target, Corpus};
use std::fmt::Debug;
use swimos_agent_protocol::encoding::{command::*, downlink::*, lane::*, map::*, store::*};
use swimos_agent_protocol::{DownlinkOperation, StoreInitialized, StoreResponse};
use swimos_form::read::RecognizerReadable;
use swimos_messages::protocol::{
    RawRequestMessageDecoder, RawRequestMessageEncoder, RawResponseMessageDecoder, RawResponseMessageEncoder,
    RequestMessageDecoder,
};
use swimos_model::Value;
use swimos_recon::WithLenRecognizerDecoder;
use swimos_utilities::encoding::{BytesStr, WithLengthBytesCodec};
use tokio_util::codec::{Decoder, Encoder};

include!("codec_fams.rs");

type VRec = <Value as RecognizerReadable>::Rec;

struct Run {
    /// (Debug text, stream offset of the first unread byte when the message was returned, raw re-encoding)
    msgs: Vec<(String, usize, Option<Vec<u8>>)>,
    err: Option<String>,
    /// bytes of the stream consumed when the run ended
    consumed: usize,
}

fn hex(b: &[u8]) -> String {
    b.iter().map(|x| format!("{:02x}", x)).collect()
}

type Reenc<'a, T> = Option<&'a dyn Fn(T, &mut BytesMut)>;

/// Per family: does a `decode` call on this buffer, with the decoder at the start of a frame, hit an open
/// finding that cannot be observed from outside (an allocation)?
type Guard = Option<fn(&[u8]) -> bool>;

/// FIXED in /repo 70b5a28 (guard no longer used; kept for reference). Finding `alloc:routed-req`: header = origin(16) node_len(4) lane_len(4) len_and_tag(8).
#[allow(dead_code)]
fn routed_req_reserves_declared_path(buf: &[u8]) -> bool {
    if buf.len() < 32 {
        return false;
    }
    let node_len = u32::from_be_bytes(buf[16..20].try_into().unwrap()) as usize;
    let lane_len = u32::from_be_bytes(buf[20..24].try_into().unwrap()) as usize;
    buf.len() < 32 + node_len + lane_len && node_len + lane_len > 1 << 16
}

/// `None`: the input is dropped (see `Guard`).
fn feed<D>(fam: &str, mut dec: D, stream: &[u8], sizes: [usize; 3], reenc: Reenc<D::Item>, guard: Guard) -> Option<Run>
where
    D: Decoder,
    D::Item: Debug,
    D::Error: Debug,
{
    let mut run = Run { msgs: vec![], err: None, consumed: 0 };
    let mut buf = BytesMut::new();
    let (mut fed, mut turn, mut idle) = (0usize, 0usize, 0u32);
    // stream offset after the last returned message: a call that starts there finds the decoder at a frame start
    let mut frame_start = 0usize;
    let push = |run: &mut Run, m: D::Item, at: usize| {
        let text = format!("{:?}", m);
        let re = reenc.map(|f| {
            let mut dst = BytesMut::new();
            f(m, &mut dst);
            dst.to_vec()
        });
        run.msgs.push((text, at, re));
    };
    while fed < stream.len() {
        let n = sizes[turn % 3].clamp(1, stream.len() - fed);
        turn += 1;
        buf.put_slice(&stream[fed..fed + n]);
        fed += n;
        loop {
            let before = buf.len();
            if let Some(g) = guard {
                if fed - before == frame_start && g(&buf) {
                    return None;
                }
            }
            let r = dec.decode(&mut buf);
            assert!(
                buf.len() <= before,
                "{}: decode grew the buffer from {} to {} bytes (stream {}, reads {:?})",
                fam,
                before,
                buf.len(),
                hex(stream),
                sizes
            );
            match r {
                Ok(Some(m)) => {
                    // One message out of bytes consumed by earlier calls is legitimate; two in a row never end.
                    idle = if buf.len() == before { idle + 1 } else { 0 };
                    assert!(
                        idle < 2,
                        "{}: decode returned messages (last {:?}) on consecutive calls without consuming input (stream {}, reads {:?})",
                        fam,
                        m,
                        hex(stream),
                        sizes
                    );
                    push(&mut run, m, fed - buf.len());
                    frame_start = fed - buf.len();
                }
                Ok(None) => {
                    idle = 0;
                    break;
                }
                Err(e) => {
                    run.err = Some(format!("{:?}", e));
                    run.consumed = fed - buf.len();
                    return Some(run);
                }
            }
        }
    }
    loop {
        let before = buf.len();
        if let Some(g) = guard {
            if fed - before == frame_start && g(&buf) {
                return None;
            }
        }
        match dec.decode_eof(&mut buf) {
            Ok(Some(m)) => {
                idle = if buf.len() >= before { idle + 1 } else { 0 };
                assert!(
                    idle < 2,
                    "{}: decode_eof returned messages (last {:?}) on consecutive calls without consuming input (stream {}, reads {:?})",
                    fam,
                    m,
                    hex(stream),
                    sizes
                );
                push(&mut run, m, fed - buf.len());
                frame_start = fed - buf.len();
            }
            Ok(None) => break,
            Err(e) => {
                run.err = Some(format!("{:?}", e));
                break;
            }
        }
    }
    run.consumed = fed - buf.len();
    Some(run)
}

fn check<D, F>(fam: &str, mk: F, reenc: Reenc<D::Item>, flags_lenient: bool, guard: Guard, sizes: [usize; 3], stream: &[u8])
where
    D: Decoder,
    D::Item: Debug,
    D::Error: Debug,
    F: Fn() -> D,
{
    let (Some(whole), Some(parts)) =
        (feed(fam, mk(), stream, [usize::MAX; 3], reenc, guard), feed(fam, mk(), stream, sizes, reenc, guard))
    else {
        return;
    };
    let ctx = || format!("family {} stream {} reads {:?}", fam, hex(stream), sizes);
    for (i, (w, p)) in whole.msgs.iter().zip(parts.msgs.iter()).enumerate() {
        assert!(w.0 == p.0, "message {} differs: one read {} / chunked {} ({})", i, w.0, p.0, ctx());
        assert!(
            w.1 == p.1,
            "message {} ({}) returned after {} bytes in one read but after {} bytes chunked ({})",
            i,
            w.0,
            w.1,
            p.1,
            ctx()
        );
    }
    // Domain: Recon text is UTF-8 (C09: invalid UTF-8 is outside the parser's domain, only "no panic"). A typed
    // decoder validates as much of a body as has arrived, so where a body stops being UTF-8 *after* its first
    // complete value one read gives BadUtf8 and a chunked run may already have returned the value. Once a run of
    // a typed family has ended with a UTF-8 error only the messages both runs returned are compared (above).
    let utf8 = |r: &Run| r.err.as_deref().map(|e| e.contains("Utf8")).unwrap_or(false);
    if reenc.is_none() && (utf8(&whole) || utf8(&parts)) {
        return;
    }
    assert!(
        whole.msgs.len() == parts.msgs.len(),
        "one read gives {} messages (error {:?}), chunked gives {} (error {:?}); first extra: {:?} ({})",
        whole.msgs.len(),
        whole.err,
        parts.msgs.len(),
        parts.err,
        whole.msgs.get(parts.msgs.len()).or(parts.msgs.get(whole.msgs.len())).map(|m| &m.0),
        ctx()
    );
    // An incomplete last frame: a decoder that consumes a partial body as it arrives ends with an empty buffer
    // (`Ok(None)`), otherwise the default `decode_eof` reports the unread bytes. Which of the two happens depends
    // on the reads and both are "no message" (c10 NOTES "Truncated input at EOF"), so they count as the same end.
    let failed = |r: &Run| r.err.as_deref().map(|e| !e.contains("bytes remaining on stream")).unwrap_or(false);
    assert!(
        failed(&whole) == failed(&parts),
        "after {} messages one read ends with {:?} but chunked with {:?} ({})",
        whole.msgs.len(),
        whole.err,
        parts.err,
        ctx()
    );
    if whole.err.is_none() && parts.err.is_none() {
        assert!(
            whole.consumed == parts.consumed,
            "one read consumed {} bytes, chunked {} ({})",
            whole.consumed,
            parts.consumed,
            ctx()
        );
    }
    let mut start = 0;
    for (i, (text, end, re)) in whole.msgs.iter().enumerate() {
        if let Some(re) = re {
            let used = &stream[start..*end];
            let same = if flags_lenient {
                // OPEN finding C10-9 (reencode:command-raw@*/Flags): only the flags byte may differ.
                re.len() == used.len() && re.get(1..) == used.get(1..)
            } else {
                re.as_slice() == used
            };
            assert!(same, "message {} {} decoded from {} re-encodes as {} ({})", i, text, hex(used), hex(re), ctx());
        }
        start = *end;
    }
}

fn enc<E: Encoder<T>, T>(mut e: E, item: T, dst: &mut BytesMut)
where
    E::Error: Debug,
{
    e.encode(item, dst).expect("raw encoder failed on a decoded message");
}

fuzz_target!(|data: &[u8]| -> Corpus {
    if data.len() <= HEADER_LEN || data.len() > HEADER_LEN + 4096 || data[0] as usize >= FAMILIES.len() {
        return Corpus::Reject;
    }
    let f = data[0] as usize;
    let fam = FAMILIES[f];
    let sz = read_sizes(&data[1..HEADER_LEN]);
    let s = &data[HEADER_LEN..];
    macro_rules! raw {
        ($mk:expr, $re:expr) => {
            check(fam, || $mk, Some(&$re), false, None, sz, s)
        };
    }
    macro_rules! typed {
        ($mk:expr) => {
            check(fam, || $mk, None, false, None, sz, s)
        };
    }
    match f {
        0 => raw!(WithLengthBytesCodec, |m, d: &mut BytesMut| enc(WithLengthBytesCodec, m, d)),
        1 => typed!(WithLenRecognizerDecoder::new(Value::make_recognizer())),
        2 => raw!(RawValueLaneRequestDecoder::default(), |m, d: &mut BytesMut| enc(RawValueLaneRequestEncoder::default(), m, d)),
        3 => typed!(ValueLaneRequestDecoder::<Value>::default()),
        4 => raw!(RawMapLaneRequestDecoder::default(), |m, d: &mut BytesMut| enc(RawMapLaneRequestEncoder::default(), m, d)),
        5 => typed!(MapLaneRequestDecoder::<Value, Value>::default()),
        6 => raw!(RawValueLaneResponseDecoder::default(), |m, d: &mut BytesMut| enc(RawValueLaneResponseEncoder::default(), m, d)),
        7 => typed!(ValueLaneResponseDecoder::<Value>::default()),
        8 => raw!(RawMapLaneResponseDecoder::default(), |m, d: &mut BytesMut| enc(RawMapLaneResponseEncoder::default(), m, d)),
        9 => typed!(MapLaneResponseDecoder::<Value, Value>::default()),
        10 => raw!(RawMapMessageDecoder::default(), |m, d: &mut BytesMut| enc(RawMapMessageEncoder::default(), m, d)),
        11 => typed!(MapMessageDecoder::<Value, Value>::default()),
        12 => raw!(RawMapOperationDecoder, |m, d: &mut BytesMut| enc(RawMapOperationEncoder, m, d)),
        13 => typed!(MapOperationDecoder::<Value, Value>::default()),
        14 => raw!(RawValueStoreInitDecoder::default(), |m, d: &mut BytesMut| enc(RawValueStoreInitEncoder::default(), m, d)),
        15 => typed!(ValueStoreInitDecoder::<Value>::default()),
        16 => raw!(RawMapStoreInitDecoder::default(), |m, d: &mut BytesMut| enc(RawMapStoreInitEncoder::default(), m, d)),
        17 => typed!(MapStoreInitDecoder::<Value, Value>::default()),
        18 => raw!(StoreInitializedCodec, |m: StoreInitialized, d: &mut BytesMut| enc(StoreInitializedCodec, m, d)),
        // No raw store response encoder is exported: EVENT tag (3) + the raw body codec.
        19 => raw!(RawValueStoreResponseDecoder::default(), |m: StoreResponse<BytesMut>, d: &mut BytesMut| {
            d.put_u8(3);
            enc(WithLengthBytesCodec, m.message, d)
        }),
        20 => raw!(RawMapStoreResponseDecoder::default(), |m: StoreResponse<_>, d: &mut BytesMut| {
            d.put_u8(3);
            enc(RawMapOperationEncoder, m.message, d)
        }),
        21 => typed!(ValueNotificationDecoder::<Value>::default()),
        22 => typed!(MapNotificationDecoder::<Value, Value>::default()),
        // The wire format of a downlink operation is the length-prefixed byte codec.
        23 => raw!(DownlinkOperationDecoder, |m: DownlinkOperation<Bytes>, d: &mut BytesMut| enc(WithLengthBytesCodec, m.body, d)),
        24 => check(
            fam,
            || RawCommandMessageDecoder::<BytesStr>::default(),
            Some(&|m, d: &mut BytesMut| enc(RawCommandMessageEncoder::default(), m, d)),
            true,
            None,
            sz,
            s,
        ),
        25 => typed!(CommandMessageDecoder::<String, Value>::default()),
        26 => raw!(RawRequestMessageDecoder, |m, d: &mut BytesMut| enc(RawRequestMessageEncoder, m, d)),
        27 => check(
            fam,
            || RequestMessageDecoder::<Value, VRec>::new(Value::make_recognizer()),
            None,
            false,
            None,
            sz,
            s,
        ),
        28 => raw!(RawResponseMessageDecoder, |m, d: &mut BytesMut| enc(RawResponseMessageEncoder, m, d)),
        _ => unreachable!(),
    }
    Corpus::Keep
});
