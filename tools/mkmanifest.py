#!/usr/bin/env python3
"""Regenerates /verif/MANIFEST.json from the table below and validates it against the schema."""
import json, sys, os
ROOT = os.path.dirname(os.path.dirname(os.path.abspath(__file__)))

CHECKS = {
 # id: (engine, category, technique, level text, level note, design_ref)
 "C04": ("rawlane+agentsim", "exploration",
   "stateful property-based testing with fault injection: generated op lists (remote envelopes, raw lane output, partial reads/writes, drops, lane failure, stop, timeouts) against the real agent runtime; session-grammar + byte-identity oracle; proptest shrinking",
   "The real agent runtime is driven by a harness agent that speaks the lane protocol directly, so lane output (events, sync events, synced, bad tags, closed channels) is generated, together with link/sync/unlink/command envelopes to existing and missing lanes from several remotes and faults at any op position. Per (remote, lane) the frames must form `linked (event|synced)* unlinked` sessions with every linked/synced caused by a request, lane-not-found answers, closure after lane failure / stop, and byte-identical event bodies (value: non-decreasing emission order; supply: exact FIFO). A second sub-check runs the same grammar on the real SimAgent. 1e5 cases quick.",
   "Trusts: the harness lane only emits sync responses for sync requests it has read (as a real lane does). One known finding is excluded by signature (a raw lane that closes its channels cleanly: read task and write task disagree on whether the lane exists; not reachable with AgentModel lanes).",
   "DESIGN.md §4 C04"),
 "C08": ("dlimpl", "exploration",
   "differential + model-based property testing: generated legal notification sequences fed to the stand-alone client downlink tasks and to agent-hosted downlinks, compared with a reference fold and with each other; proptest shrinking",
   "Generated legal notification sequences (linked, events incl. take/drop/clear, synced, unlinked, relink) x events_when_not_synced x terminate_on_unlinked x interleaved local writes are encoded with the real notification codec and fed to the real swimos_downlink value/map tasks and to downlinks hosted by a real agent; every callback (kind, key, old/new value, map argument, on_synced state) must equal a reference fold written from the statement, and the two implementations must produce the same normalised callback trace. Arbitrary-order sequences are checked for panics/hangs only. 1.4e5 cases quick.",
   "Trusts: the reference fold in harness/c08/src/model.rs; frames are delivered whole (a decoder defect that belongs to C09 makes byte-wise delivery of numbers unsound); event downlinks and corrupt frames are not covered.",
   "DESIGN.md §4 C08"),
 "C18": ("pure", "exploration",
   "property-based testing: grammar-generated route patterns, parameter maps, pattern pairs/sets with synthesised URIs and malformed patterns against round-trip / determinism / ambiguity-implication oracles, incl. the real ServerBuilder route check; libFuzzer target for the thorough tier",
   "1.42e6 generated cases (quick): unapply(apply(p,m)) == m; matching is a function of the URI (unapply_str == unapply_route_uri . parse, repeatable, no empty binding); p and q both match some URI => are_ambiguous(p,q) in both orders, hence in every accepted set (also through the real ServerBuilder::build with and without introspection) a URI resolves to at most one route; injected structural faults are rejected and arbitrary text never panics.",
   "Trusts: `at most one agent definition` is evaluated as `at most one route-table entry matches` (Routes::find_route is private and returns the first match). Over-reporting of ambiguity is outside the statement.",
   "DESIGN.md §4 C18"),
 "C20": ("enum+agentsim+threads", "exploration",
   "model-based testing: bounded-exhaustive and random operation histories on the real Links structure with real uplink reporters against a reference relation, generated agent histories with introspection enabled, and a thread stress tier",
   "Every history of register/insert/remove/remove_remote/remove_lane/remove_all/count ops to depth 7 (2 lanes x 2 remotes) and 6 (3x3), plus 3e5 random histories to length 80, is executed on the real Links with real UplinkReporters: after every op each lane reader's link count must equal the reference relation, the aggregate the total, and the sum of snapshot event counts the number counted. The same is checked on the running SimAgent with NodeReporting under link/unlink/drop/prune/stop histories at quiescent checkpoints, and k threads counting against one snapshotting thread must lose nothing.",
   "Trusts: the Links ops are used with the discipline of agent/task/mod.rs (listed in c20/src/links.rs); only SC interleavings of the Relaxed atomics are reachable on this hardware.",
   "DESIGN.md §4 C20"),
 "C01": ("agentsim", "exploration",
   "stateful property-based testing: generated op lists (protocol + schedule) against the real agent model + agent runtime in a harness-owned executor; history-invariant oracle; proptest shrinking",
   "2e5 (quick) generated operation lists drive the real AgentModel (value lanes with on_event trace) inside the real AgentRouteTask, polled by the harness in a paused, seeded current-thread runtime: 1-4 remotes with byte channels of 1..4096 bytes, generated lane buffer sizes, coop budgets and select seeds, commands from remotes and sets from handlers (programs, cascades). For every (remote, value lane) link session the received bodies must be values the lane held, in non-decreasing history order, and at quiescence the last one must be the lane's current value. Exploration of schedules and histories, not exhaustive.",
   "Trusts: the agent-side on_event trace as ground truth for the values a lane held (C06 checks the handler order independently); single-threaded op-level interleavings only; runtime HashMap iteration order is not pinned (oracles are schedule independent).",
   "DESIGN.md §4 C01"),
 "C19": ("pure", "exploration",
   "property-based testing: exhaustive pairs over a boundary pool + proptest random pairs/triples/sort vectors against algebraic-law oracles",
   "Every ordered pair of a 633-value boundary pool (all numeric kinds at their limits, the same number in several kinds, floats next to integers, texts, blobs, records) is checked for eq symmetry, eq=>hash (two hashers), cmp antisymmetry and cmp==Equal<=>eq, also lifted through Item/Slot/Attr/Record; random pairs, 3e5 triples (transitivity) and sort/BTreeMap/HashMap round trips on top. Exploration, not proof: the laws are universally quantified over an infinite domain, so a boundary-exhaustive + random search is the honest level.",
   "Trusts: the serialisable mirror type V <-> Value conversion in the harness; signatures listed in known_findings.txt are excluded cell by cell (int-kind x Float64 cmp==Equal-but-!=, floats within EPSILON).",
   "DESIGN.md §4 C19"),
}

NOT_YET = {}

def main():
    props = [json.loads(l) for l in open(os.path.join(ROOT, "properties.jsonl"))]
    checks = []
    na = []
    for p in props:
        pid = p["id"]
        if pid in CHECKS:
            eng, cat, tech, text, note, ref = CHECKS[pid]
            checks.append({
                "property_id": pid,
                "quick_cmd": f"./check {pid} quick",
                "thorough_cmd": f"./check {pid} thorough",
                "evidence_file": f"/verif/evidence/{pid}.json",
                "replay_cmd_template": "./check --replay {path}",
                "engine": eng,
                "level_claimed": {"category": cat, "text": text, "design_ref": ref},
                "level_note": note,
                "technique": tech,
            })
        else:
            na.append({"property_id": pid, "reason": NOT_YET.get(pid, "check not built yet in this round (planned: see DESIGN.md §4); no claim is made")})
    hooks_commits = []
    hf = os.path.join(ROOT, "tools", "hook_commits.txt")
    if os.path.exists(hf):
        hooks_commits = [l.split()[0] for l in open(hf) if l.strip()]
    m = {
        "version": 1,
        "setup_cmd": "cd /verif/harness && CARGO_NET_OFFLINE=true cargo build --offline --bins",
        "hooks": {
            "guard": "cargo feature `verif-hooks` (off by default) on swimos_runtime / swimos_server_app / swimos_remote",
            "enable": "the harness crates depend on the repo crates by path with features=[\"verif-hooks\"]; nothing is enabled in /repo's own workspace",
            "baseline_off_cmd": "cd /repo && cargo nextest run --workspace --no-fail-fast --test-threads 8 --offline || cargo test --workspace --no-fail-fast --offline",
            "source_commits": hooks_commits,
            "add_only": True,
        },
        "engines": [
            {"name": "agentsim", "path": "/verif/harness/vsim", "serves_properties": ["C01","C02","C03","C04","C05","C06","C14","C20"], "kind_free_text": "real AgentRouteTask (agent model + runtime) polled by hand in a paused seeded tokio runtime; harness remotes with partial reads/writes; generated op lists"},
            {"name": "rawlane", "path": "/verif/harness/c04", "serves_properties": ["C04"], "kind_free_text": "real agent runtime around a harness Agent that speaks the lane protocol; lane output is part of the generated op list"},
            {"name": "dlimpl", "path": "/verif/harness/c08", "serves_properties": ["C08"], "kind_free_text": "real client downlink tasks and agent-hosted downlinks fed identical generated notification sequences; reference fold"},
            {"name": "enum", "path": "/verif/harness/c12 c17 c20", "serves_properties": ["C12","C17","C20"], "kind_free_text": "bounded-exhaustive enumeration of op sequences on the real implementation with counting wakers / reference models"},
            {"name": "pure", "path": "/verif/harness/c09 c10 c15 c16 c18 c19 (+ vgen, vcommon)", "serves_properties": ["C09","C10","C15","C16","C18","C19"], "kind_free_text": "proptest TestRunner / bounded-exhaustive enumeration over pure functions with explicit oracles"},
        ],
        "checks": checks,
        "not_applicable": na,
        "notes": "All checks are property-based tests / fuzzers (proptest, bounded-exhaustive enumeration, libFuzzer). Exit 0 held, 1 violation, 2 inconclusive. Known findings: /verif/known_findings.txt.",
    }
    out = os.path.join(ROOT, "MANIFEST.json")
    json.dump(m, open(out, "w"), indent=1)
    try:
        import jsonschema
        jsonschema.validate(m, json.load(open("/root/.vp/MANIFEST.schema.json")))
        print("MANIFEST.json valid;", len(checks), "checks,", len(na), "not_applicable")
    except ImportError:
        print("jsonschema not importable; wrote MANIFEST.json unvalidated")

main()
