//! Harness-neutral, serialisable model of every wire message of the C10 codec families, plus the
//! proptest strategies that generate them.
use proptest::prelude::*;
use serde::{Deserialize, Serialize};
use swimos_model::Value;
use swimos_recon::print_recon_compact;
use vgen::{arb_ident, arb_scalar, arb_text, I, V};

/// A scalar body.
#[derive(Clone, Debug, PartialEq, Serialize, Deserialize)]
pub enum Sc {
    /// Arbitrary bytes (only raw encoders / raw decoders can carry it).
    Bytes(Vec<u8>),
    /// A value; on the wire its compact Recon text (what every typed encoder writes).
    Recon(V),
    /// Recon text with `lead` / `trail` padding characters around the compact form (a raw
    /// encoder relaying text produced by somebody else's printer).
    Text(V, u8, u8),
}

const PAD: &[&str] = &[" ", "  ", "\n", " \n ", "\t", "   "];

impl Sc {
    /// The bytes a raw encoder is given for this body (= the body bytes on the wire).
    pub fn wire(&self) -> Vec<u8> {
        match self {
            Sc::Bytes(b) => b.clone(),
            Sc::Recon(v) => format!("{}", print_recon_compact(&v.to_value())).into_bytes(),
            Sc::Text(v, l, t) => {
                let mut s = String::new();
                if *l > 0 {
                    s.push_str(PAD[(*l as usize - 1) % PAD.len()]);
                }
                s.push_str(&format!("{}", print_recon_compact(&v.to_value())));
                if *t > 0 {
                    s.push_str(PAD[(*t as usize - 1) % PAD.len()]);
                }
                s.into_bytes()
            }
        }
    }
    /// Can a typed (Recon printing) encoder produce exactly this body?
    pub fn compact(&self) -> bool {
        matches!(self, Sc::Recon(_))
    }
    pub fn value(&self) -> Value {
        match self {
            Sc::Recon(v) | Sc::Text(v, _, _) => v.to_value(),
            Sc::Bytes(b) => Value::Data(swimos_model::Blob::encode(b)),
        }
    }
    pub fn padded(&self) -> bool {
        matches!(self, Sc::Text(_, l, t) if *l > 0 || *t > 0)
    }
}

/// A body: a scalar or a map message / operation over scalars.
#[derive(Clone, Debug, PartialEq, Serialize, Deserialize)]
pub enum Bd {
    S(Sc),
    Upd(Sc, Sc),
    Rem(Sc),
    Clear,
    Take(u64),
    Drop(u64),
}

impl Bd {
    pub fn scalars(&self) -> Vec<&Sc> {
        match self {
            Bd::S(s) | Bd::Rem(s) => vec![s],
            Bd::Upd(k, v) => vec![k, v],
            _ => vec![],
        }
    }
    pub fn map_scalars(&self, f: &mut dyn FnMut(&Sc) -> Option<Sc>) -> Option<Bd> {
        Some(match self {
            Bd::S(s) => Bd::S(f(s)?),
            Bd::Rem(s) => Bd::Rem(f(s)?),
            Bd::Upd(k, v) => Bd::Upd(f(k)?, f(v)?),
            o => o.clone(),
        })
    }
    pub fn kind(&self) -> &'static str {
        match self {
            Bd::S(_) => "",
            Bd::Upd(..) => "/Update",
            Bd::Rem(_) => "/Remove",
            Bd::Clear => "/Clear",
            Bd::Take(_) => "/Take",
            Bd::Drop(_) => "/Drop",
        }
    }
}

#[derive(Clone, Debug, PartialEq, Serialize, Deserialize)]
pub enum Env {
    Link,
    Sync,
    Unlink,
    Command(Sc),
    Linked,
    Synced,
    Unlinked(Option<Vec<u8>>),
    Event(Sc),
}

#[derive(Clone, Debug, PartialEq, Serialize, Deserialize)]
pub enum Msg {
    /// Bare body (length codecs, map message / operation codecs, downlink operations).
    Body(Bd),
    ReqCommand(Bd),
    ReqInit,
    ReqSync(u128),
    RespEvent(Bd),
    RespInit,
    RespSyncEvent(u128, Bd),
    RespSynced(u128),
    StoreCommand(Bd),
    StoreInitDone,
    StoreInitialized,
    StoreResp(Bd),
    Linked,
    Synced,
    Unlinked,
    Event(Bd),
    CmdRegister { host: Option<String>, node: String, lane: String, id: u16 },
    CmdAddressed { host: Option<String>, node: String, lane: String, body: Sc, ow: bool },
    CmdRegistered { id: u16, body: Sc, ow: bool },
    Routed { origin: u128, node: String, lane: String, env: Env },
}

impl Msg {
    pub fn body(&self) -> Option<&Bd> {
        match self {
            Msg::Body(b)
            | Msg::ReqCommand(b)
            | Msg::RespEvent(b)
            | Msg::RespSyncEvent(_, b)
            | Msg::StoreCommand(b)
            | Msg::StoreResp(b)
            | Msg::Event(b) => Some(b),
            _ => None,
        }
    }
    pub fn scalars(&self) -> Vec<&Sc> {
        match self {
            Msg::CmdAddressed { body, .. } | Msg::CmdRegistered { body, .. } => vec![body],
            Msg::Routed { env: Env::Command(s), .. } | Msg::Routed { env: Env::Event(s), .. } => vec![s],
            m => m.body().map(|b| b.scalars()).unwrap_or_default(),
        }
    }
    /// Rewrites every scalar body (None from `f` aborts).
    pub fn map_scalars(&self, f: &mut dyn FnMut(&Sc) -> Option<Sc>) -> Option<Msg> {
        Some(match self {
            Msg::Body(b) => Msg::Body(b.map_scalars(f)?),
            Msg::ReqCommand(b) => Msg::ReqCommand(b.map_scalars(f)?),
            Msg::RespEvent(b) => Msg::RespEvent(b.map_scalars(f)?),
            Msg::RespSyncEvent(i, b) => Msg::RespSyncEvent(*i, b.map_scalars(f)?),
            Msg::StoreCommand(b) => Msg::StoreCommand(b.map_scalars(f)?),
            Msg::StoreResp(b) => Msg::StoreResp(b.map_scalars(f)?),
            Msg::Event(b) => Msg::Event(b.map_scalars(f)?),
            Msg::CmdAddressed { host, node, lane, body, ow } => Msg::CmdAddressed {
                host: host.clone(),
                node: node.clone(),
                lane: lane.clone(),
                body: f(body)?,
                ow: *ow,
            },
            Msg::CmdRegistered { id, body, ow } => Msg::CmdRegistered { id: *id, body: f(body)?, ow: *ow },
            Msg::Routed { origin, node, lane, env } => Msg::Routed {
                origin: *origin,
                node: node.clone(),
                lane: lane.clone(),
                env: match env {
                    Env::Command(s) => Env::Command(f(s)?),
                    Env::Event(s) => Env::Event(f(s)?),
                    // `Unlinked(Some(empty))` is written as a zero body length, which is also the
                    // encoding of `Unlinked(None)`: the two are one message on the wire.
                    Env::Unlinked(Some(b)) if b.is_empty() => Env::Unlinked(None),
                    o => o.clone(),
                },
            },
            o => o.clone(),
        })
    }
    pub fn kind(&self) -> String {
        let (base, b): (&str, Option<&Bd>) = match self {
            Msg::Body(b) => ("Body", Some(b)),
            Msg::ReqCommand(b) => ("Command", Some(b)),
            Msg::ReqInit => ("InitComplete", None),
            Msg::ReqSync(_) => ("Sync", None),
            Msg::RespEvent(b) => ("StandardEvent", Some(b)),
            Msg::RespInit => ("Initialized", None),
            Msg::RespSyncEvent(_, b) => ("SyncEvent", Some(b)),
            Msg::RespSynced(_) => ("Synced", None),
            Msg::StoreCommand(b) => ("Command", Some(b)),
            Msg::StoreInitDone => ("InitComplete", None),
            Msg::StoreInitialized => ("StoreInitialized", None),
            Msg::StoreResp(b) => ("StoreResponse", Some(b)),
            Msg::Linked => ("Linked", None),
            Msg::Synced => ("Synced", None),
            Msg::Unlinked => ("Unlinked", None),
            Msg::Event(b) => ("Event", Some(b)),
            Msg::CmdRegister { .. } => ("Register", None),
            Msg::CmdAddressed { .. } => ("Addressed", None),
            Msg::CmdRegistered { .. } => ("Registered", None),
            Msg::Routed { env, .. } => (
                match env {
                    Env::Link => "Link",
                    Env::Sync => "Sync",
                    Env::Unlink => "Unlink",
                    Env::Command(_) => "Command",
                    Env::Linked => "Linked",
                    Env::Synced => "Synced",
                    Env::Unlinked(_) => "Unlinked",
                    Env::Event(_) => "Event",
                },
                None,
            ),
        };
        format!("{}{}", base, b.map(|b| b.kind()).unwrap_or(""))
    }
}

// ---------------------------------------------------------------------------------------------
// Strategies

/// Values kept small (frames of tens of bytes) but rich in cut positions: escapes, multi-byte
/// characters, numbers of every kind, blobs, attributes, nested records.
pub fn arb_body_value() -> BoxedStrategy<V> {
    let small = prop_oneof![
        3 => (-20i32..200).prop_map(V::I32),
        1 => any::<i64>().prop_map(V::I64),
        1 => any::<u64>().prop_map(V::U64),
        2 => arb_ident().prop_map(V::Text),
        2 => arb_text().prop_map(V::Text),
        1 => any::<bool>().prop_map(V::Bool),
        1 => Just(V::Extant),
        1 => Just(V::Text(String::new())),
        1 => (-1000i32..1000).prop_map(|n| V::f(n as f64 / 8.0)),
        1 => proptest::collection::vec(any::<u8>(), 0..6).prop_map(V::Data),
    ];
    let leaf = prop_oneof![5 => small, 2 => arb_scalar(true)];
    prop_oneof![
        3 => leaf.clone(),
        2 => leaf.prop_recursive(3, 10, 3, |inner| {
            let item = prop_oneof![
                3 => inner.clone().prop_map(I::Val),
                2 => (inner.clone(), inner.clone()).prop_map(|(k, v)| I::Slot(k, v)),
            ];
            (
                proptest::collection::vec((arb_ident(), inner), 0..2),
                proptest::collection::vec(item, 0..3),
            )
                .prop_map(|(a, i)| V::Record(a, i))
        }),
    ]
    .boxed()
}

#[derive(Clone, Copy, PartialEq, Eq, Debug)]
pub enum ScMode {
    /// Any bytes (raw encoder to raw decoder).
    Any,
    /// The wire bytes must be Recon text (a typed decoder reads them); padding allowed.
    ReconText,
    /// Only what a typed encoder can write.
    Compact,
    /// Well-framed Recon text for a decoder that expects an `i32`: about half are an `i32`
    /// (possibly padded), the rest are ill-typed - some rejected at the first event (records,
    /// attributes), some only at the end of the body (texts, floats, out of range numbers).
    Strict,
}

pub fn arb_sc(mode: ScMode) -> BoxedStrategy<Sc> {
    let recon = arb_body_value().prop_map(Sc::Recon);
    let text = (arb_body_value(), 0u8..7, 0u8..7).prop_map(|(v, l, t)| Sc::Text(v, l, t));
    let bytes = prop_oneof![
        1 => Just(vec![]),
        3 => proptest::collection::vec(any::<u8>(), 1..24),
        1 => proptest::collection::vec(prop_oneof![Just(0u8), Just(1), Just(2), Just(3), Just(4), Just(5), Just(255)], 1..20),
    ]
    .prop_map(Sc::Bytes);
    if mode == ScMode::Strict {
        let int = prop_oneof![3 => -50i32..500, 1 => any::<i32>()].prop_map(V::I32);
        let bad = prop_oneof![
            3 => proptest::collection::vec((arb_ident(), -9i32..100), 1..6).prop_map(|kv| {
                V::Record(vec![], kv.into_iter().map(|(k, v)| I::Slot(V::Text(k), V::I32(v))).collect())
            }),
            2 => proptest::collection::vec(-9i32..1000, 2..12)
                .prop_map(|xs| V::Record(vec![], xs.into_iter().map(|x| I::Val(V::I32(x))).collect())),
            1 => (arb_ident(), -9i32..100).prop_map(|(a, n)| V::Record(vec![(a, V::I32(n))], vec![I::Val(V::I32(n))])),
            2 => "[a-z ]{3,24}".prop_map(V::Text),
            1 => arb_ident().prop_map(V::Text),
            1 => (-1000i32..1000).prop_map(|n| V::f(n as f64 / 8.0 + 0.0625)),
            1 => (3_000_000_000i64..9_000_000_000).prop_map(V::I64),
            1 => any::<bool>().prop_map(V::Bool),
            1 => Just(V::Extant),
            1 => arb_body_value(),
        ];
        return prop_oneof![
            3 => int.clone().prop_map(Sc::Recon),
            2 => (int, 0u8..7, 0u8..7).prop_map(|(v, l, t)| Sc::Text(v, l, t)),
            4 => bad.clone().prop_map(Sc::Recon),
            2 => (bad, 0u8..7, 0u8..7).prop_map(|(v, l, t)| Sc::Text(v, l, t)),
        ]
        .boxed();
    }
    match mode {
        ScMode::Any => prop_oneof![3 => bytes, 3 => recon, 1 => text].boxed(),
        ScMode::ReconText => prop_oneof![3 => recon, 2 => text].boxed(),
        ScMode::Compact => recon.boxed(),
        ScMode::Strict => unreachable!(),
    }
}

pub fn arb_u128() -> BoxedStrategy<u128> {
    prop_oneof![
        3 => any::<u128>(),
        1 => Just(0u128),
        1 => Just(u128::MAX),
        1 => 0u128..6,
        // ids whose bytes look like tags / small lengths
        1 => proptest::collection::vec(0u8..6, 16).prop_map(|b| {
            let mut a = [0u8; 16];
            a.copy_from_slice(&b);
            u128::from_be_bytes(a)
        }),
    ]
    .boxed()
}

pub fn arb_u64n() -> BoxedStrategy<u64> {
    prop_oneof![2 => any::<u64>(), 2 => 0u64..10, 1 => Just(u64::MAX), 1 => Just(0x0303030303030303u64)].boxed()
}

pub fn arb_map_body(mode: ScMode, with_take_drop: bool) -> BoxedStrategy<Bd> {
    let s = arb_sc(mode);
    if with_take_drop {
        prop_oneof![
            4 => (s.clone(), s.clone()).prop_map(|(k, v)| Bd::Upd(k, v)),
            2 => s.prop_map(Bd::Rem),
            1 => Just(Bd::Clear),
            1 => arb_u64n().prop_map(Bd::Take),
            1 => arb_u64n().prop_map(Bd::Drop),
        ]
        .boxed()
    } else {
        prop_oneof![
            4 => (s.clone(), s.clone()).prop_map(|(k, v)| Bd::Upd(k, v)),
            2 => s.prop_map(Bd::Rem),
            1 => Just(Bd::Clear),
        ]
        .boxed()
    }
}

pub fn arb_scalar_body(mode: ScMode) -> BoxedStrategy<Bd> {
    arb_sc(mode).prop_map(Bd::S).boxed()
}

/// Node / lane / host strings (any UTF-8 is accepted by the encoders).
pub fn arb_name() -> BoxedStrategy<String> {
    prop_oneof![
        3 => "/[a-z]{1,6}(/[a-z0-9]{1,4}){0,2}",
        2 => "[a-z_]{1,8}",
        1 => Just(String::new()),
        1 => arb_text(),
        1 => Just("\u{3}\u{4}\u{0}".to_string()),
    ]
    .boxed()
}

pub fn arb_host() -> BoxedStrategy<Option<String>> {
    prop_oneof![
        2 => Just(None),
        2 => "ws://[a-z]{1,8}(:[0-9]{2,4})?".prop_map(Some),
        1 => Just(Some(String::new())),
        1 => arb_text().prop_map(Some),
    ]
    .boxed()
}
