//! Recon *surface syntax* generators shared by C09 / C15 (and usable by the codec checks):
//!
//! * [`render`]: prints a model value `V` as Recon text, taking every formatting decision
//!   (whitespace, separators, quoting, escapes, numeric spellings, implicit / explicit attribute and
//!   record bodies) from a byte *tape*; an all-zero / empty tape gives the plainest formatting, so
//!   shrinking the tape shrinks towards canonical text. The renderer is **not** trusted to be value
//!   preserving: every oracle re-parses the text with the real parser.
//! * [`mutate_text`] / [`mutate_bytes`]: character / byte level mutations (near-valid and invalid input).
//! * [`near_miss`]: small semantic edits of a `V` (C15 near-miss pairs).
//! * [`cut_points`] / chunk helpers: chunkings of a byte string.
//! * [`to_value_raw`] / [`from_value_raw`]: `V` <-> `Value` where `V::Data` holds the blob's bytes
//!   verbatim (the Recon printer base64-encodes whatever bytes the `Blob` wraps).

use crate::gen::{I, V};
use num_bigint::{BigInt, BigUint};
use proptest::prelude::*;
use serde::{Deserialize, Serialize};
use std::str::FromStr;
use swimos_model::identifier::is_identifier;
use swimos_model::{Attr, Blob, Item, Text, Value};

// ---------------------------------------------------------------------------------------------
// V <-> Value with raw blob bytes

pub fn to_value_raw(v: &V) -> Value {
    match v {
        V::Data(d) => Value::Data(Blob::from_vec(d.clone())),
        V::Record(attrs, items) => Value::Record(
            attrs
                .iter()
                .map(|(n, v)| Attr {
                    name: Text::new(n),
                    value: to_value_raw(v),
                })
                .collect(),
            items
                .iter()
                .map(|i| match i {
                    I::Val(v) => Item::ValueItem(to_value_raw(v)),
                    I::Slot(k, v) => Item::Slot(to_value_raw(k), to_value_raw(v)),
                })
                .collect(),
        ),
        V::BigInt(s) => Value::BigInt(BigInt::from_str(s).expect("bad bigint in case")),
        V::BigUint(s) => Value::BigUint(BigUint::from_str(s).expect("bad biguint in case")),
        ow => ow.to_value(),
    }
}

pub fn from_value_raw(v: &Value) -> V {
    match v {
        Value::Data(b) => V::Data(b.as_ref().to_vec()),
        Value::Record(attrs, items) => V::Record(
            attrs
                .iter()
                .map(|a| (a.name.as_str().to_string(), from_value_raw(&a.value)))
                .collect(),
            items
                .iter()
                .map(|i| match i {
                    Item::ValueItem(v) => I::Val(from_value_raw(v)),
                    Item::Slot(k, v) => I::Slot(from_value_raw(k), from_value_raw(v)),
                })
                .collect(),
        ),
        ow => V::from_value(ow),
    }
}

// ---------------------------------------------------------------------------------------------
// Tape of formatting decisions

pub struct Tape<'a> {
    bytes: &'a [u8],
    pos: usize,
}

impl<'a> Tape<'a> {
    pub fn new(bytes: &'a [u8]) -> Self {
        Tape { bytes, pos: 0 }
    }
    /// Next decision byte; 0 once the tape is exhausted.
    pub fn next(&mut self) -> u8 {
        let b = self.bytes.get(self.pos).copied().unwrap_or(0);
        self.pos += 1;
        b
    }
    /// A choice in 0..n (0 = the plain choice).
    pub fn choose(&mut self, n: usize) -> usize {
        (self.next() as usize) % n.max(1)
    }
    /// True with probability ~ num/8 (false on an exhausted tape).
    pub fn flag(&mut self, num: u8) -> bool {
        let b = self.next();
        b != 0 && (b % 8) < num
    }
}

// ---------------------------------------------------------------------------------------------
// Renderer

fn pad(out: &mut String, t: &mut Tape<'_>) {
    match t.choose(8) {
        0..=4 => {}
        5 => out.push(' '),
        6 => out.push_str("  "),
        _ => out.push('\t'),
    }
}

fn render_text(s: &str, out: &mut String, t: &mut Tape<'_>) {
    let bare_ok = is_identifier(s);
    if bare_ok && !t.flag(2) {
        out.push_str(s);
        return;
    }
    out.push('"');
    for c in s.chars() {
        let named = match c {
            '"' => Some("\\\""),
            '\\' => Some("\\\\"),
            '\n' => Some("\\n"),
            '\r' => Some("\\r"),
            '\t' => Some("\\t"),
            '\u{8}' => Some("\\b"),
            '\u{c}' => Some("\\f"),
            _ => None,
        };
        let cp = c as u32;
        let bmp = cp <= 0xffff;
        match named {
            Some(esc) => {
                // must be escaped one way or the other
                if bmp && t.flag(2) {
                    out.push_str(&format!("\\u{:04x}", cp));
                } else {
                    out.push_str(esc);
                }
            }
            None if cp < 0x20 => {
                if t.flag(1) {
                    // upper case hex digits, repeated 'u' (Java style)
                    out.push_str(&format!("\\uu{:04X}", cp));
                } else {
                    out.push_str(&format!("\\u{:04x}", cp));
                }
            }
            None => {
                if bmp && t.flag(1) {
                    out.push_str(&format!("\\u{:04x}", cp));
                } else {
                    out.push(c);
                }
            }
        }
    }
    out.push('"');
}

fn render_int(neg: bool, mag: &BigUint, out: &mut String, t: &mut Tape<'_>) {
    if neg {
        out.push('-');
    }
    match t.choose(8) {
        5 => {
            out.push_str(if t.flag(4) { "0X" } else { "0x" });
            let h = mag.to_str_radix(16);
            if t.flag(4) {
                out.push_str(&h.to_uppercase());
            } else {
                out.push_str(&h);
            }
        }
        6 => {
            out.push_str("0b");
            out.push_str(&mag.to_str_radix(2));
        }
        7 => {
            out.push_str("00");
            out.push_str(&mag.to_str_radix(10));
        }
        _ => out.push_str(&mag.to_str_radix(10)),
    }
}

fn render_f64(x: f64, out: &mut String, t: &mut Tape<'_>) {
    if !x.is_finite() {
        out.push_str(&format!("{:?}", x));
        return;
    }
    match t.choose(6) {
        3 => out.push_str(&format!("{:e}", x)),
        4 => out.push_str(&format!("{:E}", x)),
        5 => {
            let s = format!("{:?}", x);
            if s.contains('e') || s.contains('E') {
                out.push_str(&s);
            } else {
                out.push_str(&s);
                out.push('0');
            }
        }
        _ => out.push_str(&format!("{:?}", x)),
    }
}

const B64: &[u8; 64] = b"ABCDEFGHIJKLMNOPQRSTUVWXYZabcdefghijklmnopqrstuvwxyz0123456789+/";

pub fn base64_std(data: &[u8]) -> String {
    let mut out = String::new();
    for chunk in data.chunks(3) {
        let b = [chunk[0], *chunk.get(1).unwrap_or(&0), *chunk.get(2).unwrap_or(&0)];
        let n = ((b[0] as u32) << 16) | ((b[1] as u32) << 8) | b[2] as u32;
        out.push(B64[(n >> 18) as usize & 63] as char);
        out.push(B64[(n >> 12) as usize & 63] as char);
        if chunk.len() > 1 {
            out.push(B64[(n >> 6) as usize & 63] as char);
        } else {
            out.push('=');
        }
        if chunk.len() > 2 {
            out.push(B64[n as usize & 63] as char);
        } else {
            out.push('=');
        }
    }
    out
}

fn render_items(items: &[I], out: &mut String, t: &mut Tape<'_>) {
    for (k, it) in items.iter().enumerate() {
        if k > 0 {
            pad(out, t);
            match t.choose(8) {
                6 => out.push(';'),
                7 => out.push('\n'),
                _ => out.push(','),
            }
            pad(out, t);
        }
        match it {
            I::Val(v) => render_val(v, out, t),
            I::Slot(k, v) => {
                render_val(k, out, t);
                pad(out, t);
                out.push(':');
                pad(out, t);
                render_val(v, out, t);
            }
        }
    }
}

fn render_attr(name: &str, value: &V, out: &mut String, t: &mut Tape<'_>) {
    out.push('@');
    if is_identifier(name) || name == "true" || name == "false" {
        if t.flag(1) {
            render_text_quoted(name, out);
        } else {
            out.push_str(name);
        }
    } else {
        render_text_quoted(name, out);
    }
    match value {
        V::Extant => {
            if t.flag(2) {
                out.push_str("()");
            }
        }
        V::Record(attrs, items) if attrs.is_empty() && items.len() != 1 => {
            // A body of 0 or >= 2 items may be written with or without the braces.
            out.push('(');
            pad(out, t);
            if items.is_empty() || t.flag(3) {
                out.push('{');
                render_items(items, out, t);
                out.push('}');
            } else {
                render_items(items, out, t);
            }
            pad(out, t);
            out.push(')');
        }
        V::Record(attrs, items)
            if attrs.is_empty() && matches!(items.as_slice(), [I::Slot(_, _)]) && !t.flag(3) =>
        {
            // a lone slot is an implicit single item record
            out.push('(');
            render_items(items, out, t);
            out.push(')');
        }
        ow => {
            out.push('(');
            pad(out, t);
            render_val(ow, out, t);
            pad(out, t);
            out.push(')');
        }
    }
}

fn render_text_quoted(s: &str, out: &mut String) {
    out.push('"');
    for c in s.chars() {
        match c {
            '"' => out.push_str("\\\""),
            '\\' => out.push_str("\\\\"),
            '\n' => out.push_str("\\n"),
            '\r' => out.push_str("\\r"),
            '\t' => out.push_str("\\t"),
            '\u{8}' => out.push_str("\\b"),
            '\u{c}' => out.push_str("\\f"),
            c if (c as u32) < 0x20 => out.push_str(&format!("\\u{:04x}", c as u32)),
            c => out.push(c),
        }
    }
    out.push('"');
}

fn is_bare_scalar(v: &V) -> bool {
    !matches!(v, V::Record(_, _) | V::Extant)
}

pub fn render_val(v: &V, out: &mut String, t: &mut Tape<'_>) {
    match v {
        V::Extant => {}
        V::I32(n) => render_int(*n < 0, &BigUint::from(n.unsigned_abs()), out, t),
        V::I64(n) => render_int(*n < 0, &BigUint::from(n.unsigned_abs()), out, t),
        V::U32(n) => render_int(false, &BigUint::from(*n), out, t),
        V::U64(n) => render_int(false, &BigUint::from(*n), out, t),
        V::BigInt(s) => {
            let b = BigInt::from_str(s).expect("bad bigint in case");
            render_int(b.sign() == num_bigint::Sign::Minus, b.magnitude(), out, t)
        }
        V::BigUint(s) => {
            let b = BigUint::from_str(s).expect("bad biguint in case");
            render_int(false, &b, out, t)
        }
        V::F64(b) => render_f64(f64::from_bits(*b), out, t),
        V::Bool(p) => out.push_str(if *p { "true" } else { "false" }),
        V::Text(s) => render_text(s, out, t),
        V::Data(d) => {
            out.push('%');
            out.push_str(&base64_std(d));
        }
        V::Record(attrs, items) => {
            for (k, (name, value)) in attrs.iter().enumerate() {
                if k > 0 {
                    pad(out, t);
                }
                render_attr(name, value, out, t);
            }
            if attrs.is_empty() {
                out.push('{');
                pad(out, t);
                render_items(items, out, t);
                pad(out, t);
                out.push('}');
            } else if items.is_empty() {
                if t.flag(2) {
                    pad(out, t);
                    out.push_str("{}");
                }
            } else if items.len() == 1 && matches!(&items[0], I::Val(x) if is_bare_scalar(x)) && !t.flag(3) {
                // `@a 1` : single scalar item written without braces
                out.push(' ');
                render_items(items, out, t);
            } else {
                pad(out, t);
                out.push('{');
                pad(out, t);
                render_items(items, out, t);
                pad(out, t);
                out.push('}');
            }
        }
    }
}

/// Render a value as Recon text; all formatting decisions come from `style`.
pub fn render(v: &V, style: &[u8]) -> String {
    let mut t = Tape::new(style);
    let mut out = String::new();
    if t.flag(1) {
        out.push(' ');
    }
    render_val(v, &mut out, &mut t);
    if t.flag(1) {
        out.push(' ');
    }
    out
}

pub fn arb_style() -> BoxedStrategy<Vec<u8>> {
    prop_oneof![
        2 => Just(vec![]),
        3 => proptest::collection::vec(prop_oneof![3 => Just(0u8), 2 => any::<u8>()], 0..48),
        2 => proptest::collection::vec(any::<u8>(), 0..96),
    ]
    .boxed()
}

// ---------------------------------------------------------------------------------------------
// Text mutations

#[derive(Clone, Debug, Serialize, Deserialize, PartialEq)]
pub enum Mut {
    /// insert alphabet[ch] at char position pos
    Insert(u16, u8),
    Delete(u16),
    Replace(u16, u8),
    /// duplicate the slice [pos, pos+len) in place
    Dup(u16, u8),
    /// drop everything from pos
    Truncate(u16),
    /// swap the chars at pos and pos+1
    Swap(u16),
    /// insert one of the canned fragments at pos
    Fragment(u16, u8),
}

pub const MUT_ALPHABET: &[char] = &[
    '@', '{', '}', '(', ')', ',', ';', ':', '"', '\\', ' ', '\n', '\r', '\t', '%', '#', '-', '.', '0', '1', '9',
    'e', 'E', 'x', 'b', 'a', 'f', 'u', 't', '=', '+', '/', '_', '·', 'é', '日', '😀', '\u{0}', '\u{7f}',
    '\u{feff}', '[', ']', '<', '>', '!', '\'', '$', '&', '*', '?', '^', '`', '|', '~',
];

pub const FRAGMENTS: &[&str] = &[
    "\\ud800",
    "\\udfff",
    "\\u0041",
    "\\uuuu0041",
    "\\u00",
    "\\x",
    "\\\"",
    "@a(",
    "@\"q r\"",
    "@a()",
    "{}",
    "{,}",
    "(:)",
    ":",
    "%AAAA",
    "%AA==",
    "%A",
    "%====",
    "0x",
    "0xfF",
    "0b2",
    "-0",
    "-",
    "1e",
    "1e400",
    "1.",
    ".5",
    "-inf",
    "nan",
    "true",
    "18446744073709551616",
    "-9223372036854775809",
    "#c\n",
    "\r\n",
    "\"",
    "\"\"",
    " ",
    "@",
    "@@",
    "@a@b",
    "@a{",
    "a:b:c",
];

fn char_pos(chars: &[char], pos: u16) -> usize {
    // monotone map of a u16 onto 0..=len
    ((pos as usize) * (chars.len() + 1)) >> 16
}

pub fn mutate_text(s: &str, muts: &[Mut]) -> String {
    let mut chars: Vec<char> = s.chars().collect();
    for m in muts {
        match m {
            Mut::Insert(p, c) => {
                let i = char_pos(&chars, *p);
                chars.insert(i, MUT_ALPHABET[*c as usize % MUT_ALPHABET.len()]);
            }
            Mut::Delete(p) => {
                if !chars.is_empty() {
                    let i = char_pos(&chars, *p).min(chars.len() - 1);
                    chars.remove(i);
                }
            }
            Mut::Replace(p, c) => {
                if !chars.is_empty() {
                    let i = char_pos(&chars, *p).min(chars.len() - 1);
                    chars[i] = MUT_ALPHABET[*c as usize % MUT_ALPHABET.len()];
                }
            }
            Mut::Dup(p, l) => {
                let i = char_pos(&chars, *p).min(chars.len());
                let j = (i + (*l as usize % 12) + 1).min(chars.len());
                let slice: Vec<char> = chars[i..j].to_vec();
                for (k, c) in slice.into_iter().enumerate() {
                    chars.insert(j + k, c);
                }
            }
            Mut::Truncate(p) => {
                let i = char_pos(&chars, *p).min(chars.len());
                chars.truncate(i);
            }
            Mut::Swap(p) => {
                if chars.len() >= 2 {
                    let i = char_pos(&chars, *p).min(chars.len() - 2);
                    chars.swap(i, i + 1);
                }
            }
            Mut::Fragment(p, f) => {
                let i = char_pos(&chars, *p).min(chars.len());
                let frag = FRAGMENTS[*f as usize % FRAGMENTS.len()];
                for (k, c) in frag.chars().enumerate() {
                    chars.insert(i + k, c);
                }
            }
        }
    }
    chars.into_iter().collect()
}

pub fn arb_mut() -> BoxedStrategy<Mut> {
    prop_oneof![
        4 => (any::<u16>(), any::<u8>()).prop_map(|(p, c)| Mut::Insert(p, c)),
        3 => any::<u16>().prop_map(Mut::Delete),
        3 => (any::<u16>(), any::<u8>()).prop_map(|(p, c)| Mut::Replace(p, c)),
        1 => (any::<u16>(), any::<u8>()).prop_map(|(p, l)| Mut::Dup(p, l)),
        1 => any::<u16>().prop_map(Mut::Truncate),
        1 => any::<u16>().prop_map(Mut::Swap),
        3 => (any::<u16>(), any::<u8>()).prop_map(|(p, f)| Mut::Fragment(p, f)),
    ]
    .boxed()
}

pub fn arb_muts(max: usize) -> BoxedStrategy<Vec<Mut>> {
    proptest::collection::vec(arb_mut(), 0..=max).boxed()
}

/// Byte level mutation (may produce invalid UTF-8): `(pos, op, byte)`.
pub fn mutate_bytes(b: &[u8], muts: &[(u16, u8, u8)]) -> Vec<u8> {
    let mut out = b.to_vec();
    for (p, op, x) in muts {
        let i = ((*p as usize) * (out.len() + 1)) >> 16;
        match op % 4 {
            0 => out.insert(i.min(out.len()), *x),
            1 => {
                if !out.is_empty() {
                    let i = i.min(out.len() - 1);
                    out[i] = *x;
                }
            }
            2 => {
                if !out.is_empty() {
                    out.remove(i.min(out.len() - 1));
                }
            }
            _ => {
                if !out.is_empty() {
                    let i = i.min(out.len() - 1);
                    out[i] ^= 1 << (*x % 8);
                }
            }
        }
    }
    out
}

/// Free-form text drawn from the Recon alphabet (mostly invalid, sometimes valid by accident).
pub fn arb_soup(max: usize) -> BoxedStrategy<String> {
    proptest::collection::vec(
        prop_oneof![
            6 => proptest::sample::select(MUT_ALPHABET).prop_map(|c| c.to_string()),
            2 => proptest::sample::select(FRAGMENTS).prop_map(|s| s.to_string()),
            1 => "[a-z]{1,4}",
            1 => "[0-9]{1,4}",
        ],
        0..max,
    )
    .prop_map(|v| v.concat())
    .boxed()
}

// ---------------------------------------------------------------------------------------------
// Near-miss edits of a model value (C15)

fn count_nodes(v: &V) -> usize {
    match v {
        V::Record(a, i) => {
            1 + a.iter().map(|(_, v)| count_nodes(v)).sum::<usize>()
                + i.iter()
                    .map(|i| match i {
                        I::Val(v) => count_nodes(v),
                        I::Slot(k, v) => count_nodes(k) + count_nodes(v),
                    })
                    .sum::<usize>()
        }
        _ => 1,
    }
}

fn edit_node(v: &V, t: &mut Tape<'_>) -> V {
    match v {
        V::I32(n) => match t.choose(4) {
            0 => V::I32(n.wrapping_add(1)),
            1 => V::f(*n as f64),
            2 => V::Text(n.to_string()),
            _ => V::I64(*n as i64),
        },
        V::I64(n) => match t.choose(3) {
            0 => V::I64(n.wrapping_sub(1)),
            1 => V::f(*n as f64),
            _ => V::BigInt(n.to_string()),
        },
        V::U32(n) => match t.choose(3) {
            0 => V::U32(n.wrapping_add(1)),
            1 => V::f(*n as f64),
            _ => V::U64(*n as u64),
        },
        V::U64(n) => match t.choose(3) {
            0 => V::U64(n.wrapping_add(1)),
            1 => V::f(*n as f64),
            _ => V::BigUint(n.to_string()),
        },
        V::F64(b) => {
            let x = f64::from_bits(*b);
            match t.choose(4) {
                0 => V::F64(b.wrapping_add(1)),
                1 => V::f(-x),
                2 if x.is_finite() && x.fract() == 0.0 && x.abs() < 1e15 => V::I64(x as i64),
                _ => V::Text(format!("{:?}", x)),
            }
        }
        V::Bool(p) => match t.choose(2) {
            0 => V::Bool(!p),
            _ => V::Text(p.to_string()),
        },
        V::BigInt(s) => V::BigInt((BigInt::from_str(s).unwrap() + BigInt::from(1)).to_string()),
        V::BigUint(s) => V::BigUint((BigUint::from_str(s).unwrap() + BigUint::from(1u32)).to_string()),
        V::Text(s) => match t.choose(5) {
            0 => V::Text(format!("{}x", s)),
            1 => V::Text(s.chars().skip(1).collect()),
            2 => V::Record(vec![], vec![I::Val(V::Text(s.clone()))]),
            3 => V::Text(s.to_uppercase()),
            _ => V::Extant,
        },
        V::Data(d) => {
            let mut d = d.clone();
            match t.choose(3) {
                0 => d.push(0),
                1 => {
                    d.pop();
                }
                _ => {
                    if let Some(x) = d.first_mut() {
                        *x ^= 1;
                    } else {
                        return V::Text(String::new());
                    }
                }
            }
            V::Data(d)
        }
        V::Extant => match t.choose(3) {
            0 => V::Record(vec![], vec![]),
            1 => V::Text(String::new()),
            _ => V::Record(vec![], vec![I::Val(V::Extant)]),
        },
        V::Record(attrs, items) => {
            let mut attrs = attrs.clone();
            let mut items = items.clone();
            match t.choose(10) {
                0 => {
                    // wrap the body in one more record
                    return V::Record(attrs, vec![I::Val(V::Record(vec![], items))]);
                }
                1 => {
                    // unwrap a single nested record item
                    if let [I::Val(V::Record(a2, i2))] = items.as_slice() {
                        if a2.is_empty() {
                            return V::Record(attrs, i2.clone());
                        }
                    }
                    items.push(I::Val(V::Extant));
                }
                2 => {
                    // slot -> two items
                    if let Some(p) = items.iter().position(|i| matches!(i, I::Slot(_, _))) {
                        if let I::Slot(k, v) = items.remove(p) {
                            items.insert(p, I::Val(v));
                            items.insert(p, I::Val(k));
                        }
                    } else if items.len() >= 2 {
                        // two items -> slot
                        if let (I::Val(k), I::Val(v)) = (items[0].clone(), items[1].clone()) {
                            items.remove(0);
                            items[0] = I::Slot(k, v);
                        }
                    }
                }
                3 => {
                    if items.len() >= 2 {
                        let i = t.choose(items.len() - 1);
                        items.swap(i, i + 1);
                    } else {
                        items.push(I::Val(V::I32(0)));
                    }
                }
                4 => {
                    // attribute body x <-> {x}
                    if let Some((_, val)) = attrs.first_mut() {
                        *val = match val.clone() {
                            V::Record(a, i) if a.is_empty() && i.len() == 1 => match &i[0] {
                                I::Val(x) => x.clone(),
                                I::Slot(_, _) => V::Record(vec![], vec![I::Val(V::Record(a, i))]),
                            },
                            ow => V::Record(vec![], vec![I::Val(ow)]),
                        };
                    } else {
                        attrs.push(("a".into(), V::Extant));
                    }
                }
                5 => {
                    // move the last item of the record into the last attribute's body (or back)
                    if let (Some((_, val)), Some(I::Val(last))) = (attrs.last_mut(), items.last().cloned()) {
                        *val = match val.clone() {
                            V::Extant => last,
                            V::Record(a, mut i) if a.is_empty() => {
                                i.push(I::Val(last));
                                V::Record(a, i)
                            }
                            ow => V::Record(vec![], vec![I::Val(ow), I::Val(last)]),
                        };
                        items.pop();
                    } else if let Some((_, val)) = attrs.last_mut() {
                        let moved = std::mem::replace(val, V::Extant);
                        items.insert(0, I::Val(moved));
                    }
                }
                6 => {
                    if let Some((n, _)) = attrs.first_mut() {
                        n.push('x');
                    } else if !items.is_empty() {
                        items.pop();
                    }
                }
                7 => {
                    // split the attributes: second attribute becomes nested record item
                    if attrs.len() >= 2 {
                        let (n, v) = attrs.pop().unwrap();
                        return V::Record(attrs, vec![I::Val(V::Record(vec![(n, v)], items))]);
                    }
                    attrs.insert(0, ("b".into(), V::Extant));
                }
                8 => {
                    if !items.is_empty() {
                        items.remove(0);
                    } else {
                        items.push(I::Val(V::Extant));
                    }
                }
                _ => {
                    if !attrs.is_empty() {
                        attrs.remove(0);
                    } else {
                        items.push(I::Val(V::Record(vec![], vec![])));
                    }
                }
            }
            V::Record(attrs, items)
        }
    }
}

fn edit_at(v: &V, target: &mut usize, t: &mut Tape<'_>) -> V {
    if *target == 0 {
        *target = usize::MAX;
        return edit_node(v, t);
    }
    *target -= 1;
    match v {
        V::Record(attrs, items) => {
            let mut a2 = Vec::with_capacity(attrs.len());
            for (n, x) in attrs {
                a2.push((n.clone(), if *target == usize::MAX { x.clone() } else { edit_at(x, target, t) }));
            }
            let mut i2 = Vec::with_capacity(items.len());
            for it in items {
                i2.push(match it {
                    I::Val(x) => I::Val(if *target == usize::MAX { x.clone() } else { edit_at(x, target, t) }),
                    I::Slot(k, x) => {
                        let k2 = if *target == usize::MAX { k.clone() } else { edit_at(k, target, t) };
                        let x2 = if *target == usize::MAX { x.clone() } else { edit_at(x, target, t) };
                        I::Slot(k2, x2)
                    }
                });
            }
            V::Record(a2, i2)
        }
        ow => ow.clone(),
    }
}

/// One small semantic edit somewhere in `v` (choice of node and edit from the tape).
pub fn near_miss(v: &V, tape: &[u8]) -> V {
    let mut t = Tape::new(tape);
    let n = count_nodes(v);
    let hi = t.next() as usize;
    let lo = t.next() as usize;
    let mut target = ((hi << 8 | lo) * n) >> 16;
    edit_at(v, &mut target, &mut t)
}

// ---------------------------------------------------------------------------------------------
// Chunking

/// Sorted, de-duplicated cut positions strictly inside 0..len derived from shrink friendly u16s.
pub fn cut_points(seeds: &[u16], len: usize) -> Vec<usize> {
    if len < 2 {
        return vec![];
    }
    let mut v: Vec<usize> = seeds.iter().map(|s| 1 + (((*s as usize) * (len - 1)) >> 16)).collect();
    v.sort();
    v.dedup();
    v
}

pub fn split_at_cuts<'a>(bytes: &'a [u8], cuts: &[usize]) -> Vec<&'a [u8]> {
    let mut out = vec![];
    let mut last = 0;
    for c in cuts {
        if *c > last && *c < bytes.len() {
            out.push(&bytes[last..*c]);
            last = *c;
        }
    }
    out.push(&bytes[last..]);
    out
}

/// Is byte offset `pos` inside a multi-byte UTF-8 sequence of `bytes`?
pub fn inside_utf8_seq(bytes: &[u8], pos: usize) -> bool {
    pos < bytes.len() && (bytes[pos] & 0xC0) == 0x80
}
