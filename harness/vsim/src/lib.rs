//! Agent simulation engine (agentsim / rawlane): see DESIGN.md §2.2.
