//! C13 Both stores behave as isolated per-agent, per-item value/map storage.
//!
//! Model-based histories against the RocksDB store (`swimos_rocks_store::open_rocks_store`) and the
//! in-memory store of the server (`swimos_server_app::verif_hooks::InMemoryPlanePersistence`), both
//! through the `swimos_api::persistence` traits, plus a SIGKILL tier for RocksDB (see kill.rs).
use crate::kill;
use crate::model::*;
use bytes::BytesMut;
use futures::future::BoxFuture;
use std::collections::BTreeMap;
use std::path::{Path, PathBuf};
use std::sync::atomic::{AtomicU64, Ordering};
use std::task::{Context, Poll};
use swimos_api::error::StoreError;
use swimos_api::persistence::{NodePersistence, PlanePersistence, RangeConsumer, ServerPersistence};
use swimos_server_app::verif_hooks::InMemoryPlanePersistence;
use vcommon::{pick_index, Ctx, Verdict};

pub type Id<P> = <<P as PlanePersistence>::Node as NodePersistence>::LaneId;

pub const PLANE_NAME: &str = "plane";

/// Open (or create) the RocksDB store below `dir` exactly as the server does
/// (server/swimos_server_app/src/server/builder: `open_rocks_store(path, options)` then
/// `store.open_plane(plane.name)` in server/runtime).
pub fn open_rocks(dir: &Path) -> Result<impl PlanePersistence + Clone + Send + Sync + 'static, StoreError> {
    let server = swimos_rocks_store::open_rocks_store(Some(dir.to_path_buf()), swimos_rocks_store::default_db_opts())?;
    server.open_plane(PLANE_NAME)
}

// ---------------------------------------------------------------------------------------------
// Scratch directories

static DIR_COUNTER: AtomicU64 = AtomicU64::new(0);

/// Per-process scratch root: $C13_SCRATCH, else /dev/shm (tmpfs: RocksDB opens are dominated by fsync
/// on a disk and the property is about process kills, not power loss), else the system temp dir.
pub fn scratch_base() -> PathBuf {
    let root = match std::env::var("C13_SCRATCH") {
        Ok(p) => PathBuf::from(p),
        Err(_) => {
            let shm = PathBuf::from("/dev/shm");
            if shm.is_dir() {
                shm
            } else {
                std::env::temp_dir()
            }
        }
    };
    root.join(format!("c13-{}", std::process::id()))
}

/// A fresh directory under <scratch root>/c13-<pid>/, removed on drop.
pub struct Scratch(pub PathBuf);

impl Scratch {
    pub fn new() -> Scratch {
        let n = DIR_COUNTER.fetch_add(1, Ordering::Relaxed);
        let p = scratch_base().join(format!("case-{}", n));
        let _ = std::fs::remove_dir_all(&p);
        std::fs::create_dir_all(&p).expect("cannot create scratch directory");
        Scratch(p)
    }
}

impl Drop for Scratch {
    fn drop(&mut self) {
        let _ = std::fs::remove_dir_all(&self.0);
    }
}

// ---------------------------------------------------------------------------------------------
// History executor with the model oracle

pub fn poll_once<T>(fut: &mut BoxFuture<'static, T>) -> Poll<T> {
    let waker = futures::task::noop_waker();
    let mut cx = Context::from_waker(&waker);
    fut.as_mut().poll(&mut cx)
}

/// Failures are recorded in the verdict; this only stops the history.
pub struct Abort;

#[derive(Default, Clone, Debug)]
pub struct Stats {
    pub reopen_with_data: bool,
    pub clear_interleaved: bool,
    pub reopen_all: bool,
    pub reopen_node: bool,
    pub handover_pending: bool,
    pub clear_nonempty: bool,
    pub key_prefix_pair: bool,
    pub id_collision: bool,
    pub max_map: usize,
    pub max_removed_run: usize,
    pub max_cleared: usize,
    pub abandoned_while_running: bool,
    pub two_outstanding: bool,
    pub heir_abandoned: bool,
    pub second_handle: bool,
    pub superseded_error: bool,
    pub abandoned_while_stopped: bool,
}

/// An outstanding `node_store` future.
pub struct Pend<P: PlanePersistence> {
    fut: BoxFuture<'static, Result<P::Node, StoreError>>,
    id: u64,
    /// The request waited together with another request for the same uri (the in-memory store documents
    /// that all but the newest then fail: "Multiple copies of agent instance starting").
    superseded: bool,
    /// The request holds the agent's state only because a previous holder was dropped while it was
    /// waiting (hand-over), as opposed to having been created while the agent was idle.
    inherited: bool,
}

/// Where the state of an agent is, in terms of the API calls made so far (exclusive hand-over as
/// documented on `NodeEntry` in the in-memory store): in the plane store, in the instance in use, or in
/// an outstanding request. Only used to decide whether a pending future is legitimate and to name the
/// one lifecycle corner that is a listed finding; RocksDB handles are not exclusive and never depend on it.
#[derive(Clone, Copy, PartialEq, Eq, Debug)]
enum Holder {
    Idle,
    Live,
    Request(u64),
}

pub struct Exec<'c, P: PlanePersistence, F> {
    open: F,
    pub bk: &'static str,
    /// Ids of one plane key a plane-wide keyspace (RocksDB) rather than a per-agent one.
    pub global_ids: bool,
    pub uris: &'c [String],
    pub items: &'c [FlatItem],
    plane: Option<P>,
    nodes: Vec<Option<P::Node>>,
    /// Outstanding `node_store` futures per agent, oldest first.
    pending: Vec<Vec<Pend<P>>>,
    /// A request that had been handed the agent's state was dropped unresolved.
    heir_abandoned: Vec<bool>,
    holder: Vec<Holder>,
    /// The newest waiting request (the one a dropped holder hands the state to).
    heir: Vec<Option<u64>>,
    next_pend_id: u64,
    /// Ids obtained from the current node store instance.
    sess_ids: Vec<Option<Id<P>>>,
    /// First id ever observed per item.
    pub first_ids: Vec<Option<Id<P>>>,
    /// Items whose id was observed to collide with another item's (qualifier of the collision).
    pub tainted: Vec<Option<&'static str>>,
    pub extra_ids: Vec<(String, Id<P>)>,
    pub model: Vec<M>,
    pub touched: Vec<bool>,
    pub v: Verdict,
    pub stats: Stats,
    /// Position in the history (for failure details only).
    pub at: usize,
    /// Signature labels for a difference on an item that the current op did not address.
    pub nontarget_labels: (&'static str, &'static str),
}

impl<'c, P, F> Exec<'c, P, F>
where
    P: PlanePersistence,
    F: FnMut() -> Result<P, StoreError>,
{
    pub fn new(bk: &'static str, global_ids: bool, uris: &'c [String], items: &'c [FlatItem], open: F) -> Self {
        Exec {
            open,
            bk,
            global_ids,
            uris,
            items,
            plane: None,
            nodes: uris.iter().map(|_| None).collect(),
            pending: uris.iter().map(|_| vec![]).collect(),
            heir_abandoned: uris.iter().map(|_| false).collect(),
            holder: uris.iter().map(|_| Holder::Idle).collect(),
            heir: uris.iter().map(|_| None).collect(),
            next_pend_id: 0,
            sess_ids: items.iter().map(|_| None).collect(),
            first_ids: items.iter().map(|_| None).collect(),
            tainted: items.iter().map(|_| None).collect(),
            extra_ids: vec![],
            model: items.iter().map(|i| M::empty(i.map)).collect(),
            touched: items.iter().map(|_| false).collect(),
            v: Verdict::new(),
            stats: Stats::default(),
            at: 0,
            nontarget_labels: ("isolation-map", "isolation-value"),
        }
    }

    fn item_desc(&self, item: usize) -> String {
        let it = &self.items[item];
        format!(
            "{} item {:?} of agent {:?}",
            if it.map { "map" } else { "value" },
            it.name,
            self.uris[it.agent]
        )
    }

    fn fail(&mut self, sig: String, detail: String) {
        let detail = format!("[{} op#{}] {}", self.bk, self.at, detail);
        self.v.fail(sig, detail);
    }

    fn store_err(&mut self, call: &str, item: Option<usize>, e: StoreError) -> Abort {
        let on = item.map(|i| self.item_desc(i)).unwrap_or_default();
        self.fail(format!("{}:error:{}", self.bk, call), format!("{} failed on {}: {:?}", call, on, e));
        Abort
    }

    fn ensure_node(&mut self, agent: usize) -> Result<(), Abort> {
        if self.plane.is_none() {
            match (self.open)() {
                Ok(p) => self.plane = Some(p),
                Err(e) => return Err(self.store_err("open", None, e)),
            }
        }
        if self.nodes[agent].is_some() {
            return Ok(());
        }
        // outstanding requests first, oldest first, until one yields the node store
        let mut i = 0;
        while i < self.pending[agent].len() {
            match poll_once(&mut self.pending[agent][i].fut) {
                Poll::Ready(Ok(n)) => {
                    let p = self.pending[agent].remove(i);
                    self.became_live(agent, p.id);
                    self.nodes[agent] = Some(n);
                    return Ok(());
                }
                Poll::Ready(Err(e)) => {
                    let p = self.pending[agent].remove(i);
                    if p.superseded {
                        self.stats.superseded_error = true;
                    } else {
                        return Err(self.node_store_err(agent, e));
                    }
                }
                Poll::Pending => i += 1,
            }
        }
        if !self.pending[agent].is_empty() {
            let d = format!(
                "{} outstanding node_store({:?}) request(s) do not resolve although no node store for that uri is in use",
                self.pending[agent].len(),
                self.uris[agent]
            );
            self.lifecycle_fail(agent, "node_store-pending", d);
            return Err(Abort);
        }
        let mut fut = self.plane.as_ref().unwrap().node_store(&self.uris[agent]);
        match poll_once(&mut fut) {
            Poll::Ready(Ok(n)) => {
                self.nodes[agent] = Some(n);
                self.holder[agent] = Holder::Live;
            }
            Poll::Ready(Err(e)) => return Err(self.node_store_err(agent, e)),
            Poll::Pending => {
                // No other instance for this uri is alive and no request is outstanding: nothing to wait for.
                let d = format!(
                    "node_store({:?}) did not resolve although no node store for that uri is in use and no other request is outstanding",
                    self.uris[agent]
                );
                self.lifecycle_fail(agent, "node_store-pending", d);
                return Err(Abort);
            }
        }
        Ok(())
    }

    /// A `node_store` request that fails or does not resolve. Once a request that had been handed the
    /// agent's state has been dropped unresolved (listed finding) the agent cannot be opened any more;
    /// every form of that is one signature.
    fn lifecycle_fail(&mut self, agent: usize, what: &str, detail: String) {
        if self.heir_abandoned[agent] {
            let d = format!("{} (after a request that had been handed the agent's state was dropped unresolved)", detail);
            self.fail(format!("{}:node_store-unavailable/abandoned-heir", self.bk), d);
        } else {
            self.fail(format!("{}:{}", self.bk, what), detail);
        }
    }

    fn node_store_err(&mut self, agent: usize, e: StoreError) -> Abort {
        let d = format!("node_store({:?}) failed: {:?}", self.uris[agent], e);
        self.lifecycle_fail(agent, "error:node_store", d);
        Abort
    }

    /// Signature qualifier for lifecycle related failures of an agent.
    fn life_qual(&self, agent: usize) -> &'static str {
        if self.heir_abandoned[agent] {
            "/abandoned-heir"
        } else {
            ""
        }
    }

    /// The id of the item from the current node store instance (`id_for` on first use, as the agent
    /// runtime does once per start), checked for stability and against the ids of all other items.
    pub fn id(&mut self, item: usize) -> Result<Id<P>, Abort> {
        let agent = self.items[item].agent;
        self.ensure_node(agent)?;
        if let Some(id) = self.sess_ids[item] {
            return Ok(id);
        }
        let name = self.items[item].name.clone();
        let id = match self.nodes[agent].as_ref().unwrap().id_for(&name) {
            Ok(id) => id,
            Err(e) => return Err(self.store_err("id_for", Some(item), e)),
        };
        self.sess_ids[item] = Some(id);
        self.touched[item] = true;
        match self.first_ids[item] {
            Some(first) => {
                if first != id {
                    let d = format!(
                        "id of {} changed from {:?} to {:?} after the node store was re-opened",
                        self.item_desc(item),
                        first,
                        id
                    );
                    self.fail(format!("id-unstable:{}/reopen", self.bk), d);
                }
            }
            None => {
                self.first_ids[item] = Some(id);
                self.check_collisions(item, id);
            }
        }
        Ok(id)
    }

    fn check_collisions(&mut self, item: usize, id: Id<P>) {
        for other in 0..self.items.len() {
            if other == item {
                continue;
            }
            let same_agent = self.items[other].agent == self.items[item].agent;
            if !(same_agent || self.global_ids) {
                continue;
            }
            if self.first_ids[other] == Some(id) {
                let qual = if self.items[other].joined(self.uris) == self.items[item].joined(self.uris) {
                    "joined-uri-name"
                } else if same_agent {
                    "same-agent"
                } else {
                    "cross-agent"
                };
                self.tainted[item] = Some(qual);
                self.tainted[other] = Some(qual);
                self.stats.id_collision = true;
                let d = format!(
                    "{} and {} were both assigned id {:?}",
                    self.item_desc(other),
                    self.item_desc(item),
                    id
                );
                self.fail(format!("id-collision:{}/{}", self.bk, qual), d);
            }
        }
        // probe names belong to the first agent
        let probes = if self.items[item].agent == 0 || self.global_ids { self.extra_ids.clone() } else { vec![] };
        for (name, pid) in probes {
            if pid == id {
                let d = format!("{} was assigned id {:?}, already assigned to probe name {:?}", self.item_desc(item), id, name);
                self.fail(format!("id-collision:{}/probe", self.bk), d);
            }
        }
    }

    /// Allocate an id for a name that is not an item of the case (agent 0) and check it is fresh.
    pub fn probe(&mut self, name: &str) -> Result<(), Abort> {
        self.ensure_node(0)?;
        let id = match self.nodes[0].as_ref().unwrap().id_for(name) {
            Ok(id) => id,
            Err(e) => return Err(self.store_err("id_for", None, e)),
        };
        if let Some((_, prev)) = self.extra_ids.iter().find(|(n, _)| n == name) {
            if *prev != id {
                let d = format!("id of probe name {:?} changed from {:?} to {:?}", name, prev, id);
                self.fail(format!("id-unstable:{}/reopen", self.bk), d);
            }
            return Ok(());
        }
        for other in 0..self.items.len() {
            if (self.items[other].agent == 0 || self.global_ids) && self.first_ids[other] == Some(id) {
                let d = format!(
                    "new name {:?} was assigned id {:?} which already belongs to {}",
                    name,
                    id,
                    self.item_desc(other)
                );
                self.fail(format!("id-collision:{}/probe", self.bk), d);
            }
        }
        if let Some((n, _)) = self.extra_ids.iter().find(|(_, p)| *p == id) {
            let d = format!("new name {:?} was assigned id {:?} which already belongs to {:?}", name, id, n);
            self.fail(format!("id-collision:{}/probe", self.bk), d);
        }
        self.extra_ids.push((name.to_string(), id));
        Ok(())
    }

    /// Read the whole state of an item through the API.
    pub fn read_item(&mut self, item: usize, buf_prefix: &[u8]) -> Result<M, Abort> {
        let id = self.id(item)?;
        let agent = self.items[item].agent;
        if self.items[item].map {
            let mut entries: Vec<(Vec<u8>, Vec<u8>)> = vec![];
            let res: Result<(), StoreError> = (|| {
                let node = self.nodes[agent].as_ref().unwrap();
                let mut con = node.read_map(id)?;
                while let Some((k, v)) = con.consume_next()? {
                    entries.push((k.to_vec(), v.to_vec()));
                }
                Ok(())
            })();
            if let Err(e) = res {
                return Err(self.store_err("read_map", Some(item), e));
            }
            let mut m = BTreeMap::new();
            let mut dup = None;
            for (k, v) in entries {
                if m.insert(k.clone(), v).is_some() {
                    dup = Some(k);
                }
            }
            if let Some(k) = dup {
                let d = format!("read_map of {} produced key {} more than once", self.item_desc(item), show(&k));
                let q = self.qual(item);
                self.fail(format!("{}:read_map-duplicate-key{}", self.bk, q), d);
            }
            Ok(M::Map(m))
        } else {
            let mut buf = BytesMut::new();
            buf.extend_from_slice(buf_prefix);
            let r = self.nodes[agent].as_ref().unwrap().get_value(id, &mut buf);
            match r {
                Err(e) => Err(self.store_err("get_value", Some(item), e)),
                Ok(None) => Ok(M::Val(None)),
                Ok(Some(n)) => {
                    // "copied into the buffer (leaving any existing content intact) and the number of
                    // bytes copied should be returned"
                    if buf.len() != buf_prefix.len() + n || &buf[..buf_prefix.len()] != buf_prefix {
                        let d = format!(
                            "get_value of {} returned Some({}) but the buffer went from {} to {} (existing content must stay intact and n bytes be appended)",
                            self.item_desc(item),
                            n,
                            show(buf_prefix),
                            show(&buf)
                        );
                        self.fail(format!("{}:get_value-buffer", self.bk), d);
                        return Ok(M::Val(Some(buf.to_vec())));
                    }
                    Ok(M::Val(Some(buf[buf_prefix.len()..].to_vec())))
                }
            }
        }
    }

    fn qual(&self, item: usize) -> String {
        match self.tainted[item] {
            Some(q) => format!("/id-collision-{}", q),
            None => String::new(),
        }
    }

    /// Read an item and compare with the model. `target`: the item was addressed by the current op
    /// (otherwise a difference means an op on some other item changed it).
    pub fn check_item(&mut self, item: usize, buf_prefix: &[u8], target: bool, phase: &str) -> Result<(), Abort> {
        let got = self.read_item(item, buf_prefix)?;
        if got != self.model[item] {
            let what = match (target, self.items[item].map) {
                (true, true) => "read_map",
                (true, false) => "get_value",
                (false, true) => self.nontarget_labels.0,
                (false, false) => self.nontarget_labels.1,
            };
            let lq = self.life_qual(self.items[item].agent);
            let sig = if self.tainted[item].is_some() {
                // consequence of an id collision that is reported on its own
                format!("{}:data-interference{}", self.bk, self.qual(item))
            } else if !lq.is_empty() {
                format!("{}:state-lost{}", self.bk, lq)
            } else {
                format!("{}:{}", self.bk, what)
            };
            let d = format!(
                "{}: {} holds {} but the writes so far imply {}",
                phase,
                self.item_desc(item),
                got.describe(),
                self.model[item].describe()
            );
            self.fail(sig, d);
            // resynchronise so that one divergence is reported once
            self.model[item] = got;
        }
        Ok(())
    }

    /// Every item that has been used so far (or all items) equals the model.
    pub fn sweep(&mut self, target: Option<usize>, all: bool, phase: &str) -> Result<(), Abort> {
        for item in 0..self.items.len() {
            if all || self.touched[item] {
                self.check_item(item, &[], target == Some(item), phase)?;
            }
        }
        Ok(())
    }

    fn nonempty_maps(&self) -> usize {
        self.model.iter().filter(|m| matches!(m, M::Map(x) if !x.is_empty())).count()
    }

    fn forget_session(&mut self, agent: usize) {
        for (i, it) in self.items.iter().enumerate() {
            if it.agent == agent {
                self.sess_ids[i] = None;
            }
        }
    }

    /// The request `id` produced the node store that is now in use.
    fn became_live(&mut self, agent: usize, id: u64) {
        if self.heir[agent] == Some(id) {
            self.heir[agent] = None;
        }
        self.holder[agent] = Holder::Live;
    }

    /// The current holder of the agent's state went away: the newest waiting request inherits it.
    fn holder_gone(&mut self, agent: usize) {
        let heir = self.heir[agent].take();
        match heir.and_then(|h| self.pending[agent].iter_mut().find(|p| p.id == h)) {
            Some(p) => {
                p.inherited = true;
                self.holder[agent] = Holder::Request(p.id);
            }
            None => self.holder[agent] = Holder::Idle,
        }
    }

    fn drop_node(&mut self, agent: usize) {
        if self.nodes[agent].take().is_some() && self.holder[agent] == Holder::Live {
            self.holder_gone(agent);
        }
        self.forget_session(agent);
    }

    /// Outstanding requests are dropped first, newest first (so that a request is never dropped after
    /// something that handed the agent's state to it: that corner is only produced by explicit
    /// `Stop`/`Abandon` ops), then the instances, then the plane store.
    pub fn close_all(&mut self) {
        for a in 0..self.uris.len() {
            while !self.pending[a].is_empty() {
                let last = self.pending[a].len() - 1;
                self.abandon(a, last);
            }
            self.drop_node(a);
        }
        self.plane = None;
    }

    fn request(&mut self, agent: usize) -> Result<(), Abort> {
        if self.plane.is_none() {
            match (self.open)() {
                Ok(p) => self.plane = Some(p),
                Err(e) => return Err(self.store_err("open", None, e)),
            }
        }
        let id = self.next_pend_id;
        self.next_pend_id += 1;
        let mut contended = false;
        if self.holder[agent] == Holder::Idle {
            self.holder[agent] = Holder::Request(id);
        } else {
            let holder = self.holder[agent];
            for p in &mut self.pending[agent] {
                if holder != Holder::Request(p.id) {
                    p.superseded = true;
                    contended = true;
                }
            }
            self.heir[agent] = Some(id);
        }
        let fut = self.plane.as_ref().unwrap().node_store(&self.uris[agent]);
        // Which of several waiting requests gets the state is the store's policy (the in-memory store
        // serves the newest and fails the others): a failure is accepted from any request that waited
        // together with another one.
        self.pending[agent].push(Pend { fut, id, superseded: contended, inherited: false });
        if self.pending[agent].len() >= 2 {
            self.stats.two_outstanding = true;
        }
        Ok(())
    }

    fn abandon(&mut self, agent: usize, which: usize) {
        let p = self.pending[agent].remove(which);
        if self.nodes[agent].is_some() {
            self.stats.abandoned_while_running = true;
        } else {
            self.stats.abandoned_while_stopped = true;
        }
        if self.heir[agent] == Some(p.id) {
            self.heir[agent] = None;
        }
        let was_holder = self.holder[agent] == Holder::Request(p.id);
        if was_holder && p.inherited {
            self.heir_abandoned[agent] = true;
            self.stats.heir_abandoned = true;
        }
        drop(p);
        if was_holder {
            self.holder_gone(agent);
        }
    }

    pub fn step(&mut self, op: &Op) -> Result<(), Abort> {
        let n_items = self.items.len();
        let n_agents = self.uris.len();
        match op {
            Op::Id(sel) => {
                let item = pick_index(*sel, n_items);
                let id = self.id(item)?;
                let agent = self.items[item].agent;
                let name = self.items[item].name.clone();
                match self.nodes[agent].as_ref().unwrap().id_for(&name) {
                    Ok(again) => {
                        if again != id {
                            let d = format!(
                                "id_for of {} returned {:?} and then {:?} from the same node store",
                                self.item_desc(item),
                                id,
                                again
                            );
                            self.fail(format!("id-unstable:{}/same-session", self.bk), d);
                        }
                    }
                    Err(e) => return Err(self.store_err("id_for", Some(item), e)),
                }
            }
            Op::Write(sel, k, _) | Op::Erase(sel, k) => {
                let item = pick_index(*sel, n_items);
                let id = self.id(item)?;
                let agent = self.items[item].agent;
                let is_map = self.items[item].map;
                let write = matches!(op, Op::Write(..));
                let node = self.nodes[agent].as_mut().unwrap();
                let (call, r) = match (is_map, write) {
                    (true, true) => ("update_map", node.update_map(id, &k.0, &val_of(op).0)),
                    (true, false) => ("remove_map", node.remove_map(id, &k.0)),
                    (false, true) => ("put_value", node.put_value(id, &val_of(op).0)),
                    (false, false) => ("delete_value", node.delete_value(id)),
                };
                if let Err(e) = r {
                    return Err(self.store_err(call, Some(item), e));
                }
                self.model[item].apply(op);
                if let M::Map(m) = &self.model[item] {
                    let keys: Vec<&Vec<u8>> = m.keys().collect();
                    if keys.windows(2).any(|w| w[1].starts_with(w[0])) {
                        self.stats.key_prefix_pair = true;
                    }
                }
                self.sweep(Some(item), false, "after a write")?;
            }
            Op::Clear(sel) => {
                let item = pick_index(*sel, n_items);
                let id = self.id(item)?;
                let agent = self.items[item].agent;
                let is_map = self.items[item].map;
                if let M::Map(m) = &self.model[item] {
                    self.stats.max_cleared = self.stats.max_cleared.max(m.len());
                }
                if is_map && !self.model[item].is_empty() {
                    self.stats.clear_nonempty = true;
                    if self.nonempty_maps() >= 2 {
                        self.stats.clear_interleaved = true;
                    }
                }
                let node = self.nodes[agent].as_mut().unwrap();
                let (call, r) = if is_map {
                    ("clear_map", node.clear_map(id))
                } else {
                    ("delete_value", node.delete_value(id))
                };
                if let Err(e) = r {
                    return Err(self.store_err(call, Some(item), e));
                }
                self.model[item].apply(op);
                self.sweep(Some(item), false, "after a clear")?;
            }
            Op::Read(sel, prefix) => {
                let item = pick_index(*sel, n_items);
                self.check_item(item, &prefix.0, true, "read")?;
            }
            Op::Fill(sel, n, tag) => {
                let item = pick_index(*sel, n_items);
                let id = self.id(item)?;
                let agent = self.items[item].agent;
                let is_map = self.items[item].map;
                let node = self.nodes[agent].as_mut().unwrap();
                let mut res = Ok(());
                if is_map {
                    for i in 0..*n as u32 {
                        res = node.update_map(id, &bulk_key(i), &bulk_val(i, *tag));
                        if res.is_err() {
                            break;
                        }
                    }
                } else {
                    res = node.put_value(id, &[*tag]);
                }
                if let Err(e) = res {
                    return Err(self.store_err(if is_map { "update_map" } else { "put_value" }, Some(item), e));
                }
                self.model[item].apply(op);
                if let M::Map(m) = &self.model[item] {
                    self.stats.max_map = self.stats.max_map.max(m.len());
                }
                self.sweep(Some(item), false, "after a bulk fill")?;
            }
            Op::RemoveRun(sel, from, n) => {
                let item = pick_index(*sel, n_items);
                let id = self.id(item)?;
                let agent = self.items[item].agent;
                let is_map = self.items[item].map;
                if let M::Map(m) = &self.model[item] {
                    let present = (*from as u32..*from as u32 + *n as u32).filter(|i| m.contains_key(&bulk_key(*i))).count();
                    self.stats.max_removed_run = self.stats.max_removed_run.max(present);
                }
                let node = self.nodes[agent].as_mut().unwrap();
                let mut res = Ok(());
                if is_map {
                    for i in *from as u32..*from as u32 + *n as u32 {
                        res = node.remove_map(id, &bulk_key(i));
                        if res.is_err() {
                            break;
                        }
                    }
                } else {
                    res = node.delete_value(id);
                }
                if let Err(e) = res {
                    return Err(self.store_err(if is_map { "remove_map" } else { "delete_value" }, Some(item), e));
                }
                self.model[item].apply(op);
                self.sweep(Some(item), false, "after removing a run of keys")?;
            }
            Op::ReopenNode(sel) => {
                let agent = pick_index(*sel, n_agents);
                if self.nodes[agent].is_some() {
                    self.stats.reopen_node = true;
                    if self.model.iter().any(|m| !m.is_empty()) {
                        self.stats.reopen_with_data = true;
                    }
                }
                self.drop_node(agent);
                self.sweep(None, false, "after re-requesting a node store")?;
            }
            Op::Handover(sel) => {
                let agent = pick_index(*sel, n_agents);
                if self.nodes[agent].is_some() {
                    if self.model.iter().any(|m| !m.is_empty()) {
                        self.stats.reopen_with_data = true;
                    }
                    self.request(agent)?;
                    let last = self.pending[agent].len() - 1;
                    match poll_once(&mut self.pending[agent][last].fut) {
                        Poll::Ready(Ok(n)) => {
                            // not exclusive (RocksDB): the old handle goes away after the new one exists
                            let p = self.pending[agent].remove(last);
                            self.drop_node(agent);
                            self.became_live(agent, p.id);
                            self.nodes[agent] = Some(n);
                        }
                        Poll::Ready(Err(e)) => {
                            let p = self.pending[agent].remove(last);
                            if self.heir[agent] == Some(p.id) {
                                self.heir[agent] = None;
                            }
                            if !p.superseded {
                                return Err(self.node_store_err(agent, e));
                            }
                            self.stats.superseded_error = true;
                            self.drop_node(agent);
                        }
                        Poll::Pending => {
                            // the old instance goes away only now; the sweep resolves the request
                            self.stats.handover_pending = true;
                            self.drop_node(agent);
                        }
                    }
                }
                self.sweep(None, false, "after handing the node store over to a new instance")?;
            }
            Op::Stop(sel) => {
                let agent = pick_index(*sel, n_agents);
                if self.nodes[agent].is_some() && self.model.iter().any(|m| !m.is_empty()) {
                    self.stats.reopen_with_data = true;
                }
                self.drop_node(agent);
            }
            Op::Request(sel) => {
                let agent = pick_index(*sel, n_agents);
                if self.pending[agent].len() < 3 {
                    self.request(agent)?;
                }
            }
            Op::Abandon(sel, which) => {
                let agent = pick_index(*sel, n_agents);
                if !self.pending[agent].is_empty() {
                    let w = pick_index(*which, self.pending[agent].len());
                    self.abandon(agent, w);
                }
            }
            Op::Resolve(sel, which, new_first) => {
                let agent = pick_index(*sel, n_agents);
                if !self.pending[agent].is_empty() {
                    let w = pick_index(*which, self.pending[agent].len());
                    match poll_once(&mut self.pending[agent][w].fut) {
                        Poll::Ready(Ok(n)) => {
                            let p = self.pending[agent].remove(w);
                            match self.nodes[agent].take() {
                                None => {
                                    self.became_live(agent, p.id);
                                    self.nodes[agent] = Some(n);
                                    self.forget_session(agent);
                                    self.sweep(None, false, "after an outstanding node_store request resolved")?;
                                }
                                Some(old) => {
                                    // two handles for one uri at once (RocksDB): what was written through
                                    // the old one is read through the new one, then one of them goes away
                                    self.stats.second_handle = true;
                                    if self.heir[agent] == Some(p.id) {
                                        self.heir[agent] = None;
                                    }
                                    self.nodes[agent] = Some(n);
                                    self.forget_session(agent);
                                    self.sweep(None, false, "through a second node store handle for the same uri")?;
                                    if *new_first {
                                        drop(old);
                                    } else {
                                        self.nodes[agent] = Some(old);
                                        self.forget_session(agent);
                                    }
                                    self.sweep(None, false, "after dropping one of two node store handles for the same uri")?;
                                }
                            }
                        }
                        Poll::Ready(Err(e)) => {
                            let p = self.pending[agent].remove(w);
                            if self.heir[agent] == Some(p.id) {
                                self.heir[agent] = None;
                            }
                            if p.superseded {
                                self.stats.superseded_error = true;
                            } else {
                                return Err(self.node_store_err(agent, e));
                            }
                        }
                        Poll::Pending => {
                            // legitimate while something else (the instance in use or another
                            // outstanding request) can hold the agent's state
                            if self.nodes[agent].is_none() && self.pending[agent].len() == 1 {
                                let d = format!(
                                    "the only outstanding node_store({:?}) request is pending although no node store for that uri is in use",
                                    self.uris[agent]
                                );
                                self.lifecycle_fail(agent, "node_store-pending", d);
                                return Err(Abort);
                            }
                        }
                    }
                }
            }
            Op::ReopenAll => {
                if self.plane.is_some() {
                    self.stats.reopen_all = true;
                    if self.model.iter().any(|m| !m.is_empty()) {
                        self.stats.reopen_with_data = true;
                    }
                }
                self.close_all();
                self.sweep(None, false, "after closing and reopening the store")?;
            }
        }
        Ok(())
    }

    pub fn run(&mut self, prealloc: u16, ops: &[Op]) {
        for i in 0..prealloc {
            if self.probe(&format!("\u{3}pre{}", i)).is_err() {
                return;
            }
        }
        for (i, op) in ops.iter().enumerate() {
            self.at = i;
            if self.step(op).is_err() {
                return;
            }
        }
        self.at = ops.len();
        // closing sweep over all items including never used ones, from a re-opened store
        if self.sweep(None, true, "final sweep").is_err() {
            return;
        }
        self.close_all();
        let _ = self.sweep(None, true, "final sweep after reopen");
    }
}

fn val_of(op: &Op) -> &B {
    static EMPTY: B = B(Vec::new());
    match op {
        Op::Write(_, _, v) => v,
        _ => &EMPTY,
    }
}

fn case_classes(v: &mut Verdict, case: &Case, uris: &[String], items: &[FlatItem], stats: &Stats) {
    v.class_if(stats.reopen_all, "reopen-all");
    v.class_if(stats.reopen_node, "reopen-node");
    v.class_if(stats.handover_pending, "handover-waited");
    v.class_if(stats.reopen_with_data, "reopen-with-data");
    v.class_if(stats.clear_nonempty, "clear-nonempty-map");
    v.class_if(stats.clear_interleaved, "clear-with-2+-maps-populated");
    v.class_if(stats.key_prefix_pair, "key-prefix-of-key");
    v.class_if(stats.id_collision, "id-collision-observed");
    v.class_if(stats.abandoned_while_running, "request-abandoned-while-running");
    v.class_if(stats.abandoned_while_stopped, "request-abandoned-while-stopped");
    v.class_if(stats.two_outstanding, "two-outstanding-requests");
    v.class_if(stats.superseded_error, "superseded-request-failed");
    v.class_if(stats.heir_abandoned, "heir-abandoned");
    v.class_if(stats.second_handle, "two-handles-one-uri");
    v.class_if(stats.max_map >= 65, "bulk:map>=65-entries");
    v.class_if(stats.max_map >= 2049, "bulk:map>=2049-entries");
    v.class_if(stats.max_map >= 4097, "bulk:map>=4097-entries");
    v.class_if(stats.max_cleared >= 65, "bulk:clear-of>=65-entries");
    v.class_if((1..=64).contains(&stats.max_cleared) && stats.max_map >= 60, "bulk:clear-of-60..64-entries");
    v.class_if(stats.max_removed_run >= 65, "bulk:removed-run>=65");
    v.class_if(stats.max_removed_run >= 2049, "bulk:removed-run>=2049");
    v.class_if(stats.max_removed_run >= 4097, "bulk:removed-run>=4097");
    v.class_if(uris.len() >= 2, "agents>=2");
    v.class_if(case.prealloc > 0, "ids-around-256");
    v.class_if(items.iter().any(|i| i.name.is_empty()), "empty-name");
    v.class_if(items.iter().any(|i| !i.name.is_ascii()), "non-ascii-name");
    v.class_if(items.iter().any(|i| i.name.contains('/')), "name-with-slash");
    v.class_if(
        items.iter().any(|a| items.iter().any(|b| a.agent != b.agent && a.name == b.name)),
        "same-name-two-agents",
    );
    v.class_if(
        items
            .iter()
            .enumerate()
            .any(|(i, a)| items[..i].iter().any(|b| a.joined(uris) == b.joined(uris))),
        "joined-uri-name-equal",
    );
    v.class_if(items.iter().any(|i| i.map) && items.iter().any(|i| !i.map), "value+map-items");
    let mut boundary = false;
    let mut empty_key = false;
    let mut long_key = false;
    let mut ff00 = false;
    for op in &case.ops {
        if let Op::Write(sel, k, _) | Op::Erase(sel, k) = op {
            if items[pick_index(*sel, items.len())].map {
                boundary |= matches!(k.0.len(), 7..=9 | 16..=19);
                empty_key |= k.0.is_empty();
                long_key |= k.0.len() >= 255;
                ff00 |= k.0.contains(&0) || k.0.contains(&0xFF);
            }
        }
    }
    v.class_if(boundary, "map-key-len-7-9/16-19");
    v.class_if(empty_key, "map-key-empty");
    v.class_if(long_key, "map-key-len>=255");
    v.class_if(ff00, "map-key-with-00/FF");
}

fn finish_case<P, F>(ex: Exec<'_, P, F>, case: &Case) -> Verdict
where
    P: PlanePersistence,
    F: FnMut() -> Result<P, StoreError>,
{
    let Exec { mut v, stats, uris, items, .. } = ex;
    case_classes(&mut v, case, uris, items, &stats);
    // Non-trivial: a reopen (node store or whole store) while data is stored, or a clear of a
    // populated map while at least two maps are populated.
    if stats.reopen_with_data || stats.clear_interleaved || stats.max_cleared >= 65 || stats.max_removed_run >= 65 {
        v.nontrivial();
    }
    v
}

pub fn check_rocks(case: &Case) -> Verdict {
    let (uris, items) = flatten(case, false);
    let scratch = Scratch::new();
    let dir = scratch.0.clone();
    let mut ex = Exec::new("rocks", true, &uris, &items, || open_rocks(&dir));
    ex.run(case.prealloc, &case.ops);
    ex.close_all();
    finish_case(ex, case)
}

pub fn check_mem(case: &Case) -> Verdict {
    let (uris, items) = flatten(case, false);
    // The plane store lives as long as the server process; "closing" it is not meaningful.
    let plane = InMemoryPlanePersistence::default();
    let mut ex = Exec::new("mem", false, &uris, &items, || Ok(plane.clone()));
    ex.run(case.prealloc, &case.ops);
    ex.close_all();
    finish_case(ex, case)
}

pub fn run(ctx: &mut Ctx) {
    ctx.rule(
        "histories of kind-adaptive ops (id_for / put|update / delete|remove / clear / get|read_map / re-request \
         node store / hand-over / close+reopen everything) over 1-3 agent uris x 1-4 items (kill tier: up to 6) drawn \
         from adversarial name, uri and key pools plus random ones; every mutating op is followed by a sweep that \
         reads every item used so far and compares it with the model. Non-trivial = a reopen (node store, \
         hand-over or whole store; kill tier: a SIGKILL that landed before the history finished) while data is \
         stored, or a clear of a populated map while >= 2 maps are populated, or (bulk cases, 1 in 12: one map filled \
         with up to 6000 entries) a clear of >= 65 entries / a run of >= 65 point-removed consecutive keys; \
         rocks-threads: >= 2 threads registering new names concurrently followed by a reopen. Distinct by Debug form of the case.",
    );
    ctx.assume("get_value of an item without data returns Ok(None) (the runtime's ValueInit sends a command iff Some)");
    ctx.assume("read_map order is not specified by the trait: entries are compared as a map, duplicates are an error");
    ctx.assume("ids are compared within one agent for both stores and across agents for RocksDB, whose ids key one plane-wide keyspace");
    ctx.assume("kill tier: SIGKILL of the writer process only (page cache survives); no power-loss model");
    let _ = std::fs::create_dir_all(scratch_base());

    let n = ctx.pick(12_000, 400_000);
    ctx.prop("rocks-model", n, arb_model_case, check_rocks);
    let n = ctx.pick(200_000, 6_000_000);
    ctx.prop("mem-model", n, arb_model_case, check_mem);
    let n = ctx.pick(3_000, 100_000);
    ctx.prop("rocks-kill", n, kill::arb_kill_case, kill::check_kill);
    let n = ctx.pick(3_000, 150_000);
    ctx.prop("rocks-threads", n, crate::threads::arb_thread_case, crate::threads::check_threads);

    let _ = std::fs::remove_dir_all(scratch_base());
}
