//! Sequential executor: the real coordinator next to the reference model, compared step by step.
use serde::{Deserialize, Serialize};
use std::future::Future;
use std::pin::Pin;
use std::sync::atomic::{AtomicUsize, Ordering};
use std::sync::Arc;
use std::task::{Context, Poll, Wake, Waker};
use swimos_runtime::verif_hooks::{
    agent_timeout_coordinator, downlink_timeout_coordinator, Receiver, VoteResult, Voter,
};

#[derive(Clone, Copy, PartialEq, Eq, Serialize, Deserialize)]
#[serde(into = "String", try_from = "String")]
pub enum Op {
    /// voter i votes to stop
    V(u8),
    /// voter i rescinds
    R(u8),
    /// voter i is dropped (its task disappears)
    D(u8),
    /// poll the receiver with the current waker
    P,
    /// drop the receiver (random tier only)
    Px,
    /// the receiver's task switches to a fresh waker for later polls (random tier only)
    Kp,
}

impl std::fmt::Debug for Op {
    fn fmt(&self, f: &mut std::fmt::Formatter<'_>) -> std::fmt::Result {
        f.write_str(&String::from(*self))
    }
}

impl From<Op> for String {
    fn from(op: Op) -> String {
        match op {
            Op::V(i) => format!("V{}", i),
            Op::R(i) => format!("R{}", i),
            Op::D(i) => format!("D{}", i),
            Op::P => "P".into(),
            Op::Px => "Px".into(),
            Op::Kp => "Kp".into(),
        }
    }
}

impl TryFrom<String> for Op {
    type Error = String;
    fn try_from(s: String) -> Result<Op, String> {
        let party = |t: &str| t.parse::<u8>().ok().filter(|p| *p < 3).ok_or_else(|| format!("bad op {}", s));
        match s.as_str() {
            "P" => Ok(Op::P),
            "Px" => Ok(Op::Px),
            "Kp" => Ok(Op::Kp),
            t if t.starts_with('V') => Ok(Op::V(party(&t[1..])?)),
            t if t.starts_with('R') => Ok(Op::R(party(&t[1..])?)),
            t if t.starts_with('D') => Ok(Op::D(party(&t[1..])?)),
            _ => Err(format!("bad op {}", s)),
        }
    }
}

pub struct CountWaker(pub AtomicUsize);

impl CountWaker {
    pub fn new() -> Arc<CountWaker> {
        Arc::new(CountWaker(AtomicUsize::new(0)))
    }
    pub fn count(&self) -> usize {
        self.0.load(Ordering::SeqCst)
    }
}

impl Wake for CountWaker {
    fn wake(self: Arc<Self>) {
        self.0.fetch_add(1, Ordering::SeqCst);
    }
    fn wake_by_ref(self: &Arc<Self>) {
        self.0.fetch_add(1, Ordering::SeqCst);
    }
}

#[derive(Clone, Copy, PartialEq, Eq)]
pub enum Mode {
    /// any order of operations (the documented contract); an operation outside the domain ends the run as Invalid
    Strict,
    /// as Strict, restricted to what the runtime tasks do
    StrictCallers,
    /// operations outside the domain are skipped
    Lenient,
    LenientCallers,
}

impl Mode {
    fn callers(self) -> bool {
        matches!(self, Mode::StrictCallers | Mode::LenientCallers)
    }
    fn strict(self) -> bool {
        matches!(self, Mode::Strict | Mode::StrictCallers)
    }
}

pub const NCLASS: usize = 10;
pub const CLASS_NAMES: [&str; NCLASS] = [
    "unanimity-reached",
    "rescind-withdrew-vote",
    "rescind-told-unanimous",
    "rescind-without-own-vote",
    "receiver-parked-then-woken",
    "receiver-ready",
    "drop-without-vote",
    "drop-with-vote",
    "vote-repeated",
    "ops-after-unanimity",
];
const C_LATCH: u32 = 1 << 0;
const C_WITHDREW: u32 = 1 << 1;
const C_TOLD_UNANIMOUS: u32 = 1 << 2;
const C_RESCIND_NO_VOTE: u32 = 1 << 3;
const C_WOKEN: u32 = 1 << 4;
const C_READY: u32 = 1 << 5;
const C_DROP_NO_VOTE: u32 = 1 << 6;
const C_DROP_VOTE: u32 = 1 << 7;
const C_VOTE_REPEAT: u32 = 1 << 8;
const C_AFTER: u32 = 1 << 9;

#[derive(Default, Clone, Copy)]
pub struct RunStats {
    pub nontrivial: bool,
    pub classes: u32,
}

pub enum End {
    Complete,
    Invalid(usize),
    Failed(usize, Vec<(String, String)>),
}

pub struct Outcome {
    pub end: End,
    pub stats: RunStats,
}

#[derive(PartialEq, Eq)]
enum Rx {
    Pollable,
    Done,
    Dropped,
}

enum StepRes {
    Ok,
    Invalid,
}

struct Sys {
    n: usize,
    mode: Mode,
    voters: [Option<Voter>; 3],
    rx: Option<Receiver>,
    rx_state: Rx,
    waker: Arc<CountWaker>,
    // ---- model ----
    outstanding: [bool; 3],
    dropped: [bool; 3],
    /// the party withdrew an outstanding vote and has not voted since
    withdrawn: [bool; 3],
    /// some party was dropped while `withdrawn` (the shape of known finding §7-1a)
    withdrawn_dropped: bool,
    /// caller discipline: the party was told Unanimous (its task stops; it may only drop)
    told: [bool; 3],
    latch: bool,
    rx_wait: Option<(Arc<CountWaker>, usize)>,
    withdrew_any: bool,
    stats: RunStats,
    fails: Vec<(String, String)>,
}

impl Sys {
    fn new(n: usize, mode: Mode) -> Sys {
        let (voters, rx) = if n == 2 {
            let (a, b, rx) = downlink_timeout_coordinator();
            ([Some(a), Some(b), None], rx)
        } else {
            let (a, b, c, rx) = agent_timeout_coordinator();
            ([Some(a), Some(b), Some(c)], rx)
        };
        Sys {
            n,
            mode,
            voters,
            rx: Some(rx),
            rx_state: Rx::Pollable,
            waker: CountWaker::new(),
            outstanding: [false; 3],
            dropped: [false; 3],
            withdrawn: [false; 3],
            withdrawn_dropped: false,
            told: [false; 3],
            latch: false,
            rx_wait: None,
            withdrew_any: false,
            stats: RunStats::default(),
            fails: vec![],
        }
    }

    fn fail(&mut self, sig: String, msg: String) {
        self.fails.push((sig, msg));
    }

    fn all_voting(&self) -> bool {
        (0..self.n).all(|i| self.outstanding[i] || self.dropped[i])
    }

    /// Signature for "the stop does not happen although every party votes or is gone".
    fn liveness_sig(&self, generic: &str) -> String {
        if self.withdrawn_dropped {
            format!("drop-after-rescind-not-counted:{}p", self.n)
        } else {
            format!("{}:{}p", generic, self.n)
        }
    }

    /// Model transition after a vote or drop; checks the parked receiver is woken when the latch sets.
    fn after_vote_or_drop(&mut self, what: &str) {
        if !self.latch && self.all_voting() {
            self.latch = true;
            self.stats.classes |= C_LATCH;
            if self.withdrew_any {
                self.stats.nontrivial = true;
            }
            if let Some((w, c0)) = self.rx_wait.take() {
                if w.count() > c0 {
                    self.stats.classes |= C_WOKEN;
                } else {
                    let sig = self.liveness_sig("receiver-not-woken");
                    self.fail(sig, format!("the receiver's last poll returned Pending; {} completed unanimity (every party has an outstanding vote or is gone) but the waker registered by that poll was not woken", what));
                }
            }
        }
    }

    fn step(&mut self, op: Op) -> StepRes {
        match op {
            Op::V(i) => {
                let i = i as usize;
                if i >= self.n || self.voters[i].is_none() {
                    return StepRes::Invalid;
                }
                if self.mode.callers() && self.told[i] {
                    return StepRes::Invalid;
                }
                let res = self.voters[i].as_ref().unwrap().vote();
                if self.latch {
                    self.stats.classes |= C_AFTER;
                }
                if self.outstanding[i] {
                    self.stats.classes |= C_VOTE_REPEAT;
                }
                self.outstanding[i] = true;
                self.withdrawn[i] = false;
                self.after_vote_or_drop("this vote");
                if res == VoteResult::Unanimous {
                    self.told[i] = true;
                    if !self.latch {
                        let votes = self.votes();
                        self.fail(
                            format!("vote-unanimous-without-unanimity:{}p", self.n),
                            format!("vote() returned Unanimous but not every party has an outstanding vote (model: {})", votes),
                        );
                    }
                }
                StepRes::Ok
            }
            Op::R(i) => {
                let i = i as usize;
                if i >= self.n || self.voters[i].is_none() {
                    return StepRes::Invalid;
                }
                if self.mode.callers() && (self.told[i] || !self.outstanding[i]) {
                    return StepRes::Invalid;
                }
                let res = self.voters[i].as_ref().unwrap().rescind();
                if self.latch {
                    self.stats.classes |= C_AFTER;
                    match res {
                        VoteResult::Unanimous => {
                            self.told[i] = true;
                            self.stats.classes |= C_TOLD_UNANIMOUS;
                        }
                        VoteResult::UnanimityPending => {
                            // (when a party was dropped with a withdrawn vote the implementation never
                            // reaches unanimity at all: that is the known shape, not this law)
                            let sig = self.liveness_sig("rescind-pending-after-unanimity");
                            let votes = self.votes();
                            self.fail(
                                sig,
                                format!("rescind() returned UnanimityPending although unanimity had been reached: every party had an outstanding vote or was gone (model: {})", votes),
                            );
                        }
                    }
                } else {
                    let had = self.outstanding[i];
                    if had {
                        self.withdrawn[i] = true;
                        self.withdrew_any = true;
                        self.stats.classes |= C_WITHDREW;
                    } else {
                        self.stats.classes |= C_RESCIND_NO_VOTE;
                    }
                    self.outstanding[i] = false;
                    if res == VoteResult::Unanimous {
                        let votes = self.votes();
                        self.fail(
                            format!(
                                "rescind-unanimous-without-unanimity:{}p/{}",
                                self.n,
                                if had { "own-vote-outstanding" } else { "no-own-vote" }
                            ),
                            format!("rescind() returned Unanimous but unanimity was never reached (outstanding votes before the call: {}); the caller stops although the runtime will not", votes),
                        );
                    }
                }
                StepRes::Ok
            }
            Op::D(i) => {
                let i = i as usize;
                if i >= self.n || self.voters[i].is_none() {
                    return StepRes::Invalid;
                }
                self.voters[i] = None;
                if self.latch {
                    self.stats.classes |= C_AFTER;
                }
                if self.outstanding[i] {
                    self.stats.classes |= C_DROP_VOTE;
                } else {
                    self.stats.classes |= C_DROP_NO_VOTE;
                }
                if self.withdrawn[i] {
                    self.withdrawn_dropped = true;
                }
                self.dropped[i] = true;
                if self.withdrew_any {
                    self.stats.nontrivial = true;
                }
                self.after_vote_or_drop("this drop");
                StepRes::Ok
            }
            Op::P => {
                if self.rx_state != Rx::Pollable {
                    return StepRes::Invalid;
                }
                let w = self.waker.clone();
                let waker = Waker::from(w.clone());
                let mut cx = Context::from_waker(&waker);
                let rx = self.rx.as_mut().unwrap();
                match Pin::new(rx).poll(&mut cx) {
                    Poll::Ready(()) => {
                        self.rx_state = Rx::Done;
                        self.rx_wait = None;
                        self.stats.classes |= C_READY;
                        if !self.latch {
                            let votes = self.votes();
                            self.fail(
                                format!("receiver-ready-without-unanimity:{}p", self.n),
                                format!("the receiver completed (the runtime stops) but there was no moment at which every party had an outstanding vote (model: {})", votes),
                            );
                        }
                    }
                    Poll::Pending => {
                        if self.latch {
                            let sig = self.liveness_sig("receiver-pending-after-unanimity");
                            let votes = self.votes();
                            self.fail(sig, format!("every party has voted or is gone (model: {}) but the receiver is still pending: the others wait forever", votes));
                        }
                        let c = w.count();
                        self.rx_wait = Some((w, c));
                    }
                }
                StepRes::Ok
            }
            Op::Px => {
                if self.rx_state == Rx::Dropped || self.mode.strict() {
                    return StepRes::Invalid;
                }
                self.rx = None;
                self.rx_state = Rx::Dropped;
                self.rx_wait = None;
                StepRes::Ok
            }
            Op::Kp => {
                if self.mode.strict() {
                    return StepRes::Invalid;
                }
                self.waker = CountWaker::new();
                StepRes::Ok
            }
        }
    }

    fn votes(&self) -> String {
        let mut s = String::new();
        for i in 0..self.n {
            if i > 0 {
                s.push(' ');
            }
            s.push_str(&format!(
                "{}={}",
                i,
                if self.dropped[i] {
                    "gone"
                } else if self.outstanding[i] {
                    "voted"
                } else {
                    "not-voted"
                }
            ));
        }
        s
    }
}

/// Execute `ops` on a fresh coordinator. After the last operation: poll the receiver, drop every
/// remaining voter, poll again (now it must be ready).
pub fn run(n: usize, ops: &[Op], mode: Mode) -> Outcome {
    let mut sys = Sys::new(n, mode);
    for (i, op) in ops.iter().enumerate() {
        match sys.step(*op) {
            StepRes::Ok => {}
            StepRes::Invalid => {
                if mode.strict() {
                    return Outcome {
                        end: End::Invalid(i),
                        stats: sys.stats,
                    };
                }
            }
        }
        if !sys.fails.is_empty() {
            let fails = std::mem::take(&mut sys.fails);
            return Outcome {
                end: End::Failed(i, fails),
                stats: sys.stats,
            };
        }
    }
    // Closing steps (not part of the non-triviality rule).
    let stats = sys.stats;
    let end = ops.len();
    if sys.rx_state == Rx::Pollable {
        sys.step(Op::P);
    }
    for i in 0..n {
        if sys.fails.is_empty() && sys.voters[i].is_some() {
            sys.step(Op::D(i as u8));
        }
    }
    if sys.fails.is_empty() && sys.rx_state == Rx::Pollable {
        sys.step(Op::P);
    }
    if !sys.fails.is_empty() {
        let fails = std::mem::take(&mut sys.fails)
            .into_iter()
            .map(|(s, m)| (s, format!("[in the closing steps after the sequence: poll receiver, drop all remaining voters, poll receiver] {}", m)))
            .collect();
        return Outcome {
            end: End::Failed(end.saturating_sub(1), fails),
            stats,
        };
    }
    Outcome {
        end: End::Complete,
        stats,
    }
}
