#!/usr/bin/env python3
"""Regenerates the machine-written part of DESIGN.md (§9.2 onwards, between the AUTOGEN markers) from
known_findings.txt, git log of /repo, mutations/*/RESULTS.txt and seeded/RESULTS.txt + meta.json."""
import re, os, json, subprocess, glob
ROOT='/verif'
def sh(cmd): return subprocess.run(cmd,shell=True,capture_output=True,text=True).stdout
log=[l.split(' ',1) for l in sh("git -C /repo log --format='%h %s' 91d058f..HEAD").strip().split('\n')]
subject=dict(log)
fixed={}; findings={}
for l in open(f'{ROOT}/known_findings.txt'):
    m=re.match(r'fixed:\s+property=(C\d+)\s+(\w+)\s+(.*)',l)
    if m: fixed.setdefault(m.group(2),[]).append((m.group(1),m.group(3).strip()))
    m=re.match(r'finding:\s+property=(C\d+)\s+sig=(\S+)\s+--\s+(.*)',l)
    if m: findings.setdefault(m.group(1),[]).append((m.group(2),m.group(3).strip()))
out=[]
out.append('### 9.2 Defects repaired in /repo (`fix:` commits; each listed as `fixed:` in known_findings.txt)\n')
out.append('| commit | property | what was wrong (commit subject) | signatures that found it |')
out.append('|---|---|---|---|')
for h,s in reversed(log):
    if not s.startswith('fix:'): continue
    ents=fixed.get(h,[])
    props=sorted({p for p,_ in ents}) or ['?']
    sigs=[]
    for p,t in ents:
        mm=re.match(r'\[([^\]]+)\]',t)
        sigs.append(mm.group(1) if mm else t[:60])
    out.append(f"| `{h}` | {' '.join(props)} | {s[5:]} | {'; '.join('`'+x+'`' for x in sigs[:4])}{' …' if len(sigs)>4 else ''} |")
out.append('')
out.append('### 9.3 Open findings (genuine defects recorded, not repaired; excluded from search by exact signature)\n')
for p in sorted(findings):
    out.append(f'**{p}** ({len(findings[p])} signatures)\n')
    for sig,t in findings[p]:
        out.append(f'* `{sig}` — {t[:300]}')
    out.append('')
out.append('### 9.4 Sensitivity: hand-written mutations per property (tools/run_mutations.sh; details in harness/cNN/NOTES.md)\n')
out.append('| property | mutations | detected by quick tier | not detected (see NOTES: equivalent / outside the statement) |')
out.append('|---|---|---|---|')
for d in sorted(glob.glob(f'{ROOT}/mutations/C*')):
    p=os.path.basename(d)
    n=len(glob.glob(d+'/*.diff'))
    det=miss=None
    rf=d+'/RESULTS.txt'
    names_missed=[]
    if os.path.exists(rf):
        txt=open(rf).read()
        det=len(re.findall(r'\bDETECTED\b',txt)); 
        for l in txt.split('\n'):
            if re.search(r'\bMISSED\b',l): names_missed.append(l.split()[0])
    out.append(f"| {p} | {n} | {det if det is not None else 'see NOTES.md'} | {', '.join(names_missed) if names_missed else ('—' if det is not None else 'see NOTES.md')} |")
out.append('')
out.append('### 9.5 Independently seeded changes (fresh sub-agents that saw only the property text; /verif/seeded/<id>/)\n')
_rk={}
for _f in glob.glob(f'{ROOT}/seeded/ROUND*.txt'):
    for _n in open(_f).read().split(): _rk[_n]=int(re.search(r'ROUND(\d+)',_f).group(1))
def _round(name):
    if name in _rk: return _rk[name]
    return 1 if int(name.split('-')[1])<=3 else 2
_res={}
if os.path.exists(f'{ROOT}/seeded/RESULTS.txt'):
    for l in open(f'{ROOT}/seeded/RESULTS.txt'):
        m=re.match(r'(\S+) check=(\S+) rc=(\d+) (\S+)',l)
        if m: _res.setdefault(m.group(1),[]).append(m.group(4))
_stat={}
for d in sorted(glob.glob(f'{ROOT}/seeded/C*-*')):
    n=os.path.basename(d); r=_round(n); st=_res.get(n,[])
    k='not run' if not st else ('first' if st[0].startswith('DETECTED') else ('follow-up' if st[-1].startswith('DETECTED') else 'missed'))
    _stat.setdefault(r,{}).setdefault(k,[]).append(n)
out.append('Summary (a change counts as *first run* when the quick tier as it stood when the change arrived was red, as *after follow-up* when the generator or oracle of the check had to be extended first — every such extension is described in the check\'s NOTES.md and kept as a mutation —, as *missed* when the quick tier is still green with the change applied):\n')
out.append('| round | changes | detected at first run | detected after follow-up | still missed |')
out.append('|---|---|---|---|---|')
for r in sorted(_stat):
    g=_stat[r]; tot=sum(len(v) for v in g.values())
    out.append(f"| {r} | {tot} | {len(g.get('first',[]))} | {len(g.get('follow-up',[]))} | {', '.join(g.get('missed',[])+g.get('not run',[])) or '—'} |")
out.append('')
out.append('| change | property | what it breaks / what it needs | confirmed (demo fails with, passes without; suites pass) | caught by | signatures |')
out.append('|---|---|---|---|---|---|')
res={}
rf=f'{ROOT}/seeded/RESULTS.txt'
if os.path.exists(rf):
    for l in open(rf):
        m=re.match(r'(\S+) check=(\S+) rc=(\d+) (\S+) (?:(\d+)s ?)?(.*)',l)
        if m:
            prev=res.get(m.group(1))
            first=prev[3] if prev else m.group(4)
            st=m.group(4)
            if st.startswith('DETECTED') and first.startswith('MISSED'): st='DETECTED after follow-up (first run: MISSED)'
            note=re.match(r'\s*(\([^)]*\))',m.group(6) or '')
            if note: st+=' '+note.group(1)[:220]
            res[m.group(1)]=(m.group(2),st,m.group(6),first)
for d in sorted(glob.glob(f'{ROOT}/seeded/C*-*')):
    name=os.path.basename(d)
    meta={}
    if os.path.exists(d+'/meta.json'):
        try: meta=json.load(open(d+'/meta.json'))
        except Exception: pass
    r=res.get(name,('?','not run','',''))
    sigs=' '.join(sorted(set(re.findall(r'sig=(\S+)',r[2]))))[:160]
    what=(meta.get('breaks','')+' — needs: '+meta.get('needs_to_manifest',''))[:260].replace('|','/')
    out.append(f"| {name} | {name.split('-')[0]} | {what} | {meta.get('confirmed','?')} | {r[0]} quick: {r[1]} | {sigs} |")
out.append('')
out.append('### 9.6 Thorough-tier and multi-seed runs on the unchanged tree (results/thorough-summary.txt, results/seeds-summary.txt = copies of the git-ignored logs/; rc 124 = killed by the 100 / 50 min cap of the campaign script while the machine was shared with ~10 other jobs, not a verdict)\n')
out.append('| run | exit | wall | summary |')
out.append('|---|---|---|---|')
tf=f'{ROOT}/logs/thorough-summary.txt'
if os.path.exists(tf):
    for l in open(tf):
        m=re.match(r'(C\d+) thorough rc=(\d+) (\d+)s ?(.*)',l.strip())
        if m: out.append(f"| {m.group(1)} thorough | {m.group(2)} | {m.group(3)} s | {m.group(4)[:150]} |")
sf=f'{ROOT}/logs/seeds-summary.txt'
if os.path.exists(sf):
    agg={}
    for l in open(sf):
        m=re.match(r'(C\d+) seed=(\d+) rc=(\d+) (\d+)s',l)
        if m: agg.setdefault(m.group(1),[]).append((m.group(2),m.group(3),m.group(4)))
    out.append('')
    out.append('| quick, other seeds | seeds run (exit code, seconds) |')
    out.append('|---|---|')
    for k in sorted(agg):
        out.append(f"| {k} | "+', '.join(f'seed {a}: rc={b} {c}s' for a,b,c in agg[k])+' |')
txt='\n'.join(out)
s=open(f'{ROOT}/DESIGN.md').read()
a='<!-- AUTOGEN-BEGIN -->'; b='<!-- AUTOGEN-END -->'
if a in s:
    s=s[:s.index(a)+len(a)]+'\n'+txt+'\n'+s[s.index(b):]
else:
    s=s.rstrip('\n')+'\n\n'+a+'\n'+txt+'\n'+b+'\n'
open(f'{ROOT}/DESIGN.md','w').write(s)
print('DESIGN.md tables regenerated:',len(out),'lines')
