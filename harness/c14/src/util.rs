//! Shared helpers.

use vsim::Sim;

/// Deliver everything and run to a fixpoint, like `Sim::settle`, but without a bound on the number of
/// rounds: a 1-byte channel moves one byte per round and the bursts of this check put > 100 000 bytes
/// through such channels. A livelock (the system keeps being woken but no byte moves) is still detected.
pub fn settle(sim: &mut Sim) {
    let mut stagnant = 0u32;
    loop {
        let mut bytes = 0usize;
        for r in sim.remotes.iter_mut() {
            bytes += r.pump(usize::MAX);
        }
        let polls = sim.poll(10_000);
        for r in sim.remotes.iter_mut() {
            bytes += r.read(usize::MAX);
        }
        if bytes == 0 && polls == 0 && (sim.is_done() || !sim.is_woken()) {
            break;
        }
        if bytes == 0 {
            stagnant += 1;
            if stagnant > 20_000 {
                panic!("settle: the system keeps running but no byte has moved for 20000 rounds (livelock)");
            }
        } else {
            stagnant = 0;
        }
    }
}
