//! Sub-check (b): every command envelope delivered to a command lane invokes its handler exactly
//! once with that command's value, in the order each remote sent them.

use crate::sup::arb_params;
use proptest::prelude::*;
use serde::{Deserialize, Serialize};
use std::collections::HashMap;
use std::sync::atomic::AtomicU64;
use std::sync::Arc;
use std::time::Duration;
use vcommon::{pick_index, Verdict};
use vsim::agent::{make_agent, AgentFlags, Ev, Shared};
use vsim::{arb_nbytes, arb_small_cap, block_on_paused, Req, Sim, SimParams};

const LANES: [&str; 2] = ["cmd", "ctl"];

#[derive(Clone, Debug, PartialEq, Eq, Serialize, Deserialize)]
pub enum BOp {
    Attach { in_cap: usize, out_cap: usize },
    /// Remote r queues n command envelopes (consecutive unique values) for lane 0 = cmd, 1 = ctl.
    Cmds { r: u16, lane: u8, n: u16 },
    /// Link to the command lane (its echo events then share the remote's writer; not asserted).
    Link { r: u16, lane: u8 },
    Pump { r: u16, n: usize },
    Read { r: u16, n: usize },
    Poll { k: usize },
    Settle,
    Advance { ms: u64 },
    Drop { r: u16 },
}

#[derive(Clone, Debug, Serialize, Deserialize)]
pub struct BCase {
    pub params: SimParams,
    pub ops: Vec<BOp>,
}

fn arb_burst_len() -> impl Strategy<Value = u16> {
    prop_oneof![3 => 1u16..6, 4 => 6u16..40, 2 => 40u16..120, 1 => 120u16..=300]
}

fn arb_bop() -> impl Strategy<Value = BOp> {
    let lane = prop_oneof![3 => Just(0u8), 1 => Just(1u8)];
    prop_oneof![
        2 => (arb_small_cap(), arb_small_cap()).prop_map(|(in_cap, out_cap)| BOp::Attach { in_cap, out_cap }),
        8 => (any::<u16>(), lane.clone(), arb_burst_len()).prop_map(|(r, lane, n)| BOp::Cmds { r, lane, n }),
        1 => (any::<u16>(), lane).prop_map(|(r, lane)| BOp::Link { r, lane }),
        8 => (any::<u16>(), arb_nbytes()).prop_map(|(r, n)| BOp::Pump { r, n }),
        3 => any::<u16>().prop_map(|r| BOp::Pump { r, n: usize::MAX }),
        2 => (any::<u16>(), arb_nbytes()).prop_map(|(r, n)| BOp::Read { r, n }),
        6 => (1usize..8).prop_map(|k| BOp::Poll { k }),
        2 => Just(BOp::Poll { k: 100_000 }),
        1 => Just(BOp::Settle),
        1 => (1u64..200).prop_map(|ms| BOp::Advance { ms }),
        1 => any::<u16>().prop_map(|r| BOp::Drop { r }),
    ]
}

pub fn arb_case(max_ops: usize) -> impl Strategy<Value = BCase> {
    (
        arb_params(),
        arb_small_cap(),
        arb_small_cap(),
        proptest::collection::vec(arb_bop(), 2..max_ops),
    )
        .prop_map(|(params, c0, c1, ops)| {
            let mut all = vec![
                BOp::Attach { in_cap: c0, out_cap: 64 },
                BOp::Attach { in_cap: c1, out_cap: 64 },
            ];
            all.extend(ops);
            BCase { params, ops: all }
        })
}

struct RemoteObs {
    sent: Vec<(String, Req, u64, Option<u64>)>,
    in_cap: usize,
    dropped: bool,
    blocked_pumps: usize,
}

struct Obs {
    remotes: Vec<RemoteObs>,
    trace: Vec<(u64, Ev)>,
    result: Option<Result<(), String>>,
}

fn execute(case: &BCase) -> Obs {
    block_on_paused(case.params.seed, async {
        let clock = Arc::new(AtomicU64::new(1));
        let shared = Shared::new(clock.clone(), vec![], AgentFlags::default());
        let agent = make_agent(shared.clone());
        let mut sim = Sim::start(&agent, &case.params, clock, None);
        sim.run_until_idle();
        let mut in_caps: Vec<usize> = vec![];
        let mut dropped: Vec<bool> = vec![];
        let mut blocked: Vec<usize> = vec![];
        let mut next = 1i64;
        for op in &case.ops {
            let nrem = sim.remotes.len();
            let ridx = |r: u16| pick_index(r, nrem);
            match op {
                BOp::Attach { in_cap, out_cap } => {
                    if nrem < 4 {
                        sim.attach(*in_cap, *out_cap);
                        in_caps.push(*in_cap);
                        dropped.push(false);
                        blocked.push(0);
                    }
                }
                BOp::Cmds { r, lane, n } if nrem > 0 => {
                    let i = ridx(*r);
                    for _ in 0..*n {
                        let body = next.to_string().into_bytes();
                        next += 1;
                        sim.remotes[i].send(LANES[(*lane as usize) % 2], Req::Command(body));
                    }
                }
                BOp::Link { r, lane } if nrem > 0 => sim.remotes[ridx(*r)].send(LANES[(*lane as usize) % 2], Req::Link),
                BOp::Pump { r, n } if nrem > 0 => {
                    let i = ridx(*r);
                    let avail = sim.remotes[i].outbox_len();
                    let w = sim.remotes[i].pump(*n);
                    if w < avail.min(*n) && !dropped[i] && !sim.remotes[i].write_closed {
                        blocked[i] += 1;
                    }
                }
                BOp::Read { r, n } if nrem > 0 => {
                    sim.remotes[ridx(*r)].read(*n);
                }
                BOp::Poll { k } => {
                    sim.poll(*k);
                }
                BOp::Settle => {
                    crate::util::settle(&mut sim);
                }
                BOp::Advance { ms } => {
                    sim.advance(Duration::from_millis(*ms)).await;
                }
                BOp::Drop { r } if nrem > 2 => {
                    let i = ridx(*r);
                    if i > 0 {
                        sim.remotes[i].disconnect();
                        dropped[i] = true;
                    }
                }
                _ => {}
            }
        }
        crate::util::settle(&mut sim);
        Obs {
            remotes: sim
                .remotes
                .iter()
                .enumerate()
                .map(|(i, r)| RemoteObs {
                    sent: r.sent.clone(),
                    in_cap: in_caps[i],
                    dropped: dropped[i] || r.write_closed,
                    blocked_pumps: blocked[i],
                })
                .collect(),
            trace: shared.trace(),
            result: sim.result.clone(),
        }
    })
}

pub fn check(case: &BCase) -> Verdict {
    let obs = execute(case);
    if std::env::var("VERIF_DUMP").is_ok() {
        for (i, r) in obs.remotes.iter().enumerate() {
            eprintln!("remote {} in_cap {} dropped {} blocked {} sent {:?}", i, r.in_cap, r.dropped, r.blocked_pumps,
                r.sent.iter().map(|(l, q, a, b)| (l.as_str(), match q { Req::Command(b) => String::from_utf8_lossy(b).to_string(), o => format!("{:?}", o) }, *a, *b)).collect::<Vec<_>>());
        }
        eprintln!("trace {:?} result {:?}", obs.trace, obs.result);
    }
    let mut v = Verdict::new();
    if let Some(Err(e)) = &obs.result {
        v.fail("agent-failed", format!("the agent task ended with an error: {}", e));
    } else if obs.result.is_some() {
        v.fail("harness:agent-stopped", "the agent stopped although nothing asked it to".to_string());
    }
    let mut nontrivial = false;
    let mut interleaved = false;
    let mut total_handled = 0usize;
    for (li, lane) in LANES.iter().enumerate() {
        // owner of each value: (remote, position in that remote's sequence for this lane)
        let mut owner: HashMap<i64, (usize, usize)> = HashMap::new();
        let mut seqs: Vec<Vec<(i64, bool, u64)>> = vec![]; // per remote: (value, fully written, queued seq)
        for (ri, r) in obs.remotes.iter().enumerate() {
            let mut s = vec![];
            for (l, req, q, w) in &r.sent {
                if l == lane {
                    if let Req::Command(body) = req {
                        let val: i64 = std::str::from_utf8(body).unwrap().parse().unwrap();
                        owner.insert(val, (ri, s.len()));
                        s.push((val, w.is_some(), *q));
                    }
                }
            }
            seqs.push(s);
        }
        let handled: Vec<(u64, i64)> = obs
            .trace
            .iter()
            .filter_map(|(seq, ev)| match (li, ev) {
                (0, Ev::Command { v }) => Some((*seq, *v)),
                (1, Ev::ProgBegin { idx }) => Some((*seq, *idx as i64)),
                _ => None,
            })
            .collect();
        total_handled += handled.len();
        let mut next_pos: Vec<usize> = vec![0; obs.remotes.len()];
        let mut count: HashMap<i64, usize> = HashMap::new();
        let mut last_owner: Option<usize> = None;
        let mut switches = 0;
        for (seq, val) in &handled {
            let Some((ri, pos)) = owner.get(val).copied() else {
                v.fail("cmdlane-invented", format!("lane {}: the handler ran with {} which no remote sent to this lane", lane, val));
                continue;
            };
            if last_owner.is_some() && last_owner != Some(ri) {
                switches += 1;
            }
            last_owner = Some(ri);
            let c = count.entry(*val).or_default();
            *c += 1;
            if *c > 1 {
                v.fail("cmdlane-duplicate", format!("lane {}: the handler ran {} times for command {} of remote {}", lane, *c, val, ri));
                continue;
            }
            let (_, written, q) = seqs[ri][pos];
            if !written || *seq < q {
                v.fail("cmdlane-invented", format!("lane {}: command {} of remote {} was handled (seq {}) before it was completely written", lane, val, ri, seq));
            }
            if pos < next_pos[ri] {
                v.fail(
                    "cmdlane-reordered",
                    format!("lane {}: command {} (position {} of remote {}) was handled after position {}", lane, val, pos, ri, next_pos[ri] - 1),
                );
            } else {
                if pos > next_pos[ri] {
                    v.fail(
                        "cmdlane-gap",
                        format!(
                            "lane {}: remote {}: command {} (position {}) was handled but the {} commands before it ({:?}...) never were",
                            lane, ri, val, pos, pos - next_pos[ri], seqs[ri][next_pos[ri]].0
                        ),
                    );
                }
                next_pos[ri] = pos + 1;
            }
        }
        interleaved |= switches >= 2;
        for (ri, r) in obs.remotes.iter().enumerate() {
            let s = &seqs[ri];
            if !r.dropped && next_pos[ri] < s.len() {
                v.fail(
                    "cmdlane-lost",
                    format!(
                        "lane {}: remote {} sent {} commands, all written, the system is quiescent, but only the first {} were handled (first unhandled {})",
                        lane, ri, s.len(), next_pos[ri], s[next_pos[ri]].0
                    ),
                );
            }
            let frame = 32 + "/node".len() + lane.len() + 1;
            if r.blocked_pumps > 0 && s.len() * frame > r.in_cap && next_pos[ri] >= 2 {
                nontrivial = true;
            }
        }
    }
    if nontrivial {
        v.nontrivial();
    }
    v.class_if(nontrivial, "burst>cap-with-stalled-agent");
    v.class_if(interleaved, "remotes-interleaved");
    v.class_if(total_handled >= 100, "handled>=100");
    v.class_if(total_handled == 0, "nothing-handled");
    v.class_if(obs.remotes.iter().any(|r| r.dropped), "remote-dropped");
    v.class_if(obs.remotes.len() >= 3, "remotes>=3");
    v.class_if(
        obs.remotes.iter().any(|r| {
            let lanes: Vec<&str> = r.sent.iter().filter(|s| matches!(s.1, Req::Command(_))).map(|s| s.0.as_str()).collect();
            lanes.windows(2).any(|w| w[0] != w[1])
        }),
        "lane-switch-in-burst",
    );
    v
}
