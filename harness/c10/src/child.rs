//! Mutated streams are decoded in a child process (one per worker thread, fed cases over a
//! pipe): a corrupt length can make a decoder ask the allocator for 2^61 bytes, which aborts
//! the process (not a catchable panic), and a decoder that spins can only be stopped from
//! outside. The child reports the verdict of each case; if it dies instead, the parent turns
//! that into a failure (`abort:` / `hang:`) and starts a new child.
use crate::fams::Fam;
use crate::oracle::{check_mut, describe_target, intern, MutCase};
use serde::{Deserialize, Serialize};
use std::cell::RefCell;
use std::io::{BufRead, BufReader, Write};
use std::os::unix::process::ExitStatusExt;
use std::process::{Child, ChildStdin, ChildStdout, Command, Stdio};
use vcommon::Verdict;

#[derive(Serialize, Deserialize)]
struct Req {
    fam: String,
    case: MutCase,
}

#[derive(Serialize, Deserialize, Default)]
struct Resp {
    failures: Vec<(String, String)>,
    nontrivial: bool,
    classes: Vec<String>,
}

/// Panic signatures carry the source location: make it independent of where the repository and
/// the cargo registry / toolchain live (the sensitivity runs build a scratch copy of the repo).
pub fn normalise_panic_sig(sig: &str) -> String {
    let Some(rest) = sig.strip_prefix("panic:") else {
        return sig.to_string();
    };
    let rest = if let Some(i) = rest.find("/repo/") {
        &rest[i + "/repo/".len()..]
    } else if let Some(i) = rest.find("/registry/src/") {
        let r = &rest[i + "/registry/src/".len()..];
        r.split_once('/').map(|(_, x)| x).unwrap_or(r)
    } else if rest.starts_with("/rustc/") {
        rest.find("/library/").map(|i| &rest[i + 1..]).unwrap_or(rest)
    } else {
        rest
    };
    format!("panic:{}", rest)
}

/// Run an oracle, turning a panic of the code under test into a failure with a normalised signature.
pub fn guarded_verdict(f: impl FnOnce() -> Verdict) -> Verdict {
    match vcommon::guarded(f) {
        Ok(v) => v,
        Err(fl) => {
            let mut v = Verdict::new();
            v.fail(normalise_panic_sig(&fl.sig), fl.detail);
            v.class("out:panic");
            v.nontrivial();
            v
        }
    }
}

/// CPU seconds one case may burn in the child before it is killed (SIGVTALRM) and reported as a hang.
const CPU_LIMIT_S: i64 = 20;

fn arm(seconds: i64) {
    let t = libc::itimerval {
        it_interval: libc::timeval { tv_sec: 0, tv_usec: 0 },
        it_value: libc::timeval { tv_sec: seconds, tv_usec: 0 },
    };
    unsafe {
        libc::setitimer(libc::ITIMER_VIRTUAL, &t, std::ptr::null_mut());
    }
}

pub fn child_main(fams: &[Fam]) -> ! {
    let stdin = std::io::stdin();
    let stdout = std::io::stdout();
    let mut line = String::new();
    loop {
        line.clear();
        match stdin.lock().read_line(&mut line) {
            Ok(0) | Err(_) => std::process::exit(0),
            Ok(_) => {}
        }
        let req: Req = match serde_json::from_str(&line) {
            Ok(r) => r,
            Err(e) => {
                eprintln!("c10 child: bad request: {}", e);
                std::process::exit(3);
            }
        };
        let fam = fams.iter().find(|f| f.name == req.fam).expect("harness: unknown family");
        arm(CPU_LIMIT_S);
        let res = vcommon::guarded(|| check_mut(fam, &req.case));
        arm(0);
        let resp = match res {
            Ok(v) => Resp {
                failures: v.failures.into_iter().map(|f| (f.sig, f.detail)).collect(),
                nontrivial: v.nontrivial,
                classes: v.classes.iter().map(|c| c.to_string()).collect(),
            },
            Err(f) => Resp { failures: vec![(normalise_panic_sig(&f.sig), f.detail)], nontrivial: true, classes: vec!["out:panic".into()] },
        };
        let mut out = stdout.lock();
        serde_json::to_writer(&mut out, &resp).unwrap();
        out.write_all(b"\n").unwrap();
        out.flush().unwrap();
    }
}

struct Handle {
    child: Child,
    stdin: ChildStdin,
    stdout: BufReader<ChildStdout>,
}

thread_local! {
    static CHILD: RefCell<Option<Handle>> = const { RefCell::new(None) };
}

fn spawn() -> Handle {
    let exe = std::env::current_exe().expect("harness: current_exe");
    let mut child = Command::new(exe)
        .arg("--child")
        .stdin(Stdio::piped())
        .stdout(Stdio::piped())
        .stderr(Stdio::null())
        .spawn()
        .expect("harness: cannot spawn child process");
    let stdin = child.stdin.take().unwrap();
    let stdout = BufReader::new(child.stdout.take().unwrap());
    Handle { child, stdin, stdout }
}

pub fn run_mut(fam: &Fam, case: &MutCase) -> Verdict {
    if std::env::var("C10_INPROC").is_ok() {
        return guarded_verdict(|| check_mut(fam, case));
    }
    let req = serde_json::to_string(&Req { fam: fam.name.to_string(), case: case.clone() }).unwrap();
    CHILD.with(|slot| {
        let mut slot = slot.borrow_mut();
        let h = slot.get_or_insert_with(spawn);
        let mut line = String::new();
        let ok = h.stdin.write_all(req.as_bytes()).is_ok()
            && h.stdin.write_all(b"\n").is_ok()
            && h.stdin.flush().is_ok()
            && matches!(h.stdout.read_line(&mut line), Ok(n) if n > 0);
        let mut v = Verdict::new();
        if ok {
            let resp: Resp = serde_json::from_str(&line).expect("harness: bad response from child");
            for (sig, detail) in resp.failures {
                v.fail(sig, detail);
            }
            if resp.nontrivial {
                v.nontrivial();
            }
            for c in resp.classes {
                v.class(intern(c));
            }
        } else {
            let mut h = slot.take().unwrap();
            drop(h.stdin);
            let status = h.child.wait().ok();
            let signal = status.and_then(|s| s.signal());
            let (target, class, desc) = describe_target(fam, case);
            let (law, what) = match signal {
                Some(libc::SIGVTALRM) => ("hang", format!("used more than {} s of CPU on one case", CPU_LIMIT_S)),
                Some(libc::SIGABRT) => ("abort", "aborted (SIGABRT: failed allocation / abort)".to_string()),
                Some(s) => ("abort", format!("was killed by signal {}", s)),
                None => ("abort", format!("exited unexpectedly ({:?})", status)),
            };
            v.fail(
                format!("{}:{}", law, fam.name),
                format!("the process decoding the mutated stream {} [mutation hit {}: {}]", what, target, desc),
            );
            v.class("out:process-died");
            v.class(class);
            v.class(intern(format!("target:{}", target)));
            v.nontrivial();
        }
        v
    })
}
