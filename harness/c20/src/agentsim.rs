//! C20 (2): the real agent (`vsim::agent::SimAgent`) inside the real runtime with `NodeReporting`
//! enabled. A case is a list of phases; every phase ends with `settle()` (quiescence) and a checkpoint
//! that snapshots every lane reader and the aggregate reader.
//!
//! What the counters count (read from the code, `agent/task/mod.rs`):
//! * `link_count(lane)` = `Links.forward[lane].remotes.len()`, aggregate = `Links.total_count`;
//! * `event_count`: `handle_event` calls `count_single` for every *targeted* lane response (each sync
//!   event and each `Synced` marker: +1) and `count_broadcast` for every standard event (+ the number
//!   of remotes linked to the lane at that moment), BEFORE backpressure relief: an event that is later
//!   coalesced away in the remote's queue was still counted;
//! * `command_count`: +1 on the lane and +1 on the aggregate for every command envelope the read
//!   task dispatches to a lane that exists.

use proptest::prelude::*;
use serde::{Deserialize, Serialize};
use std::collections::BTreeMap;
use std::sync::atomic::AtomicU64;
use std::sync::Arc;
use swimos_runtime::agent::reporting::{UplinkReportReader, UplinkReporter};
use swimos_runtime::agent::{NodeReporting, UplinkReporterRegistration};
use tokio::sync::mpsc;
use uuid::Uuid;
use vcommon::Verdict;
use vsim::agent::{make_agent, Act, AgentFlags, Ev, Shared};
use vsim::{apply_op, arb_sched_op, arb_small_cap, block_on_paused, FrameKind, Op, Req, Sim, SimParams};

/// Lanes addressed by the ops; index 6 is a lane that does not exist.
const LANES: [&str; 7] = ["v0", "v1", "m0", "sup", "cmd", "ctl", "ghost"];
const NREAL: usize = 6;
const ALL_AGENT_LANES: [&str; 9] = ["v0", "v1", "vt", "m0", "m1", "mt", "sup", "cmd", "ctl"];
/// Laws that fail on a lane whose `forward` entry (with its reporter) may have been deleted by
/// `remove_remote` share one signature (DESIGN §7-10).
const KNOWN_SIG: &str = "sim:reporter-dropped-by-remove_remote";

fn sig(base: &str, known: bool) -> String {
    if known {
        KNOWN_SIG.to_string()
    } else {
        base.to_string()
    }
}

#[derive(Clone, Copy, Debug, PartialEq, Eq, Serialize, Deserialize)]
pub enum PhaseKind {
    /// link / sync / unlink only (no lane mutation): targeted responses are exactly predictable
    Links,
    /// commands and programs only (the link relation is fixed): fan-out is exactly known
    Events,
    /// anything, including remote drops, pruning, unknown lanes, stop
    Mixed,
}

#[derive(Clone, Debug, Serialize, Deserialize)]
pub struct Phase {
    pub kind: PhaseKind,
    pub ops: Vec<Op>,
}

#[derive(Clone, Debug, Serialize, Deserialize)]
pub struct Case {
    pub params: SimParams,
    pub programs: Vec<Vec<Act>>,
    pub phases: Vec<Phase>,
}

fn arb_act() -> impl Strategy<Value = Act> {
    prop_oneof![
        3 => (0u8..2).prop_map(|lane| Act::SetV { lane, v: 0 }),
        3 => (0i32..4).prop_map(|k| Act::Upd { map: 0, k, v: 0 }),
        1 => (0i32..4).prop_map(|k| Act::Rem { map: 0, k }),
        1 => Just(Act::Clr { map: 0 }),
        5 => Just(Act::Supply { v: 0 }),
    ]
}

fn arb_link_op() -> impl Strategy<Value = Op> {
    prop_oneof![
        6 => (any::<u16>(), 0u8..NREAL as u8).prop_map(|(r, lane)| Op::Link { r, lane }),
        // sync only lanes that answer a sync (command lanes do not)
        4 => (any::<u16>(), 0u8..4).prop_map(|(r, lane)| Op::Sync { r, lane }),
        3 => (any::<u16>(), 0u8..NREAL as u8).prop_map(|(r, lane)| Op::Unlink { r, lane }),
        6 => arb_sched_op(),
    ]
}

/// Command bodies for the map lane that are not map messages: the runtime rejects them before they
/// reach the lane (`extract_header` fails, `BadEnvelope`). They were nevertheless RECEIVED for the
/// lane: lane counter and aggregate must both count them.
const MALFORMED_MAP: [&str; 9] = ["garbage", "", "5", "@unknown(key:1) 2", "@update(key:", "@update", "{a:1}", "@remove", "@update(key:1"];
/// Bodies the runtime forwards but the lane cannot decode (the agent task fails with a user-code
/// error and the agent stops): (lane index, body).
const ILL_TYPED: [(u8, &str); 7] = [
    (0, "not_a_number"),
    (1, "@@@"),
    (4, "\"text\""),
    (5, "x"),
    (2, "@update(key:notint) 5"),
    (2, "@update(key:1) text"),
    (2, "@remove(key:{a:1})"),
];

/// Does the runtime accept the body as a map message (and forward it to the lane)?
pub fn is_map_message(body: &str) -> bool {
    swimos_agent_protocol::peeling::extract_header(&bytes::Bytes::copy_from_slice(body.as_bytes())).is_ok()
}

/// A map message the lane `MapLane<i32, i64>` can decode.
fn well_typed_map_message(body: &str) -> bool {
    let int = |s: &str| s.trim().parse::<i64>().is_ok();
    if body == "@clear" {
        return true;
    }
    if let Some(rest) = body.strip_prefix("@remove(key:") {
        return rest.strip_suffix(')').map(int).unwrap_or(false);
    }
    if let Some(rest) = body.strip_prefix("@update(key:") {
        return rest.split_once(") ").map(|(k, v)| int(k) && int(v)).unwrap_or(false);
    }
    false
}

fn arb_event_op(nprogs: usize) -> impl Strategy<Value = Op> {
    prop_oneof![
        3 => (any::<u16>(), 0usize..MALFORMED_MAP.len()).prop_map(|(r, i)| Op::Cmd { r, lane: 2, body: MALFORMED_MAP[i].to_string() }),
        4 => (any::<u16>(), 0u8..2).prop_map(|(r, lane)| Op::Cmd { r, lane, body: String::new() }),
        3 => (any::<u16>(), 0i32..4).prop_map(|(r, k)| Op::Cmd { r, lane: 2, body: format!("@update(key:{}) #", k) }),
        1 => (any::<u16>(), 0i32..4).prop_map(|(r, k)| Op::Cmd { r, lane: 2, body: format!("@remove(key:{})", k) }),
        1 => any::<u16>().prop_map(|r| Op::Cmd { r, lane: 2, body: "@clear".to_string() }),
        2 => any::<u16>().prop_map(|r| Op::Cmd { r, lane: 4, body: String::new() }),
        4 => (any::<u16>(), 0..nprogs.max(1)).prop_map(|(r, p)| Op::Cmd { r, lane: 5, body: p.to_string() }),
        6 => arb_sched_op(),
    ]
}

fn arb_mixed_op(nprogs: usize) -> impl Strategy<Value = Op> {
    prop_oneof![
        8 => arb_link_op(),
        8 => arb_event_op(nprogs),
        1 => (arb_small_cap(), arb_small_cap()).prop_map(|(in_cap, out_cap)| Op::Attach { in_cap, out_cap }),
        2 => any::<u16>().prop_map(|r| Op::Drop { r }),
        // long enough to prune a remote without links (prune delay 200 ms in half of the cases)
        1 => Just(Op::Advance { ms: 400 }),
        1 => (any::<u16>(), 0usize..ILL_TYPED.len()).prop_map(|(r, i)| Op::Cmd { r, lane: ILL_TYPED[i].0, body: ILL_TYPED[i].1.to_string() }),
        2 => (any::<u16>(), prop_oneof![Just(0u8), Just(2), Just(3)]).prop_map(|(r, kind)| match kind {
            0 => Op::Link { r, lane: 6 },
            2 => Op::Sync { r, lane: 6 },
            _ => Op::Cmd { r, lane: 6, body: "1".into() },
        }),
    ]
}

fn arb_phase(nprogs: usize, max_ops: usize) -> impl Strategy<Value = Phase> {
    prop_oneof![
        3 => proptest::collection::vec(arb_link_op(), 1..max_ops).prop_map(|ops| Phase { kind: PhaseKind::Links, ops }),
        3 => proptest::collection::vec(arb_event_op(nprogs), 1..max_ops).prop_map(|ops| Phase { kind: PhaseKind::Events, ops }),
        2 => proptest::collection::vec(arb_mixed_op(nprogs), 1..max_ops).prop_map(|ops| Phase { kind: PhaseKind::Mixed, ops }),
    ]
}

pub fn arb_case(max_phases: usize, max_ops: usize) -> impl Strategy<Value = Case> {
    let progs = proptest::collection::vec(proptest::collection::vec(arb_act(), 1..6), 1..4);
    (
        any::<u64>(),
        prop_oneof![Just(2usize), Just(8), Just(64)],
        prop_oneof![1 => Just(200u64), 3 => Just(30_000u64)],
        progs,
        any::<bool>(),
    )
        .prop_flat_map(move |(seed, budget, prune, programs, stop_at_end)| {
            let n = programs.len();
            (
                Just((seed, budget, prune, programs, stop_at_end)),
                proptest::collection::vec((arb_small_cap(), arb_small_cap()), 1..4),
                proptest::collection::vec(arb_phase(n, max_ops), 1..max_phases),
            )
        })
        .prop_map(|((seed, budget, prune, mut programs, stop_at_end), attach, mut phases)| {
            let mut next = 1i64;
            for p in programs.iter_mut() {
                for a in p.iter_mut() {
                    match a {
                        Act::SetV { v, .. } | Act::Upd { v, .. } | Act::Supply { v } => {
                            *v = 1_000_000 + next;
                            next += 1;
                        }
                        _ => {}
                    }
                }
            }
            for ph in phases.iter_mut() {
                for op in ph.ops.iter_mut() {
                    if let Op::Cmd { lane, body, .. } = op {
                        if *lane < 2 || *lane == 4 {
                            *body = next.to_string();
                            next += 1;
                        } else if *lane == 2 && body.ends_with('#') {
                            body.pop();
                            body.push_str(&next.to_string());
                            next += 1;
                        }
                    }
                }
            }
            // the first phase attaches the initial remotes (request channels are roomy: the property
            // is about counting, not about request backpressure)
            let mut first = Phase { kind: PhaseKind::Links, ops: vec![] };
            for (in_cap, out_cap) in attach {
                first.ops.push(Op::Attach { in_cap: in_cap.max(64), out_cap });
            }
            let mut all = vec![first];
            all.extend(phases);
            if stop_at_end {
                all.push(Phase { kind: PhaseKind::Mixed, ops: vec![Op::Stop] });
            }
            Case {
                params: SimParams {
                    seed,
                    budget,
                    prune_remote_delay_ms: prune,
                    inactive_timeout_ms: 10_000_000,
                    shutdown_timeout_ms: 10_000_000,
                    ..SimParams::default()
                },
                programs,
                phases: all,
            }
        })
}

#[derive(Default, Clone, Copy, Debug)]
struct Counts {
    links: u64,
    events: u64,
    commands: u64,
}

struct Checkpoint {
    phase: usize,
    kind: PhaseKind,
    /// clock value when the phase started / at the checkpoint
    from: u64,
    to: u64,
    lanes: BTreeMap<String, Option<Counts>>,
    agg: Option<Counts>,
    done: bool,
    /// per remote: harness dropped it / its completion promise has fired
    dropped: Vec<bool>,
    completed: Vec<bool>,
    nframes: Vec<usize>,
    nsent: Vec<usize>,
}

struct Obs {
    checkpoints: Vec<Checkpoint>,
    remotes: Vec<(Vec<vsim::Frame>, Vec<(String, Req, u64, Option<u64>)>)>,
    trace: Vec<(u64, Ev)>,
    result: Option<Result<(), String>>,
    registered: Vec<String>,
}

fn snap(r: &UplinkReportReader) -> Option<Counts> {
    r.snapshot().map(|s| Counts {
        links: s.link_count,
        events: s.event_count,
        commands: s.command_count,
    })
}

fn execute(case: &Case) -> Obs {
    block_on_paused(case.params.seed, async {
        let clock = Arc::new(AtomicU64::new(1));
        let shared = Shared::new(clock.clone(), case.programs.clone(), AgentFlags::default());
        let agent = make_agent(shared.clone());
        let agg = UplinkReporter::default();
        let agg_reader = agg.reader();
        let (reg_tx, mut reg_rx) = mpsc::channel::<UplinkReporterRegistration>(64);
        let reporting = NodeReporting::new(Uuid::from_u128(0xA6E47), agg, reg_tx);
        let mut sim = Sim::start(&agent, &case.params, clock, Some(reporting));
        sim.run_until_idle();
        let mut readers: BTreeMap<String, UplinkReportReader> = BTreeMap::new();
        let mut registered = vec![];
        while let Ok(reg) = reg_rx.try_recv() {
            registered.push(reg.lane_name.to_string());
            readers.insert(reg.lane_name.to_string(), reg.reader);
        }
        let mut checkpoints = vec![];
        let mut dropped: Vec<bool> = vec![];
        let mut completed: Vec<bool> = vec![];
        for (pi, phase) in case.phases.iter().enumerate() {
            let from = sim.now();
            for op in &phase.ops {
                if let Op::Drop { r } = op {
                    if !sim.remotes.is_empty() {
                        let idx = vcommon::pick_index(*r, sim.remotes.len());
                        while dropped.len() < sim.remotes.len() {
                            dropped.push(false);
                        }
                        dropped[idx] = true;
                    }
                }
                apply_op(&mut sim, &LANES, op).await;
            }
            sim.settle();
            if std::env::var("VERIF_DUMP2").is_ok() {
                eprintln!("after phase {}: frames {:?} partial {:?} outbox {:?} woken {} polls {} pending_att {}", pi, sim.remotes.iter().map(|r| r.frames.len()).collect::<Vec<_>>(), sim.remotes.iter().map(|r| r.partial_bytes()).collect::<Vec<_>>(), sim.remotes.iter().map(|r| r.outbox_len()).collect::<Vec<_>>(), sim.is_woken(), sim.polls, sim.pending_attachments());
            }
            while dropped.len() < sim.remotes.len() {
                dropped.push(false);
            }
            completed.resize(sim.remotes.len(), false);
            for (i, r) in sim.remotes.iter_mut().enumerate() {
                if !completed[i] && r.disconnection_reason().is_some() {
                    completed[i] = true;
                }
            }
            let done = sim.is_done();
            let lanes = readers.iter().map(|(n, r)| (n.clone(), snap(r))).collect();
            checkpoints.push(Checkpoint {
                phase: pi,
                kind: phase.kind,
                from,
                to: sim.now(),
                lanes,
                agg: snap(&agg_reader),
                done,
                dropped: dropped.clone(),
                completed: completed.clone(),
                nframes: sim.remotes.iter().map(|r| r.frames.len()).collect(),
                nsent: sim.remotes.iter().map(|r| r.sent.len()).collect(),
            });
            if done {
                break;
            }
        }
        Obs {
            checkpoints,
            remotes: sim.remotes.iter().map(|r| (r.frames.clone(), r.sent.clone())).collect(),
            trace: shared.trace(),
            result: sim.result.clone(),
            registered,
        }
    })
}

fn lane_index(name: &str) -> Option<usize> {
    LANES[..NREAL].iter().position(|l| *l == name)
}

pub fn check(case: &Case) -> Verdict {
    let obs = execute(case);
    let mut v = Verdict::new();
    if std::env::var("VERIF_DUMP").is_ok() {
        for (i, (frames, sent)) in obs.remotes.iter().enumerate() {
            eprintln!("remote {} sent {:?}", i, sent);
            for f in frames {
                eprintln!("remote {} frame {} {} {:?}", i, f.seq, f.lane, f.kind);
            }
        }
        for c in &obs.checkpoints {
            eprintln!("checkpoint phase {} {:?} [{}..{}] done={} lanes={:?} agg={:?} dropped={:?} completed={:?}", c.phase, c.kind, c.from, c.to, c.done, c.lanes, c.agg, c.dropped, c.completed);
        }
        eprintln!("trace {:?}", obs.trace);
    }
    // commands the runtime forwards but the lane cannot decode make the agent task fail (by design:
    // `AgentTaskError::UserCodeError`); everything else must leave it running
    let mut malformed_map = 0usize;
    let mut ill_typed = 0usize;
    for (_, sent) in &obs.remotes {
        for (lane, req, _, w) in sent {
            if let (Req::Command(body), true) = (req, w.is_some()) {
                let text = String::from_utf8_lossy(body).to_string();
                match lane.as_str() {
                    "m0" => {
                        if !is_map_message(&text) {
                            malformed_map += 1;
                        } else if !well_typed_map_message(&text) {
                            ill_typed += 1;
                        }
                    }
                    "v0" | "v1" | "cmd" | "ctl" => {
                        if text.trim().parse::<i64>().is_err() {
                            ill_typed += 1;
                        }
                    }
                    _ => {}
                }
            }
        }
    }
    if let Some(Err(e)) = &obs.result {
        if ill_typed == 0 {
            v.fail("sim:agent-failed", format!("the agent task ended with an error: {}", e));
        }
    }
    for l in ALL_AGENT_LANES {
        if !obs.registered.iter().any(|r| r == l) {
            v.fail("sim:lane-not-registered", format!("lane {} was never registered for reporting", l));
        }
    }

    // size of m0 over time, from the agent-side trace
    let m0_size_at = |seq: u64| -> usize {
        let mut keys = std::collections::BTreeSet::new();
        for (s, ev) in &obs.trace {
            if *s >= seq {
                break;
            }
            match ev {
                Ev::Update { map: 0, k, .. } => {
                    keys.insert(format!("{:?}", k));
                }
                Ev::Remove { map: 0, k, .. } => {
                    keys.remove(&format!("{:?}", k));
                }
                Ev::Clear { map: 0, .. } => keys.clear(),
                _ => {}
            }
        }
        keys.len()
    };

    let mut any_mixed = false;
    let mut nt = false;
    let mut relink_after_removal = false;
    let mut exact_phases = 0;
    // lanes whose forward entry may have been deleted by remove_remote (known defect attribution):
    // a remote that was removed by the runtime after the harness dropped it had asked to link/sync it
    let mut tainted = vec![false; NREAL];
    // lanes for which a link to a remote the runtime had already removed was observed (second known
    // defect): the phantom link also inflates every later broadcast count of that lane
    let mut phantom_lane = vec![false; NREAL];
    const PHANTOM_SIG: &str = "sim:link-count-includes-removed-remote";
    let mut prev_frames: Vec<usize> = vec![];
    let mut prev_sent: Vec<usize> = vec![];
    for c in &obs.checkpoints {
        if c.kind == PhaseKind::Mixed {
            any_mixed = true;
        }
        let nrem = c.nframes.len();
        prev_frames.resize(nrem, 0);
        prev_sent.resize(nrem, 0);
        if c.done {
            break;
        }
        let exact = !any_mixed && c.dropped.iter().all(|d| !d);
        if exact {
            exact_phases += 1;
        }
        for ri in 0..nrem {
            if c.dropped[ri] && c.completed[ri] {
                for (lane, req, _, _) in &obs.remotes[ri].1[..c.nsent[ri]] {
                    if matches!(req, Req::Link | Req::Sync) {
                        if let Some(li) = lane_index(lane) {
                            if !tainted[li] {
                                tainted[li] = true;
                            }
                        }
                    }
                }
            }
        }
        // ---- link counts
        let mut lo_total = 0u64;
        let mut hi_total = 0u64;
        let mut sum_reported = 0u64;
        let mut fanout = vec![0u64; NREAL];
        for (name, counts) in &c.lanes {
            let li = lane_index(name);
            let known = li.map(|i| tainted[i]).unwrap_or(false);
            let Some(counts) = counts else {
                v.fail(
                    sig("sim:lane-reader-dead", known),
                    format!("phase {}: the agent is running but the reader of lane {} is invalid", c.phase, name),
                );
                continue;
            };
            sum_reported += counts.links;
            let (mut lo, mut hi) = (0u64, 0u64);
            if li.is_some() {
                for ri in 0..nrem {
                    let frames = &obs.remotes[ri].0[..c.nframes[ri]];
                    let mut open = false;
                    for f in frames.iter().filter(|f| f.lane == *name) {
                        match f.kind {
                            FrameKind::Linked => open = true,
                            FrameKind::Unlinked(_) => open = false,
                            _ => {}
                        }
                    }
                    if c.completed[ri] {
                        // the runtime has removed this remote: it is linked to nothing
                    } else if c.dropped[ri] {
                        let asked = obs.remotes[ri].1[..c.nsent[ri]]
                            .iter()
                            .any(|(l, req, _, _)| l == name && matches!(req, Req::Link | Req::Sync));
                        if asked || open {
                            hi += 1;
                        }
                    } else if open {
                        lo += 1;
                        hi += 1;
                    }
                }
            }
            if let Some(i) = li {
                fanout[i] = lo;
            }
            lo_total += lo;
            hi_total += hi;
            if counts.links < lo || counts.links > hi {
                let phantom = counts.links > hi && c.completed.iter().any(|x| *x);
                if phantom {
                    if let Some(i) = li {
                        phantom_lane[i] = true;
                    }
                }
                let sig = if phantom {
                    "sim:link-count-includes-removed-remote".to_string()
                } else {
                    sig("sim:lane-link-count", known)
                };
                v.fail(
                    sig,
                    format!(
                        "phase {} ({:?}) at quiescence: lane {} reports link_count {} but by the frames the remotes received {}..={} remotes are linked to it (dropped={:?} removed-by-runtime={:?})",
                        c.phase, c.kind, name, counts.links, lo, hi, c.dropped, c.completed
                    ),
                );
            }
        }
        if let Some(agg) = &c.agg {
            if agg.links < lo_total || agg.links > hi_total {
                let phantom = agg.links > hi_total && c.completed.iter().any(|x| *x);
                v.fail(
                    if phantom {
                        "sim:link-count-includes-removed-remote".to_string()
                    } else {
                        "sim:agg-link-count".to_string()
                    },
                    format!(
                        "phase {} at quiescence: the aggregate reports link_count {} but {}..={} links exist by the frames received (lanes report {} in total)",
                        c.phase, agg.links, lo_total, hi_total, sum_reported
                    ),
                );
            }
        } else {
            v.fail("sim:agg-reader-dead", format!("phase {}: aggregate reader invalid while the agent runs", c.phase));
        }

        // ---- commands: exact at every quiescent checkpoint
        let mut cmd_total = 0u64;
        for (name, counts) in &c.lanes {
            let Some(counts) = counts else { continue };
            let mut expect = 0u64;
            for ri in 0..nrem {
                for (lane, req, _q, w) in &obs.remotes[ri].1[prev_sent[ri]..c.nsent[ri]] {
                    if lane == name && matches!(req, Req::Command(_)) && w.is_some() {
                        expect += 1;
                    }
                }
            }
            // requests queued in an earlier phase are all written by that phase's settle, except by
            // dropped remotes (never written)
            cmd_total += expect;
            if counts.commands != expect {
                v.fail(
                    "sim:lane-command-count",
                    format!("phase {}: lane {} reports {} commands, {} command envelopes were delivered to it in this phase", c.phase, name, counts.commands, expect),
                );
            }
        }
        if let Some(agg) = &c.agg {
            if agg.commands != cmd_total {
                v.fail(
                    "sim:agg-command-count",
                    format!("phase {}: the aggregate reports {} commands, {} command envelopes were delivered to existing lanes in this phase", c.phase, agg.commands, cmd_total),
                );
            }
        }

        // ---- events
        let mut ev_total = 0u64;
        for (name, counts) in &c.lanes {
            let Some(counts) = counts else { continue };
            ev_total += counts.events;
            let Some(li) = lane_index(name) else {
                if counts.events != 0 {
                    v.fail("sim:lane-event-count", format!("phase {}: lane {} (never linked) reports {} events", c.phase, name, counts.events));
                }
                continue;
            };
            let known = tainted[li];
            let sig = |base: &str, known: bool| -> String {
                if phantom_lane[li] {
                    PHANTOM_SIG.to_string()
                } else {
                    sig(base, known)
                }
            };
            // every event / synced frame a remote received in this phase was counted when it was
            // handed to the remote's queue
            let mut delivered = 0u64;
            let mut max_per_remote = 0u64;
            for ri in 0..nrem {
                let mut mine = 0u64;
                for f in &obs.remotes[ri].0[prev_frames[ri]..c.nframes[ri]] {
                    if f.lane == *name {
                        match f.kind {
                            FrameKind::Event(_) => {
                                delivered += 1;
                                mine += 1;
                            }
                            FrameKind::Synced => delivered += 1,
                            _ => {}
                        }
                    }
                }
                max_per_remote = max_per_remote.max(mine);
            }
            if counts.events < delivered {
                v.fail(
                    sig("sim:lane-event-count:fewer-than-delivered", known),
                    format!("phase {} ({:?}): lane {} reports {} events but {} event/synced frames of that lane were delivered to remotes in this phase", c.phase, c.kind, name, counts.events, delivered),
                );
            }
            // upper bound on the standard events the lane can have produced in this phase
            let in_phase = |s: &u64| *s >= c.from && *s < c.to;
            let produced_max: u64 = match li {
                0 | 1 => obs.trace.iter().filter(|(s, e)| in_phase(s) && matches!(e, Ev::Value { lane, .. } if *lane as usize == li)).count() as u64,
                2 => obs.trace.iter().filter(|(s, e)| in_phase(s) && matches!(e, Ev::Update { map: 0, .. } | Ev::Remove { map: 0, .. } | Ev::Clear { map: 0, .. })).count() as u64,
                3 => supplies_in(&obs.trace, &case.programs, c.from, c.to),
                4 => obs.trace.iter().filter(|(s, e)| in_phase(s) && matches!(e, Ev::Command { .. })).count() as u64,
                _ => obs.trace.iter().filter(|(s, e)| in_phase(s) && matches!(e, Ev::ProgBegin { .. })).count() as u64,
            };
            if exact {
                match c.kind {
                    PhaseKind::Links => {
                        // only targeted responses: value 2 per sync, map entries+1, supply 1. A sync of a
                        // remote the runtime has removed (pruned) by the end of the phase may or may not
                        // have been answered while it was still attached: such answers go to no link.
                        let mut expect = 0u64;
                        let mut expect_hi = 0u64;
                        for ri in 0..nrem {
                            for (lane, req, _, w) in &obs.remotes[ri].1[prev_sent[ri]..c.nsent[ri]] {
                                if lane == name && matches!(req, Req::Sync) && w.is_some() {
                                    let k = match li {
                                        0 | 1 => 2,
                                        2 => m0_size_at(c.from) as u64 + 1,
                                        3 => 1,
                                        _ => 0,
                                    };
                                    expect_hi += k;
                                    if !c.completed[ri] {
                                        expect += k;
                                    }
                                }
                            }
                        }
                        if li <= 3 && (counts.events < expect || counts.events > expect_hi) {
                            v.fail(
                                sig("sim:lane-event-count:sync-responses", known),
                                format!("phase {} (links only): lane {} reports {} events, the sync requests of this phase produce {}..={} targeted responses", c.phase, name, counts.events, expect, expect_hi),
                            );
                        }
                        if expect > 0 {
                            nt = true;
                        }
                    }
                    PhaseKind::Events => {
                        let n = fanout[li];
                        if n == 0 {
                            if counts.events != 0 {
                                v.fail(
                                    sig("sim:lane-event-count:no-links", known),
                                    format!("phase {} (events only): lane {} has no links but reports {} events", c.phase, name, counts.events),
                                );
                            }
                        } else {
                            let e = counts.events / n;
                            let ok_div = counts.events % n == 0;
                            let lo_e = if li == 3 { produced_max } else { max_per_remote };
                            if !ok_div || e < lo_e || e > produced_max {
                                v.fail(
                                    sig("sim:lane-event-count:broadcast", known),
                                    format!(
                                        "phase {} (events only, {} remotes linked throughout): lane {} reports {} events; it must be {} x E with {} <= E <= {} (E = standard events the lane produced)",
                                        c.phase, n, name, counts.events, n, lo_e, produced_max
                                    ),
                                );
                            }
                            if counts.events > 0 && n >= 2 {
                                nt = true;
                            }
                        }
                    }
                    PhaseKind::Mixed => {}
                }
            } else {
                // loose upper bound: every produced event to every attached remote, plus targeted
                let syncs: u64 = (0..nrem)
                    .map(|ri| obs.remotes[ri].1[..c.nsent[ri]].iter().filter(|(l, r, _, _)| l == name && matches!(r, Req::Sync)).count() as u64)
                    .sum();
                let upper = produced_max * nrem as u64 + syncs * 6;
                if counts.events > upper {
                    v.fail(
                        sig("sim:lane-event-count:more-than-possible", known),
                        format!("phase {}: lane {} reports {} events, at most {} can have been sent to links", c.phase, name, counts.events, upper),
                    );
                }
            }
        }
        if let Some(agg) = &c.agg {
            if agg.events != ev_total {
                let any_taint = tainted.iter().any(|t| *t);
                v.fail(
                    if phantom_lane.iter().any(|p| *p) { PHANTOM_SIG.to_string() } else { sig("sim:agg-event-count", any_taint) },
                    format!("phase {}: the aggregate reports {} events, the lanes report {} in total", c.phase, agg.events, ev_total),
                );
            }
        }
        for ri in 0..nrem {
            prev_frames[ri] = c.nframes[ri];
            prev_sent[ri] = c.nsent[ri];
        }
    }
    // non-trivial (DESIGN): a removal path other than a single unlink followed by a relink
    for (ri, (frames, sent)) in obs.remotes.iter().enumerate() {
        let _ = frames;
        let removed_at = obs.checkpoints.iter().find(|c| c.completed.get(ri).copied().unwrap_or(false)).map(|c| c.from);
        if let Some(t) = removed_at {
            if obs.remotes.iter().enumerate().any(|(rj, (fr, _))| rj != ri && fr.iter().any(|f| f.seq > t && f.kind == FrameKind::Linked)) {
                relink_after_removal = true;
            }
            let _ = sent;
        }
    }
    if nt || relink_after_removal {
        v.nontrivial();
    }
    v.class_if(relink_after_removal, "remote-removed-then-link");
    v.class_if(nt, "exact-event-accounting");
    v.class_if(exact_phases >= 2, "exact-phases>=2");
    v.class_if(any_mixed, "mixed-phase");
    v.class_if(malformed_map > 0, "malformed-map-command-delivered");
    v.class_if(ill_typed > 0, "ill-typed-command-delivered");
    v.class_if(matches!(&obs.result, Some(Err(_))), "agent-failed-on-ill-typed-command");
    v.class_if(obs.checkpoints.iter().any(|c| c.completed.iter().any(|x| *x)), "remote-removed-by-runtime");
    v.class_if(obs.checkpoints.last().map(|c| c.done).unwrap_or(false), "agent-stopped");
    v.class_if(tainted.iter().any(|t| *t), "lane-possibly-emptied-by-remove_remote");
    v
}

/// Number of `Supply` acts executed by programs that began in [from, to).
fn supplies_in(trace: &[(u64, Ev)], programs: &[Vec<Act>], from: u64, to: u64) -> u64 {
    let mut n = 0u64;
    for (s, ev) in trace {
        if *s < from || *s >= to {
            continue;
        }
        if let Ev::ProgBegin { idx } = ev {
            if let Some(p) = programs.get((*idx).max(0) as usize) {
                n += p.iter().filter(|a| matches!(a, Act::Supply { .. })).count() as u64;
            }
        }
    }
    n
}
