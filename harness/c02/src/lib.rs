//! Oracle, command rendering and case execution for the map lanes of `vsim::agent::SimAgent`,
//! shared by C02 (replica convergence) and C03 (sync snapshot).
//!
//! Ground truth is the agent-side trace (`on_update` / `on_remove` / `on_clear` lifecycle callbacks,
//! stamped with the global sequence counter that also stamps every frame a remote reads and every
//! request a remote finishes writing). All rules are invariants over these histories and therefore
//! independent of the schedule that produced them.

use proptest::prelude::*;
use serde::{Deserialize, Serialize};
use std::collections::{BTreeMap, BTreeSet, HashMap};
use std::sync::atomic::AtomicU64;
use std::sync::Arc;
use swimos_agent_protocol::MapOperation;
use swimos_recon::parser::parse_recognize;
use vcommon::Verdict;
use vsim::agent::{m1_key, make_agent, Act, AgentFlags, Ev, Key, Shared};
use vsim::{apply_op, block_on_paused, Frame, FrameKind, Op, Req, Sim, SimParams};

pub const MAP_LANES: [&str; 3] = ["m0", "m1", "mt"];

/// Keys of the `i32` keyed lanes (m0, mt). Numeric order and the order of the decimal strings differ
/// (-1 < 0 < 2 < 3 < 10 < 25 but "-1" < "0" < "10" < "2" < "25" < "3").
pub const KEYS_I: [i32; 6] = [-1, 0, 2, 3, 10, 25];

#[derive(Clone, Debug, PartialEq, Eq, PartialOrd, Ord, Hash, Serialize, Deserialize)]
pub enum MKey {
    I(i32),
    S(String),
}

impl From<&Key> for MKey {
    fn from(k: &Key) -> Self {
        match k {
            Key::I(i) => MKey::I(*i),
            Key::S(s) => MKey::S(s.clone()),
        }
    }
}

impl MKey {
    /// The Recon model of the key (what `drop_or_take` is documented to order by).
    pub fn value(&self) -> swimos_model::Value {
        match self {
            MKey::I(i) => swimos_model::Value::Int32Value(*i),
            MKey::S(s) => swimos_model::Value::text(s.as_str()),
        }
    }
}

/// Key number `idx` (0..6) of map lane `li` (0 = m0, 1 = m1, 2 = mt).
pub fn key_of(li: usize, idx: usize) -> MKey {
    if li == 1 {
        MKey::S(m1_key(idx as i32))
    } else {
        MKey::I(KEYS_I[idx % 6])
    }
}

/// The `k` argument of `Act::{Upd,Rem}` that addresses key number `idx` of map `li`.
pub fn act_key(li: usize, idx: usize) -> i32 {
    if li == 1 {
        idx as i32
    } else {
        KEYS_I[idx % 6]
    }
}

/// Recon spellings of key number `idx` of lane `li`; all spellings of one key parse to the same key.
pub fn key_spellings(li: usize, idx: usize) -> Vec<String> {
    if li == 1 {
        match idx % 6 {
            0 => vec!["a".into(), "\"a\"".into(), "\"\\u0061\"".into()],
            1 => vec!["b".into(), "\"b\"".into()],
            2 => vec!["\"true\"".into(), "\"tr\\u0075e\"".into()],
            3 => vec!["\"with space\"".into(), "\"with\\u0020space\"".into()],
            4 => vec!["\"\"".into()],
            _ => vec!["\"q\\\"uote\"".into(), "\"q\\u0022uote\"".into()],
        }
    } else {
        let k = KEYS_I[idx % 6];
        vec![format!("{}", k), format!(" {}", k), format!("{} ", k)]
    }
}

/// A mutation of a map lane sent as a command envelope.
#[derive(Clone, Debug, PartialEq, Eq, Serialize, Deserialize)]
pub enum MapCmd {
    Update { key: usize, spelling: u16, v: i64 },
    Remove { key: usize, spelling: u16 },
    Clear,
    Take(u64),
    Drop(u64),
}

/// The Recon body of the command envelope (the form `MapMessage` is documented / tested to have:
/// `@update(key:k) v`, `@remove(key:k)`, `@clear`, `@take(n)`, `@drop(n)`).
pub fn render_cmd(li: usize, cmd: &MapCmd) -> String {
    let spell = |key: usize, s: u16| {
        let sp = key_spellings(li, key);
        sp[vcommon::pick_index(s, sp.len())].clone()
    };
    match cmd {
        MapCmd::Update { key, spelling, v } => format!("@update(key:{}) {}", spell(*key, *spelling), v),
        MapCmd::Remove { key, spelling } => format!("@remove(key:{})", spell(*key, *spelling)),
        MapCmd::Clear => "@clear".to_string(),
        MapCmd::Take(n) => format!("@take({})", n),
        MapCmd::Drop(n) => format!("@drop({})", n),
    }
}

/// Attach a remote: the request channel (remote -> agent) is roomy about half of the time, so that several
/// envelopes reach the agent within one poll and the agent's own writer-busy states are reached; the response
/// channel (agent -> remote) is mostly tiny so that the runtime's per-remote queues are exercised.
pub fn arb_attach() -> impl Strategy<Value = Op> {
    (
        prop_oneof![1 => vsim::arb_small_cap(), 1 => prop_oneof![Just(64usize), Just(128), Just(512), Just(4096)]],
        vsim::arb_small_cap(),
    )
        .prop_map(|(in_cap, out_cap)| Op::Attach { in_cap, out_cap })
}

// ---------------------------------------------------------------------------------------------------
// Lane history

#[derive(Clone, Debug, PartialEq, Eq, PartialOrd, Ord)]
pub enum LaneEv {
    Upd(MKey, i64),
    Rem(MKey),
    Clr,
}

/// The mutations of map lane `li` in the order they happened, with their global sequence numbers.
pub fn lane_events(trace: &[(u64, Ev)], li: usize) -> Vec<(u64, LaneEv)> {
    let mut out = vec![];
    for (seq, ev) in trace {
        match ev {
            Ev::Update { map, k, v, .. } if *map as usize == li => out.push((*seq, LaneEv::Upd(k.into(), *v))),
            Ev::Remove { map, k, .. } if *map as usize == li => out.push((*seq, LaneEv::Rem(k.into()))),
            Ev::Clear { map, .. } if *map as usize == li => out.push((*seq, LaneEv::Clr)),
            _ => {}
        }
    }
    out
}

pub fn apply_ev(map: &mut BTreeMap<MKey, i64>, ev: &LaneEv) {
    match ev {
        LaneEv::Upd(k, v) => {
            map.insert(k.clone(), *v);
        }
        LaneEv::Rem(k) => {
            map.remove(k);
        }
        LaneEv::Clr => map.clear(),
    }
}

pub fn fold(events: &[(u64, LaneEv)]) -> BTreeMap<MKey, i64> {
    let mut m = BTreeMap::new();
    for (_, e) in events {
        apply_ev(&mut m, e);
    }
    m
}

/// Decode the body of an event frame of map lane `li`.
pub fn parse_event(li: usize, body: &[u8]) -> Result<LaneEv, String> {
    let text = std::str::from_utf8(body).map_err(|e| format!("not UTF-8: {}", e))?;
    if li == 1 {
        match parse_recognize::<MapOperation<String, i64>>(text, false) {
            Ok(MapOperation::Update { key, value }) => Ok(LaneEv::Upd(MKey::S(key), value)),
            Ok(MapOperation::Remove { key }) => Ok(LaneEv::Rem(MKey::S(key))),
            Ok(MapOperation::Clear) => Ok(LaneEv::Clr),
            Err(e) => Err(format!("{:?}", e)),
        }
    } else {
        match parse_recognize::<MapOperation<i32, i64>>(text, false) {
            Ok(MapOperation::Update { key, value }) => Ok(LaneEv::Upd(MKey::I(key), value)),
            Ok(MapOperation::Remove { key }) => Ok(LaneEv::Rem(MKey::I(key))),
            Ok(MapOperation::Clear) => Ok(LaneEv::Clr),
            Err(e) => Err(format!("{:?}", e)),
        }
    }
}

// ---------------------------------------------------------------------------------------------------
// Execution

#[derive(Clone, Debug)]
pub struct RemoteObs {
    pub frames: Vec<Frame>,
    /// (lane, request, seq when queued, seq when its last byte was written)
    pub sent: Vec<(String, Req, u64, Option<u64>)>,
    pub connected: bool,
    pub eof: bool,
    pub decode_error: Option<String>,
    /// Virtual time (ms since the start of the case) at which the harness asked for the remote to be attached.
    pub attach_ms: u64,
    /// Virtual time (ms) of the first op after which the runtime had completed the remote's disconnection promise,
    /// and the reason it gave.
    pub detached: Option<(u64, String)>,
}

pub struct Obs {
    pub remotes: Vec<RemoteObs>,
    /// A remote attached after the generated ops, which synced every map lane on the quiescent agent.
    pub probe: Option<RemoteObs>,
    pub trace: Vec<(u64, Ev)>,
    pub result: Option<Result<(), String>>,
    pub stopped: bool,
    /// Global sequence numbers at which no lane event can be pending inside the agent: after initialisation, after every
    /// `Settle` op, and after every op that left the system idle (nothing woken: every request written so far has been
    /// processed by the agent and the runtime; what is undelivered sits in the runtime's per-remote queues or in the
    /// remotes' channels - the runtime always drains the lanes).
    pub quiescent_marks: Vec<u64>,
}

/// The last quiescent point at or before `t`.
pub fn last_mark(marks: &[u64], t: u64) -> u64 {
    marks.iter().copied().filter(|m| *m <= t).max().unwrap_or(0)
}

/// Key `k` was mutated (update / remove of `k`, or a clear) strictly inside (lo, hi).
pub fn mutated_between(events: &[(u64, LaneEv)], k: &MKey, lo: u64, hi: u64) -> bool {
    events.iter().any(|(q, e)| {
        *q > lo
            && *q < hi
            && match e {
                LaneEv::Upd(k2, _) | LaneEv::Rem(k2) => k2 == k,
                LaneEv::Clr => true,
            }
    })
}

/// Key `k` was removed (remove of `k`, or a clear) strictly inside (lo, hi).
pub fn removed_between(events: &[(u64, LaneEv)], k: &MKey, lo: u64, hi: u64) -> bool {
    events.iter().any(|(q, e)| {
        *q > lo
            && *q < hi
            && match e {
                LaneEv::Rem(k2) => k2 == k,
                LaneEv::Clr => true,
                _ => false,
            }
    })
}

fn observe(r: &vsim::Remote, attach_ms: u64, detached: Option<(u64, String)>) -> RemoteObs {
    RemoteObs {
        frames: r.frames.clone(),
        sent: r.sent.clone(),
        connected: r.is_connected(),
        eof: r.eof,
        decode_error: r.decode_error.clone(),
        attach_ms,
        detached,
    }
}

/// Run the real agent + runtime under the generated schedule, drain to quiescence, then (if the agent
/// is still running) attach a probe remote that syncs `probe_lanes` to read the lanes' final contents
/// through the public protocol.
pub fn run_case(
    params: &SimParams,
    flags: &AgentFlags,
    programs: &[Vec<Act>],
    ops: &[Op],
    lanes: &[&str],
    probe_lanes: &[&str],
) -> Obs {
    block_on_paused(params.seed, async {
        let clock = Arc::new(AtomicU64::new(1));
        let shared = Shared::new(clock.clone(), programs.to_vec(), flags.clone());
        let agent = make_agent(shared.clone());
        let mut sim = Sim::start(&agent, params, clock, None);
        // initialisation is not part of the property (and has its own 1 s timeouts)
        sim.run_until_idle();
        let mut quiescent_marks = vec![sim.now()];
        let start = tokio::time::Instant::now();
        let now_ms = || tokio::time::Instant::now().duration_since(start).as_millis() as u64;
        let mut attach_ms: Vec<u64> = vec![];
        let mut detached: Vec<Option<(u64, String)>> = vec![];
        let mut watch = |sim: &mut Sim, attach_ms: &mut Vec<u64>, detached: &mut Vec<Option<(u64, String)>>, t: u64| {
            while attach_ms.len() < sim.remotes.len() {
                attach_ms.push(t);
                detached.push(None);
            }
            for (i, r) in sim.remotes.iter_mut().enumerate() {
                if detached[i].is_none() {
                    match r.disconnection_reason() {
                        Some(Ok(reason)) => {
                            detached[i] = Some((t, format!("{:?}", reason)));
                            r.completion = None;
                        }
                        Some(Err(_)) => {
                            detached[i] = Some((t, "promise dropped".to_string()));
                            r.completion = None;
                        }
                        None => {}
                    }
                }
            }
        };
        for op in ops {
            let before = now_ms();
            apply_op(&mut sim, lanes, op).await;
            // a remote is attached at the virtual time the op started; a detachment is seen at the time the op ended
            let t = if matches!(op, Op::Attach { .. }) { before } else { now_ms() };
            watch(&mut sim, &mut attach_ms, &mut detached, t);
            if matches!(op, Op::Settle) || !sim.is_woken() {
                quiescent_marks.push(sim.now());
            }
        }
        sim.settle();
        let t = now_ms();
        watch(&mut sim, &mut attach_ms, &mut detached, t);
        let n = sim.remotes.len();
        let mut probe = None;
        if !sim.is_done() && !probe_lanes.is_empty() {
            let p = sim.attach(4096, 1 << 16);
            for l in probe_lanes {
                sim.remotes[p].send(l, Req::Sync);
            }
            sim.settle();
            probe = Some(observe(&sim.remotes[p], t, None));
        }
        Obs {
            remotes: sim.remotes[..n]
                .iter()
                .enumerate()
                .map(|(i, r)| observe(r, attach_ms[i], detached[i].clone()))
                .collect(),
            probe,
            trace: shared.trace(),
            result: sim.result.clone(),
            stopped: sim.is_done(),
            quiescent_marks,
        }
    })
}

pub fn dump(obs: &Obs) {
    for (i, r) in obs.remotes.iter().enumerate() {
        eprintln!("remote {} connected={} eof={} attached@{}ms detached={:?} sent:", i, r.connected, r.eof, r.attach_ms, r.detached);
        for s in &r.sent {
            let body = match &s.1 {
                Req::Command(b) => String::from_utf8_lossy(b).to_string(),
                o => format!("{:?}", o),
            };
            eprintln!("   {} {} queued={} written={:?}", s.0, body, s.2, s.3);
        }
        for f in &r.frames {
            eprintln!("   frame {} {} {}", f.seq, f.lane, describe_frame(f));
        }
    }
    for (s, e) in &obs.trace {
        eprintln!("trace {} {:?}", s, e);
    }
    eprintln!("result: {:?} stopped={}", obs.result, obs.stopped);
}

pub fn describe_frame(f: &Frame) -> String {
    match &f.kind {
        FrameKind::Linked => "linked".into(),
        FrameKind::Synced => "synced".into(),
        FrameKind::Unlinked(b) => format!("unlinked {:?}", b.as_ref().map(|b| String::from_utf8_lossy(b).to_string())),
        FrameKind::Event(b) => format!("event {}", String::from_utf8_lossy(b)),
    }
}

// ---------------------------------------------------------------------------------------------------
// C02 rules for one (remote, map lane)

#[derive(Default, Debug, Clone)]
pub struct LaneOutcome {
    /// Inside one link session the remote skipped at least one state of some key's history
    /// (an operation was replaced in place in a queue, or discarded by a clear).
    pub coalesced: bool,
    pub clear_skipped: bool,
    pub sessions: usize,
    pub event_frames: usize,
    pub quiescence_checked: bool,
    pub quiescence_full: bool,
}

struct Session {
    linked_seq: u64,
    /// a completed sync of this session was requested while the remote had linked first
    synced_after_link: bool,
    /// completed syncs of this session that were requested without link: (last quiescent point before the request was
    /// written, seq at which `synced` was read)
    unlinked_syncs: Vec<(u64, u64)>,
    synced_valid: bool,
    got_clear: bool,
    replica: BTreeMap<MKey, i64>,
    seen: BTreeSet<MKey>,
    /// last matched trace position per key (update / remove frames)
    last: HashMap<MKey, usize>,
    /// trace position of the clear the last clear frame was matched to
    floor: Option<usize>,
}

struct Index {
    upd: HashMap<(MKey, i64), Vec<usize>>,
    rem: HashMap<MKey, Vec<usize>>,
    clears: Vec<usize>,
    /// per key: positions of the trace events that change (or confirm) that key's state
    affect: HashMap<MKey, Vec<usize>>,
}

fn index(events: &[(u64, LaneEv)]) -> Index {
    let mut ix = Index {
        upd: HashMap::new(),
        rem: HashMap::new(),
        clears: vec![],
        affect: HashMap::new(),
    };
    for (p, (_, e)) in events.iter().enumerate() {
        match e {
            LaneEv::Upd(k, v) => {
                ix.upd.entry((k.clone(), *v)).or_default().push(p);
                ix.affect.entry(k.clone()).or_default().push(p);
            }
            LaneEv::Rem(k) => {
                ix.rem.entry(k.clone()).or_default().push(p);
                ix.affect.entry(k.clone()).or_default().push(p);
            }
            LaneEv::Clr => ix.clears.push(p),
        }
    }
    ix
}

/// "having linked first, or linking implicitly by syncing": the j-th sync request of the remote for `lane` is a sync
/// *without* link if, going backwards through the remote's own requests for that lane, no link request is found before
/// an unlink request or the beginning (requests of one remote are processed in the order they were queued).
pub fn sync_without_link(rem: &RemoteObs, lane: &str, j: usize) -> bool {
    let reqs: Vec<&Req> = rem.sent.iter().filter(|s| s.0 == lane).map(|s| &s.1).collect();
    let mut n = 0usize;
    for (i, r) in reqs.iter().enumerate() {
        if **r == Req::Sync {
            if n == j {
                for back in reqs[..i].iter().rev() {
                    match back {
                        Req::Link => return false,
                        Req::Unlink => return true,
                        _ => {}
                    }
                }
                return true;
            }
            n += 1;
        }
    }
    true
}

fn between(list: Option<&Vec<usize>>, lo: usize, hi: usize) -> bool {
    // any position strictly inside (lo, hi)
    list.map(|l| l.iter().any(|p| *p > lo && *p < hi)).unwrap_or(false)
}

/// Rules (1)-(3) of C02 for remote `ri` and map lane `li`.
///
/// (1) every update frame names an entry (k, v) the lane actually held; remove / clear frames
///     correspond to a remove of that key / a clear that actually happened;
/// (2) per key, the update and remove frames received inside one link session map, in order, to
///     non-decreasing positions of the lane's history (skips allowed, an in-order repeat allowed
///     because a sync event and the following live event may carry the same entry); an update
///     received after a clear frame was made after the clear that frame stands for;
/// (3) at quiescence (`quiescent`: agent still running, everything delivered) the replica built from
///     the frames of the open session equals the lane's map on every key the remote must know about.
pub fn check_map_lane(
    v: &mut Verdict,
    ri: usize,
    li: usize,
    rem: &RemoteObs,
    events: &[(u64, LaneEv)],
    final_map: &BTreeMap<MKey, i64>,
    quiescent: bool,
    marks: &[u64],
) -> LaneOutcome {
    let lane = MAP_LANES[li];
    let ix = index(events);
    let mut out = LaneOutcome::default();
    let queued = |want: Req| -> Vec<u64> {
        rem.sent
            .iter()
            .filter(|(l, r, _, _)| l == lane && *r == want)
            .map(|s| s.2)
            .collect()
    };
    let sync_q = queued(Req::Sync);
    let sync_w: Vec<Option<u64>> = rem.sent.iter().filter(|(l, r, _, _)| l == lane && *r == Req::Sync).map(|s| s.3).collect();
    let unlink_q = queued(Req::Unlink);
    let mut synced_count = 0usize;
    let mut prev_unlinked = 0u64;
    let mut sess: Option<Session> = None;

    for f in rem.frames.iter().filter(|f| f.lane == lane) {
        match &f.kind {
            FrameKind::Linked => {
                if sess.is_none() {
                    out.sessions += 1;
                    sess = Some(Session {
                        linked_seq: f.seq,
                        synced_after_link: false,
                        unlinked_syncs: vec![],
                        synced_valid: false,
                        got_clear: false,
                        replica: BTreeMap::new(),
                        seen: BTreeSet::new(),
                        last: HashMap::new(),
                        floor: None,
                    });
                }
            }
            FrameKind::Unlinked(_) => {
                sess = None;
                prev_unlinked = f.seq;
            }
            FrameKind::Synced => {
                let j = synced_count;
                synced_count += 1;
                if let (Some(s), Some(q)) = (sess.as_mut(), sync_q.get(j)) {
                    // The sync is complete for this session unless the remote asked to unlink while
                    // it was in progress (events broadcast while it was unlinked are legitimately
                    // lost to it).
                    if !unlink_q.iter().any(|u| *u > *q && *u < f.seq) {
                        s.synced_valid = true;
                        if !sync_without_link(rem, lane, j) {
                            s.synced_after_link = true;
                        } else {
                            let written = sync_w.get(j).copied().flatten().unwrap_or(*q);
                            s.unlinked_syncs.push((last_mark(marks, written), f.seq));
                        }
                    }
                }
            }
            FrameKind::Event(body) => {
                // frames outside a link session are the business of C04
                let Some(s) = sess.as_mut() else { continue };
                out.event_frames += 1;
                let ev = match parse_event(li, body) {
                    Ok(ev) => ev,
                    Err(e) => {
                        v.fail(
                            "malformed-event",
                            format!("remote {} lane {}: event body {:?} is not a map operation: {}", ri, lane, String::from_utf8_lossy(body), e),
                        );
                        continue;
                    }
                };
                match ev {
                    LaneEv::Upd(k, val) => {
                        let lk = s.last.get(&k).copied();
                        let lower = lk.unwrap_or(0).max(s.floor.map(|f| f + 1).unwrap_or(0));
                        match ix.upd.get(&(k.clone(), val)) {
                            None => v.fail(
                                "invented-entry",
                                format!("remote {} lane {}: received update {:?} -> {} but the lane never held that entry; lane history {:?}", ri, lane, k, val, events),
                            ),
                            Some(c) => match c.iter().find(|p| **p >= lower) {
                                Some(p) => {
                                    if let Some(prev) = lk {
                                        if between(ix.affect.get(&k), prev, *p) || ix.clears.iter().any(|c| *c > prev && *c < *p) {
                                            out.coalesced = true;
                                        }
                                    }
                                    s.last.insert(k.clone(), *p);
                                }
                                None => {
                                    if c.iter().any(|p| *p >= lk.unwrap_or(0)) {
                                        v.fail(
                                            "clear-overtaken-by-older-update",
                                            format!(
                                                "remote {} lane {}: update {:?} -> {} (history position(s) {:?}) received at seq {} after a clear frame that stands for the clear at position {:?}; lane history {:?}",
                                                ri, lane, k, val, c, f.seq, s.floor, events
                                            ),
                                        );
                                    } else {
                                        v.fail(
                                            "key-reordered",
                                            format!(
                                                "remote {} lane {}: update {:?} -> {} (history position(s) {:?}) received at seq {} after a frame for history position {:?} of the same key; lane history {:?}",
                                                ri, lane, k, val, c, f.seq, lk, events
                                            ),
                                        );
                                    }
                                    s.last.insert(k.clone(), lk.unwrap_or(0).max(*c.last().unwrap()));
                                }
                            },
                        }
                        s.replica.insert(k.clone(), val);
                        s.seen.insert(k);
                    }
                    LaneEv::Rem(k) => {
                        let lk = s.last.get(&k).copied();
                        match ix.rem.get(&k) {
                            None => v.fail(
                                "invented-remove",
                                format!("remote {} lane {}: received remove {:?} but that key was never removed from the lane; lane history {:?}", ri, lane, k, events),
                            ),
                            Some(c) => match c.iter().find(|p| **p >= lk.unwrap_or(0)) {
                                Some(p) => {
                                    if let Some(prev) = lk {
                                        if between(ix.affect.get(&k), prev, *p) || ix.clears.iter().any(|c| *c > prev && *c < *p) {
                                            out.coalesced = true;
                                        }
                                    }
                                    s.last.insert(k.clone(), *p);
                                }
                                None => {
                                    v.fail(
                                        "key-reordered",
                                        format!(
                                            "remote {} lane {}: remove {:?} (history position(s) {:?}) received at seq {} after a frame for history position {:?} of the same key; lane history {:?}",
                                            ri, lane, k, c, f.seq, lk, events
                                        ),
                                    );
                                }
                            },
                        }
                        s.replica.remove(&k);
                        s.seen.insert(k);
                    }
                    LaneEv::Clr => {
                        let lower = s.floor.unwrap_or(0);
                        match ix.clears.iter().find(|p| **p >= lower) {
                            Some(p) => {
                                // a state some key held that this remote will never see
                                for (k, lk) in s.last.iter() {
                                    if between(ix.affect.get(k), *lk, *p) {
                                        out.clear_skipped = true;
                                    }
                                }
                                s.floor = Some(*p);
                            }
                            None => v.fail(
                                "invented-clear",
                                format!("remote {} lane {}: received a clear at seq {} that corresponds to no clear of the lane (previous clear frame stood for position {:?}); lane history {:?}", ri, lane, f.seq, s.floor, events),
                            ),
                        }
                        s.replica.clear();
                        s.got_clear = true;
                    }
                }
            }
        }
    }

    if let Some(s) = sess {
        if quiescent && rem.connected && !rem.eof && rem.decode_error.is_none() {
            out.quiescence_checked = true;
            let clear_after = events.iter().any(|(q, e)| *q > s.linked_seq && matches!(e, LaneEv::Clr));
            let full = s.synced_valid || s.got_clear || clear_after;
            out.quiescence_full = full;
            let keys: BTreeSet<MKey> = if full {
                s.replica.keys().chain(final_map.keys()).cloned().collect()
            } else {
                // Without a completed sync the remote legitimately lacks entries made before it linked.
                // It must agree on every key it received a frame for (later changes of that key reach
                // it too) and on every key mutated after it *read* `linked` (the runtime registered
                // the link before writing that frame).
                let mut ks = s.seen.clone();
                for (q, e) in events {
                    if *q > s.linked_seq {
                        match e {
                            LaneEv::Upd(k, _) | LaneEv::Rem(k) => {
                                ks.insert(k.clone());
                            }
                            LaneEv::Clr => {}
                        }
                    }
                }
                ks
            };
            let diff: Vec<(MKey, Option<i64>, Option<i64>)> = keys
                .into_iter()
                .filter_map(|k| {
                    let (a, b) = (s.replica.get(&k).copied(), final_map.get(&k).copied());
                    if a != b {
                        Some((k, a, b))
                    } else {
                        None
                    }
                })
                .collect();
            if !diff.is_empty() {
                // The known defect F1 (sync without link) can only lose an entry whose event was popped while that sync
                // was in progress, i.e. a key mutated between the last quiescent point before the request and `synced`.
                let explained_by_unlinked_sync = diff.iter().all(|(k, _, _)| {
                    s.unlinked_syncs.iter().any(|(q, t1)| mutated_between(events, k, *q, *t1))
                });
                let class = if s.synced_valid && !s.synced_after_link && explained_by_unlinked_sync {
                    "not-converged:synced-without-link"
                } else if s.synced_valid {
                    "not-converged:linked-and-synced"
                } else {
                    "not-converged:linked"
                };
                v.fail(
                    class,
                    format!(
                        "remote {} lane {}: link session (linked read at seq {}, sync completed={}, requested after linking={}) is open at quiescence but the replica differs from the lane's map on (key, replica, lane): {:?}; replica {:?}; lane {:?}; lane history {:?}",
                        ri, lane, s.linked_seq, s.synced_valid, s.synced_after_link, diff, s.replica, final_map, events
                    ),
                );
            }
        }
    }
    out
}

// ---------------------------------------------------------------------------------------------------
// C03 rule for one (remote, map lane): every completed sync delivers a consistent snapshot

#[derive(Default, Debug, Clone)]
pub struct SyncOutcome {
    pub syncs_completed: usize,
    /// completed syncs with at least one lane mutation stamped inside [t0, t1]
    pub syncs_racing: usize,
    pub without_link: usize,
    pub after_link: usize,
    pub events_before_synced: bool,
    /// [t0, t1] of every completed sync
    pub windows: Vec<(u64, u64)>,
    pub max_concurrent_keys: usize,
}

/// States key `k` held during the closed window [t0, t1].
fn window_states(events: &[(u64, LaneEv)], k: &MKey, t0: u64, t1: u64) -> Vec<Option<i64>> {
    let mut cur: Option<i64> = None;
    let mut states = vec![];
    let mut started = false;
    for (q, e) in events {
        if *q > t1 {
            break;
        }
        if *q > t0 && !started {
            states.push(cur);
            started = true;
        }
        let before = cur;
        match e {
            LaneEv::Upd(k2, v) if k2 == k => cur = Some(*v),
            LaneEv::Rem(k2) if k2 == k => cur = None,
            LaneEv::Clr => cur = None,
            _ => {}
        }
        if started && cur != before {
            states.push(cur);
        }
    }
    if !started {
        states.push(cur);
    }
    states
}

/// Which sync request a `synced` frame can be held against.
#[derive(Clone, Debug, PartialEq, Eq)]
pub enum SyncedPair {
    /// Not decidable: the session follows an unlink that was sent while older requests could still be in progress
    /// (responses of a sync that the remote abandoned by unlinking may re-link it and arrive in any state).
    Skip,
    /// More `synced` frames than sync requests that could have caused them.
    NoRequest,
    /// `idx`-th sync request of the remote for the lane (queued / fully written at these sequence numbers).
    /// `disturbed`: the remote queued an unlink for the lane between the request and the `synced`.
    Req { idx: usize, queued: u64, written: Option<u64>, disturbed: bool },
}

/// Pair every `synced` frame of (remote, lane), in frame order, with the oldest sync request it can answer.
///
/// First link session: the k-th `synced` answers a request with index >= k (one `synced` can answer several requests,
/// never the other way round), so it is held against the k-th request: the asserted window only gets wider.
/// A session that starts after an `unlinked` frame: the unlink request that caused it is the last one written before
/// that frame was read. If some quiescent / idle point lies between the moment the last older request of the lane was
/// written and the moment the unlink was queued, every older request had been processed completely when the remote
/// unlinked, so a `synced` of the new session can only answer a sync request queued after the unlink: the k-th `synced`
/// of the session is held against the k-th of those. Otherwise the session is skipped.
pub fn pair_synced_frames(rem: &RemoteObs, lane: &str, marks: &[u64]) -> Vec<SyncedPair> {
    let reqs: Vec<(&Req, u64, Option<u64>)> = rem.sent.iter().filter(|s| s.0 == lane).map(|s| (&s.1, s.2, s.3)).collect();
    let syncs: Vec<(usize, u64, Option<u64>)> = reqs
        .iter()
        .filter(|r| *r.0 == Req::Sync)
        .enumerate()
        .map(|(i, r)| (i, r.1, r.2))
        .collect();
    let unlinks: Vec<(u64, Option<u64>)> = reqs.iter().filter(|r| *r.0 == Req::Unlink).map(|r| (r.1, r.2)).collect();
    let mut out = vec![];
    // candidates of the current session, None = skip
    let mut cands: Option<Vec<(usize, u64, Option<u64>)>> = Some(syncs.clone());
    let mut k = 0usize;
    let mut linked = false;
    let mut prev_unlinked: Option<u64> = None;
    let mut unlinked_frames = 0usize;
    for f in rem.frames.iter().filter(|f| f.lane == lane) {
        match &f.kind {
            FrameKind::Linked => {
                if !linked {
                    linked = true;
                    if let Some(u_seq) = prev_unlinked {
                        k = 0;
                        cands = None;
                        // The n-th `unlinked` frame was caused by an unlink request with index >= n that was written before the
                        // frame was read (an unlink of a lane that is not linked produces no frame; a stalled remote reads the
                        // frame late): only decidable if that leaves exactly one request.
                        let before: Vec<&(u64, Option<u64>)> = unlinks.iter().filter(|(_, w)| w.map(|w| w < u_seq).unwrap_or(false)).collect();
                        let cause = if before.len() == unlinked_frames { before.last().copied() } else { None };
                        if let Some((q_u, _)) = cause {
                            let older: Vec<&(&Req, u64, Option<u64>)> = reqs.iter().filter(|r| r.1 < *q_u).collect();
                            let all_written = older.iter().all(|r| r.2.is_some());
                            let last_written = older.iter().filter_map(|r| r.2).max().unwrap_or(0);
                            if all_written && marks.iter().any(|m| *m > last_written && *m < *q_u) {
                                cands = Some(syncs.iter().filter(|s| s.1 > *q_u).cloned().collect());
                            }
                        }
                    }
                }
            }
            FrameKind::Unlinked(_) => {
                linked = false;
                prev_unlinked = Some(f.seq);
                unlinked_frames += 1;
            }
            FrameKind::Event(_) => {}
            FrameKind::Synced => {
                let pair = match &cands {
                    None => SyncedPair::Skip,
                    Some(c) => match c.get(k) {
                        None => SyncedPair::NoRequest,
                        Some((idx, queued, written)) => SyncedPair::Req {
                            idx: *idx,
                            queued: *queued,
                            written: *written,
                            disturbed: unlinks.iter().any(|(q, _)| *q > *queued && *q < f.seq),
                        },
                    },
                };
                k += 1;
                out.push(pair);
            }
        }
    }
    out
}

/// For the j-th `synced` frame of (remote, lane), read at t1, and the j-th sync request, fully
/// written at t0: every key of the replica built from the frames of the session so far holds a value,
/// or is absent, as the lane held it at some instant of [t0, t1]. ([t0, t1] contains the true window -
/// the lane saw the request after t0 and emitted `synced` before t1 - so the rule is sound; with several
/// outstanding requests the j-th one is the oldest that the j-th `synced` can answer.)
pub fn check_map_sync(
    v: &mut Verdict,
    ri: usize,
    li: usize,
    rem: &RemoteObs,
    events: &[(u64, LaneEv)],
    marks: &[u64],
) -> SyncOutcome {
    let lane = MAP_LANES[li];
    let mut out = SyncOutcome::default();
    let pairs = pair_synced_frames(rem, lane, marks);
    let mut universe: BTreeSet<MKey> = BTreeSet::new();
    for (_, e) in events {
        if let LaneEv::Upd(k, _) | LaneEv::Rem(k) = e {
            universe.insert(k.clone());
        }
    }
    let mut linked = false;
    let mut events_in_session = 0usize;
    let mut replica: BTreeMap<MKey, i64> = BTreeMap::new();
    let mut j = 0usize;
    for f in rem.frames.iter().filter(|f| f.lane == lane) {
        match &f.kind {
            FrameKind::Linked => {
                if !linked {
                    linked = true;
                    replica.clear();
                    events_in_session = 0;
                }
            }
            FrameKind::Unlinked(_) => linked = false,
            FrameKind::Event(body) => {
                if linked {
                    events_in_session += 1;
                    if let Ok(ev) = parse_event(li, body) {
                        if let LaneEv::Upd(k, _) | LaneEv::Rem(k) = &ev {
                            universe.insert(k.clone());
                        }
                        apply_ev(&mut replica, &ev);
                    }
                }
            }
            FrameKind::Synced => {
                let pair = pairs.get(j).cloned().unwrap_or(SyncedPair::Skip);
                j += 1;
                let t1 = f.seq;
                let (idx, t0) = match pair {
                    SyncedPair::Skip => continue,
                    SyncedPair::NoRequest => {
                        v.fail(
                            "synced-without-request",
                            format!("remote {} lane {}: synced frame number {} at seq {} cannot be the answer to any sync request of the remote (all earlier requests are answered or were abandoned by an unlink after they had completed)", ri, lane, j, t1),
                        );
                        continue;
                    }
                    SyncedPair::Req { written: Some(t0), idx, disturbed, .. } if t0 < t1 => {
                        if disturbed {
                            // the remote unlinked while this sync could be in progress: it may legitimately be incomplete
                            continue;
                        }
                        (idx, t0)
                    }
                    SyncedPair::Req { written, .. } => {
                        v.fail(
                            "synced-without-request",
                            format!("remote {} lane {}: synced frame number {} read at seq {} before the oldest sync request it can answer was written ({:?})", ri, lane, j, t1, written),
                        );
                        continue;
                    }
                };
                if !linked {
                    // reported by the frame-order rule of C03
                    continue;
                }
                out.syncs_completed += 1;
                if events.iter().any(|(q, _)| *q > t0 && *q < t1) {
                    out.syncs_racing += 1;
                }
                let without = sync_without_link(rem, lane, idx);
                if without {
                    out.without_link += 1;
                } else {
                    out.after_link += 1;
                }
                out.windows.push((t0, t1));
                if events_in_session > 0 {
                    out.events_before_synced = true;
                }
                let suffix = if without { "/sync-without-link" } else { "/linked-first" };
                let mut present = 0;
                for k in universe.iter() {
                    let states = window_states(events, k, t0, t1);
                    let have = replica.get(k).copied();
                    if states.iter().any(|s| s.is_some()) {
                        present += 1;
                    }
                    if !states.contains(&have) {
                        // Narrow signatures for the two known defects: both need an event of that key to be possibly still
                        // queued in the lane, i.e. a mutation since the last quiescent point before the request was written.
                        let q = last_mark(marks, t0);
                        let sig = match have {
                            None if without && mutated_between(events, k, q, t1) => "snapshot:key-missing:mutated-since-quiescence",
                            // known defect F2b: a clear that may still be queued empties the key snapshot when it is popped
                            None if events.iter().any(|(s, e)| *s > q && *s < t1 && matches!(e, LaneEv::Clr)) => {
                                "snapshot:key-missing:cleared-since-quiescence"
                            }
                            None => "snapshot:key-missing",
                            Some(_) if removed_between(events, k, q, t1) => {
                                if states.iter().all(|s| s.is_none()) {
                                    "snapshot:phantom-key:removed-since-quiescence"
                                } else {
                                    "snapshot:value-outside-window:removed-since-quiescence"
                                }
                            }
                            Some(_) if states.iter().all(|s| s.is_none()) => "snapshot:phantom-key",
                            Some(_) => "snapshot:value-outside-window",
                        };
                        let sig = if sig.ends_with(":removed-since-quiescence") || sig.ends_with(":cleared-since-quiescence") {
                            // known defect F2 does not depend on how the remote linked
                            sig.to_string()
                        } else {
                            format!("{}{}", sig, suffix)
                        };
                        v.fail(
                            sig,
                            format!(
                                "remote {} lane {}: sync request written at seq {}, synced read at seq {}: replica holds {:?} for key {:?} but during that window the lane held only {:?}; replica {:?}; lane history {:?}",
                                ri, lane, t0, t1, have, k, states, replica, events
                            ),
                        );
                    }
                }
                out.max_concurrent_keys = out.max_concurrent_keys.max(present);
            }
        }
    }
    out
}
