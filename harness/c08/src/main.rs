//! C08 Downlink local state equals the fold of what it received; stand-alone client downlinks and
//! agent-hosted downlinks behave identically.
//!
//! Engine `dlimpl`: the real `swimos_downlink` tasks (value / map) and the real agent-hosted
//! downlinks (opened by a real agent inside the vsim executor) are fed the same generated
//! notification sequence through byte channels, with recording lifecycles. Oracle: a reference fold
//! written from the property statement and the documentation of `events_when_not_synced` /
//! `terminate_on_unlinked` (model.rs).

mod drive;
mod hosted;
mod model;

use drive::{Cfg, ClientSys, Driver, Rec, RunObs};
use hosted::HostedSys;
use model::{arg_diff, Cb, Ctl, DOp, Expect, Kind, Note, Phase, RefState, Write};
use proptest::prelude::*;
use serde::{Deserialize, Serialize};
use vcommon::{pick_index, Ctx, Verdict};
use vsim::block_on_paused;

#[derive(Clone, Debug, Serialize, Deserialize)]
struct Case {
    kind: Kind,
    events_when_not_synced: bool,
    terminate_on_unlinked: bool,
    /// Seeds tokio's `select!` branch order.
    seed: u64,
    /// Cooperative budget of the system future.
    budget: usize,
    /// Capacity of the downlink's input byte channel.
    in_cap: usize,
    ops: Vec<DOp>,
    /// Second schedule: `batch[i]` = do not run to a fixpoint after op i (several notifications
    /// are then available to the downlink at once). Empty = no second run.
    batch: Vec<bool>,
    /// After the last op the runtime's end of the input channel is dropped (end of stream).
    #[serde(default)]
    close_input: bool,
    /// Every write handle is dropped from inside the n-th lifecycle callback (1-based).
    #[serde(default)]
    drop_writers_in_callback: Option<usize>,
}

impl Case {
    fn cfg(&self) -> Cfg {
        Cfg {
            kind: self.kind,
            ewns: self.events_when_not_synced,
            term: self.terminate_on_unlinked,
            seed: self.seed,
            budget: self.budget.max(8),
            in_cap: self.in_cap.max(4096),
            drop_at: self.drop_writers_in_callback,
        }
    }
}

#[derive(Clone, Copy, Debug, PartialEq, Eq)]
enum Impl {
    Client,
    Hosted,
}

impl Impl {
    fn name(&self) -> &'static str {
        match self {
            Impl::Client => "client",
            Impl::Hosted => "hosted",
        }
    }
}

/// Run one implementation on an op list. `batch` empty = settle after every op.
fn run(imp: Impl, cfg: &Cfg, ops: &[DOp], batch: &[bool], close_input: bool) -> RunObs {
    let settle_after = |i: usize| !batch.get(i).copied().unwrap_or(false);
    block_on_paused(cfg.seed, async {
        let rec = Rec::new(cfg.drop_at);
        match imp {
            Impl::Client => {
                let sys = ClientSys::new(cfg, rec.clone());
                let mut d = Driver::new(sys, rec);
                d.run(ops, settle_after, close_input);
                d.observe()
            }
            Impl::Hosted => {
                let sys = HostedSys::new(cfg, rec.clone(), ops);
                let mut d = Driver::new(sys, rec);
                d.run(ops, settle_after, close_input);
                let mut obs = d.observe();
                if let Some(e) = d.sys.setup_error.clone() {
                    obs.hang = Some(format!("harness setup: {}", e));
                }
                obs
            }
        }
    })
}

fn expects(case_cfg: &Cfg, imp: Impl, ops: &[DOp]) -> (Vec<Expect>, RefState) {
    let mut rs = RefState::new(case_cfg.kind, case_cfg.ewns, case_cfg.term, imp == Impl::Hosted);
    let ex = ops.iter().map(|op| rs.step(op)).collect();
    (ex, rs)
}

fn group(trace: &[(usize, Cb)], n: usize) -> Vec<Vec<Cb>> {
    let mut g = vec![vec![]; n + 1];
    for (i, cb) in trace {
        g[(*i).min(n)].push(cb.clone());
    }
    g
}

/// Classify how `got` differs from the closest of the acceptable groups.
fn mismatch(accept: &[Vec<Cb>], got: &[Cb]) -> String {
    let common = |a: &[Cb]| a.iter().zip(got.iter()).take_while(|(x, y)| x == y).count();
    let best = accept.iter().max_by_key(|a| common(a)).expect("at least one acceptable group");
    let q = common(best);
    match (best.get(q), got.get(q)) {
        (Some(e), None) => format!("missing:{}", e.name()),
        (None, Some(g)) => format!("extra:{}", g.name()),
        (Some(e), Some(g)) if e.name() != g.name() => format!("kind:{}/{}", e.name(), g.name()),
        (Some(e), Some(g)) => format!("arg:{}.{}", e.name(), arg_diff(e, g)),
        (None, None) => "none".into(),
    }
}

/// Index of the op that starts the link session containing op `i` (0 when there is none).
fn session_start(ex: &[Expect], ops: &[DOp], i: usize) -> usize {
    (0..=i.min(ops.len().saturating_sub(1)))
        .rev()
        .find(|j| matches!(ops[*j], DOp::N(Note::Linked)) && ex[*j].phase == Phase::Unl)
        .unwrap_or(0)
}

/// First op index >= `from` whose callbacks are not acceptable.
fn first_divergence(ex: &[Expect], groups: &[Vec<Cb>], from: usize) -> Option<usize> {
    (from..ex.len()).find(|i| !ex[*i].accept.contains(&groups[*i]))
}

/// Ops that make the state held after a legal prefix observable.
fn probe(kind: Kind, rs: &RefState) -> Vec<DOp> {
    const PROBE: i32 = 7777;
    if rs.dead {
        return vec![];
    }
    match (&rs.linked, kind) {
        (None, _) => vec![],
        (Some(l), Kind::Map) if !l.synced => vec![DOp::N(Note::Synced)],
        (Some(_), Kind::Map) => vec![DOp::N(Note::Upd(PROBE, 0))],
        (Some(l), Kind::Value) if !l.synced && l.value.is_some() => vec![DOp::N(Note::Synced)],
        (Some(l), Kind::Value) if !l.synced => {
            vec![DOp::N(Note::Set(PROBE)), DOp::N(Note::Synced)]
        }
        (Some(_), Kind::Value) => vec![DOp::N(Note::Set(PROBE))],
    }
}

/// The op whose handling first makes the implementation deviate: the shortest prefix (within the
/// session of the observed divergence `j`) after which the state, made observable by a probe, or
/// the callbacks are not the reference's. Returns (cause index, mismatch class).
fn find_cause(imp: Impl, cfg: &Cfg, ops: &[DOp], ex: &[Expect], j: usize) -> (usize, String) {
    let s = session_start(ex, ops, j);
    for p in s..j {
        let mut prefix: Vec<DOp> = ops[..=p].to_vec();
        let (_, rs) = expects(cfg, imp, &prefix);
        prefix.extend(probe(cfg.kind, &rs));
        let (pex, _) = expects(cfg, imp, &prefix);
        let obs = run(imp, cfg, &prefix, &[], false);
        let groups = group(&obs.trace, prefix.len());
        if let Some(d) = first_divergence(&pex, &groups, s) {
            let class = if d <= p {
                mismatch(&pex[d].accept, &groups[d])
            } else {
                "state".to_string()
            };
            return (p, class);
        }
    }
    (j, String::new())
}

struct ImplResult {
    groups: Vec<Vec<Cb>>,
    /// accepted[i] = op i's callbacks were acceptable and no earlier divergence taints them.
    accepted: Vec<bool>,
    flat: Vec<Cb>,
}

fn check_impl(v: &mut Verdict, imp: Impl, case: &Case, ex: &[Expect], end: &RefState) -> ImplResult {
    let cfg = case.cfg();
    let tag = format!("{}-{}", imp.name(), case.kind.name());
    let ops = &case.ops;
    let obs = run(imp, &cfg, ops, &[], case.close_input);
    if let Some(h) = &obs.hang {
        v.fail(format!("{}:hang", tag), h.clone());
    }
    match &obs.finished {
        Some(Err(e)) => v.fail(
            format!("{}:task-failed", tag),
            format!("a legal notification sequence made the downlink task / agent fail: {}", e),
        ),
        Some(Ok(())) if !end.dead && !case.close_input => v.fail(
            format!("{}:stopped-early", tag),
            "the downlink task / agent stopped although no terminating unlinked was received".to_string(),
        ),
        _ => {}
    }
    v.class_if(obs.out_bytes > 0, "commands-written-by-handle");
    v.class_if(obs.undelivered > 0, "input-closed-by-downlink");
    v.class_if(obs.split_frames > 0, "frame-split");
    let groups = group(&obs.trace, ops.len());
    // after the last op nothing may fire; when the input is then closed the loss of a live link may
    // (hosted) or may not (client) be reported as on_unlinked -- not a notification, not fixed by the statement
    let tail = &groups[ops.len()];
    let tail_ok = tail.is_empty() || (case.close_input && end.linked.is_some() && tail[..] == [Cb::Unlinked]);
    if !tail_ok {
        v.fail(
            format!("{}:late-callback", tag),
            format!(
                "callbacks after the last op had been settled{}: {:?}",
                if case.close_input { " / after the input was closed" } else { "" },
                tail
            ),
        );
    }
    let mut accepted = vec![false; ops.len()];
    let mut tainted = false;
    for i in 0..ops.len() {
        if ex[i].phase == Phase::Unl && matches!(ops[i], DOp::N(Note::Linked)) {
            // a new link session starts from the empty state by definition
            tainted = false;
        }
        if tainted {
            continue;
        }
        if ex[i].accept.contains(&groups[i]) {
            accepted[i] = true;
            continue;
        }
        tainted = true;
        let (p, class) = find_cause(imp, &cfg, ops, ex, i);
        let class = if p == i { mismatch(&ex[i].accept, &groups[i]) } else { class };
        // a local write is handled by one code path whatever the link state: no phase in its signature
        let cell = match ops[p] {
            DOp::W(w) => w.name().to_string(),
            DOp::C(c) => c.name().to_string(),
            DOp::N(n) => format!("{}@{}", n.name(), ex[p].phase.cell()),
        };
        v.fail(
            format!("{}:{}:{}", tag, cell, class),
            format!(
                "{} {} downlink (events_when_not_synced={}, terminate_on_unlinked={}): deviation caused by op #{} {:?} \
                 (state before it: {}), observed at op #{} {:?}: expected callbacks {:?} (fold of the notifications since linked), got {:?}",
                imp.name(),
                case.kind.name(),
                case.events_when_not_synced,
                case.terminate_on_unlinked,
                p,
                ops[p],
                ex[p].phase.name(),
                i,
                ops[i],
                ex[i].accept[0],
                groups[i]
            ),
        );
    }
    let flat: Vec<Cb> = obs.trace.iter().map(|(_, c)| c.clone()).collect();
    // second schedule
    if case.batch.iter().any(|b| *b) {
        let obs2 = run(imp, &cfg, ops, &case.batch, case.close_input);
        if let Some(h) = &obs2.hang {
            v.fail(format!("{}:hang", tag), format!("batched schedule: {}", h));
        }
        let flat2: Vec<Cb> = obs2.trace.iter().map(|(_, c)| c.clone()).collect();
        if flat2 != flat {
            v.fail(
                format!("{}:schedule-dependent", tag),
                format!(
                    "the callback trace depends on how the notifications are batched: one at a time {:?}, batched {:?}",
                    flat, flat2
                ),
            );
        }
    }
    ImplResult { groups, accepted, flat }
}

fn classes(v: &mut Verdict, case: &Case, ex: &[Expect]) {
    let mut sup_event = false;
    let mut take_drop = false;
    let mut sessions = 0;
    let mut writers_dropped = false;
    let mut output_dropped = false;
    let mut reconnected = false;
    // size of the (reference) map before each op
    let sizes: Vec<usize> = {
        let mut rs = RefState::new(case.kind, case.events_when_not_synced, case.terminate_on_unlinked, false);
        case.ops
            .iter()
            .map(|op| {
                let len = rs.linked.as_ref().map(|l| l.map.len()).unwrap_or(0);
                rs.step(op);
                len
            })
            .collect()
    };
    for (idx, (op, e)) in case.ops.iter().zip(ex.iter()).enumerate() {
        if let DOp::N(n) = op {
            let linked = matches!(e.phase, Phase::Sup | Phase::Pre | Phase::Syn);
            v.class_if(reconnected && n.is_event() && e.phase == Phase::Sup, "suppressed-event-after-reconnect");
            v.class_if(reconnected && n.is_event() && e.phase == Phase::Pre, "live-unsynced-event-after-reconnect");
            if writers_dropped && e.phase != Phase::Dead {
                v.class("notification-after-writers-dropped(read-only-mode)");
                v.class_if(n.is_event() && e.phase == Phase::Sup, "suppressed-event-in-read-only-mode");
                v.class_if(matches!(n, Note::Unlinked), "unlinked-in-read-only-mode");
            }
            if n.is_event() && e.phase == Phase::Sup {
                sup_event = true;
            }
            v.class_if(matches!(n, Note::Fill { .. }) && linked, "fill(bulk-prelude)");
            if matches!(n, Note::Take(_) | Note::Drop(_)) && linked {
                take_drop = true;
                let live = matches!(e.phase, Phase::Pre | Phase::Syn);
                let len = sizes[idx];
                let removed = match n {
                    Note::Take(k) => len.saturating_sub((*k).min(len as u64) as usize),
                    Note::Drop(k) => (*k).min(len as u64) as usize,
                    _ => 0,
                };
                v.class_if(len > 64, "map>64-at-take/drop");
                v.class_if(len > 64 && live && removed >= 2 && removed < len, "map>64-at-take/drop:live,removes>=2,partial");
                v.class_if((60..=70).contains(&len), "map-60..70-at-take/drop");
                v.class_if(e.phase == Phase::Sup, "take/drop-suppressed");
            }
            v.class_if(matches!(n, Note::Clear) && e.phase == Phase::Sup, "clear-suppressed");
            v.class_if(matches!(n, Note::Clear) && linked, "clear");
            if matches!(n, Note::Linked) && e.phase == Phase::Unl {
                sessions += 1;
            }
            v.class_if(matches!(n, Note::Unlinked) && e.phase == Phase::Unl, "refused-link");
            v.class_if(matches!(n, Note::Synced) && e.phase != Phase::Dead, "synced");
            v.class_if(n.is_event() && e.phase == Phase::Pre, "event-unsynced-live");
            v.class_if(e.phase == Phase::Dead, "ops-after-termination");
        } else if let DOp::C(c) = op {
            match c {
                Ctl::DropWriters => {
                    v.class("writers-dropped");
                    writers_dropped = true;
                }
                Ctl::DropOutput => {
                    v.class("output-dropped");
                    output_dropped = true;
                }
                Ctl::Stop => v.class("handle-stop"),
                Ctl::Reconnect => {
                    v.class("reconnect(new-session-without-unlinked)");
                    v.class_if(e.phase == Phase::Syn, "reconnect-while-synced");
                    reconnected = true;
                }
            }
        } else {
            v.class_if(matches!(e.phase, Phase::Sup | Phase::Pre | Phase::Syn), "local-write-linked");
            v.class_if(e.phase == Phase::Unl, "local-write-unlinked");
            v.class_if(output_dropped, "local-write-after-output-dropped");
        }
    }
    v.class_if(sup_event, "event-suppressed");
    v.class_if(take_drop, "take/drop");
    v.class_if(sessions >= 2, "relink");
    v.class_if(case.batch.iter().any(|b| *b), "batched-schedule");
    v.class_if(case.close_input, "input-closed-at-end");
    v.class_if(case.drop_writers_in_callback.is_some(), "writers-dropped-inside-callback");
    v.class_if(case.events_when_not_synced, "events_when_not_synced");
    v.class_if(case.terminate_on_unlinked, "terminate_on_unlinked");
    // the property's non-triviality rule (DESIGN.md C08 NT)
    if sup_event || take_drop {
        v.nontrivial();
    }
}

fn check_legal(case: &Case) -> Verdict {
    let mut v = Verdict::new();
    let cfg = case.cfg();
    if case.ops.iter().any(|op| !op.fits(case.kind)) {
        v.fail("harness:ill-typed-case", "op does not fit the downlink kind");
        return v;
    }
    let (ex, end) = expects(&cfg, Impl::Client, &case.ops);
    let (exh, endh) = expects(&cfg, Impl::Hosted, &case.ops);
    if let Some(i) = ex.iter().position(|e| !e.legal) {
        v.fail(
            "harness:illegal-sequence",
            format!("op #{} {:?} is not legal in state {}", i, case.ops[i], ex[i].phase.name()),
        );
        return v;
    }
    classes(&mut v, case, &ex);
    let c = check_impl(&mut v, Impl::Client, case, &ex, &end);
    let h = check_impl(&mut v, Impl::Hosted, case, &exh, &endh);
    // `handle.stop()` exists only for the hosted downlink: nothing to compare from there on
    let comparable = case
        .ops
        .iter()
        .position(|op| matches!(op, DOp::C(Ctl::Stop)))
        .unwrap_or(case.ops.len());
    // differential: where both implementations satisfy the (lenient) reference they must agree exactly
    let mut differs = false;
    for i in 0..comparable {
        if c.accepted[i] && h.accepted[i] && c.groups[i] != h.groups[i] && !differs {
            differs = true;
            let class = mismatch(&[c.groups[i].clone()], &h.groups[i]);
            v.fail(
                format!("differ-{}:{}@{}:{}", case.kind.name(), case.ops[i].name(), ex[i].phase.cell(), class),
                format!(
                    "op #{} {:?} (state before it: {}): the client downlink fired {:?}, the hosted downlink fired {:?}",
                    i,
                    case.ops[i],
                    ex[i].phase.name(),
                    c.groups[i],
                    h.groups[i]
                ),
            );
        }
    }
    let clean = v.failures.is_empty();
    v.class_if(clean, "clean(both-match-reference-and-each-other)");
    v.class_if(c.accepted.iter().all(|a| *a), "client-matches-reference");
    v.class_if(h.accepted.iter().all(|a| *a), "hosted-matches-reference");
    v.class_if(c.flat.len() >= 10, "callbacks>=10");
    if std::env::var("VERIF_DUMP").is_ok() {
        eprintln!("client: {:?}\nhosted: {:?}", c.flat, h.flat);
    }
    v
}

/// Illegal sequences: only absence of panics and hangs.
fn check_illegal(case: &Case) -> Verdict {
    let mut v = Verdict::new();
    let cfg = case.cfg();
    if case.ops.iter().any(|op| !op.fits(case.kind)) {
        v.fail("harness:ill-typed-case", "op does not fit the downlink kind");
        return v;
    }
    let (ex, _) = expects(&cfg, Impl::Client, &case.ops);
    let illegal = ex.iter().any(|e| !e.legal);
    for imp in [Impl::Client, Impl::Hosted] {
        let tag = format!("{}-{}", imp.name(), case.kind.name());
        let mut schedules: Vec<&[bool]> = vec![&[]];
        if case.batch.iter().any(|b| *b) {
            schedules.push(&case.batch);
        }
        for batch in schedules {
            let obs = run(imp, &cfg, &case.ops, batch, case.close_input);
            if let Some(h) = &obs.hang {
                v.fail(format!("{}:hang", tag), h.clone());
            }
            v.class_if(matches!(obs.finished, Some(Err(_))), "task-ended-with-error");
        }
    }
    for (op, e) in case.ops.iter().zip(ex.iter()) {
        if e.legal {
            continue;
        }
        match op {
            DOp::N(Note::Linked) => v.class("double-linked"),
            DOp::N(Note::Synced) if e.phase == Phase::Unl => v.class("synced-while-unlinked"),
            DOp::N(Note::Synced) if e.phase == Phase::Syn => v.class("double-synced"),
            DOp::N(Note::Synced) => v.class("synced-without-value"),
            DOp::N(_) => v.class("event-while-unlinked"),
            _ => {}
        }
    }
    if illegal {
        v.nontrivial();
    }
    v
}

// ------------------------------------------------------------------------------------------------
// generators
// ------------------------------------------------------------------------------------------------

const KEYS: [i32; 6] = [-2, 0, 1, 2, 3, 10];

#[derive(Clone, Debug)]
struct Raw {
    c: u8,
    e: u8,
    k: u16,
    v: i32,
    n: u64,
}

fn arb_raw() -> impl Strategy<Value = Raw> {
    (
        any::<u8>(),
        any::<u8>(),
        any::<u16>(),
        0i32..20,
        prop_oneof![
            12 => 0u64..7,
            1 => Just(u64::MAX),
            1 => 7u64..1000,
        ],
    )
        .prop_map(|(c, e, k, v, n)| Raw { c, e, k, v, n })
}

/// Marks a take/drop count that is to be chosen relative to the size of the map (bulk regime).
const REL: u64 = 1 << 40;

fn event_of(kind: Kind, r: &Raw, bulk: bool) -> Note {
    match kind {
        Kind::Value => Note::Set(r.v),
        Kind::Map => {
            let k = KEYS[pick_index(r.k, KEYS.len())];
            match r.e {
                0..=29 if bulk => {
                    // sizes around the 64/65 boundary and well above it
                    let n = if r.v % 3 == 0 { 59 + r.k % 12 } else { 65 + r.k % 236 };
                    Note::Fill { n, seed: r.k / 300 }
                }
                186..=219 if bulk && r.v % 5 != 0 => Note::Take(REL | r.k as u64),
                220..=255 if bulk && r.v % 5 != 0 => Note::Drop(REL | r.k as u64),
                0..=114 => Note::Upd(k, r.v),
                115..=165 => Note::Rem(k),
                166..=185 => Note::Clear,
                186..=219 => Note::Take(r.n),
                _ => Note::Drop(r.n),
            }
        }
    }
}

fn write_of(kind: Kind, r: &Raw) -> Write {
    match kind {
        Kind::Value => Write::Set(100 + r.v),
        Kind::Map => {
            let k = KEYS[pick_index(r.k, KEYS.len())];
            match r.e % 8 {
                0..=4 => Write::Upd(k, 100 + r.v),
                5 | 6 => Write::Rem(k),
                _ => Write::Clear,
            }
        }
    }
}

/// Turn raw choices into a sequence a well-behaved link can produce:
/// `(linked event* [synced event*] unlinked)*`, a refused link (`unlinked` while unlinked), for
/// value downlinks at least one event before `synced`; local writes anywhere.
fn legalise(kind: Kind, raws: &[Raw], with_writes: bool, read_only_from_start: bool, term: bool, bulk: bool) -> Vec<DOp> {
    #[derive(PartialEq)]
    enum St {
        Unl,
        Lnk { has_value: bool },
        Syn,
    }
    let mut st = St::Unl;
    let mut ops = vec![];
    // a reconnect needs the hosted handle (the failing write) and terminate_on_unlinked = false
    let mut can_reconnect = !term && !read_only_from_start;
    if read_only_from_start {
        ops.push(DOp::C(Ctl::DropWriters));
    }
    for r in raws {
        // control actions are legal in every state (they are not notifications)
        match r.c {
            243..=249 if can_reconnect => {
                ops.push(DOp::C(Ctl::Reconnect));
                st = St::Unl;
                continue;
            }
            250..=252 => {
                ops.push(DOp::C(Ctl::DropWriters));
                can_reconnect = false;
                continue;
            }
            253 | 254 => {
                ops.push(DOp::C(Ctl::DropOutput));
                continue;
            }
            255 => {
                ops.push(DOp::C(Ctl::Stop));
                can_reconnect = false;
                continue;
            }
            _ => {}
        }
        let op = match st {
            St::Unl => match r.c {
                0..=199 => {
                    st = St::Lnk { has_value: false };
                    DOp::N(Note::Linked)
                }
                200..=211 => DOp::N(Note::Unlinked),
                _ if with_writes => DOp::W(write_of(kind, r)),
                _ => {
                    st = St::Lnk { has_value: false };
                    DOp::N(Note::Linked)
                }
            },
            St::Lnk { has_value } => match r.c {
                0..=149 => {
                    st = St::Lnk { has_value: true };
                    DOp::N(event_of(kind, r, bulk))
                }
                150..=199 => {
                    if kind == Kind::Map || has_value {
                        st = St::Syn;
                        DOp::N(Note::Synced)
                    } else {
                        st = St::Lnk { has_value: true };
                        DOp::N(event_of(kind, r, bulk))
                    }
                }
                200..=211 => {
                    st = St::Unl;
                    DOp::N(Note::Unlinked)
                }
                _ if with_writes => DOp::W(write_of(kind, r)),
                _ => {
                    st = St::Lnk { has_value: true };
                    DOp::N(event_of(kind, r, bulk))
                }
            },
            St::Syn => match r.c {
                0..=179 => DOp::N(event_of(kind, r, bulk)),
                180..=204 => {
                    st = St::Unl;
                    DOp::N(Note::Unlinked)
                }
                _ if with_writes => DOp::W(write_of(kind, r)),
                _ => DOp::N(event_of(kind, r, bulk)),
            },
        };
        ops.push(op);
    }
    ops
}

/// Arbitrary order (the illegal class).
/// Bulk regime post-pass: at most two `Fill`s per case (cost), and the relative take/drop counts
/// are resolved against the size the map has at that point: 0..=len+2.
fn resolve_bulk(kind: Kind, ops: &mut [DOp]) {
    let mut rs = RefState::new(kind, true, false, false);
    let mut fills = 0;
    for op in ops.iter_mut() {
        let len = rs.linked.as_ref().map(|l| l.map.len()).unwrap_or(0);
        match op {
            DOp::N(Note::Fill { seed, .. }) => {
                fills += 1;
                if fills > 2 {
                    *op = DOp::N(Note::Upd(100 + (*seed as i32 % 50), 1));
                }
            }
            DOp::N(Note::Take(n)) if *n & REL != 0 => *n = pick_index((*n & 0xffff) as u16, len + 3) as u64,
            DOp::N(Note::Drop(n)) if *n & REL != 0 => *n = pick_index((*n & 0xffff) as u16, len + 3) as u64,
            _ => {}
        }
        rs.step(op);
    }
}

fn anyorder(kind: Kind, raws: &[Raw], bulk: bool) -> Vec<DOp> {
    raws.iter()
        .map(|r| match r.c {
            0..=39 => DOp::N(Note::Linked),
            40..=79 => DOp::N(Note::Synced),
            80..=109 => DOp::N(Note::Unlinked),
            110..=229 => DOp::N(event_of(kind, r, bulk)),
            250..=252 => DOp::C(Ctl::DropWriters),
            253 | 254 => DOp::C(Ctl::DropOutput),
            255 => DOp::C(Ctl::Stop),
            _ => DOp::W(write_of(kind, r)),
        })
        .collect()
}

fn arb_case(kind: Kind, max_ops: usize, legal: bool) -> impl Strategy<Value = Case> {
    (
        (any::<bool>(), any::<bool>(), any::<u64>(), any::<bool>(), prop_oneof![3 => Just(false), 1 => Just(true)], any::<bool>()),
        // small budgets starve the agent task (every idle byte-channel poll costs one unit): not C08's subject
        prop_oneof![Just(8usize), Just(16), Just(64)],
        // large enough for all frames of a case: the harness never splits a frame (see drive.rs)
        prop_oneof![Just(4096usize), Just(8192)],
        proptest::collection::vec(arb_raw(), 1..max_ops),
        prop_oneof![
            1 => Just(vec![]),
            2 => proptest::collection::vec(any::<bool>(), max_ops),
            1 => Just(vec![true; max_ops]),
        ],
        prop_oneof![3 => Just(None), 2 => (1usize..12).prop_map(Some)],
        prop_oneof![11 => Just(false), 1 => Just(true)],
    )
        .prop_map(move |((ewns, term, seed, with_writes, ro_start, close_input), budget, in_cap, raws, mut batch, drop_cb, bulk)| {
            let mut ops = if legal { legalise(kind, &raws, with_writes, ro_start, term || drop_cb.is_some(), bulk && kind == Kind::Map) } else { anyorder(kind, &raws, bulk && kind == Kind::Map) };
            ops.truncate(max_ops);
            if bulk && kind == Kind::Map {
                resolve_bulk(kind, &mut ops);
            }
            if drop_cb.is_some() {
                // the position of the drop is a callback, not an op: keep ops that depend on the
                // hosted handle still existing out of these cases
                ops.retain(|op| !matches!(op, DOp::C(Ctl::Stop) | DOp::C(Ctl::Reconnect)));
            }
            batch.truncate(ops.len());
            Case {
                kind,
                events_when_not_synced: ewns,
                terminate_on_unlinked: term,
                seed,
                budget,
                in_cap,
                ops,
                batch,
                close_input,
                drop_writers_in_callback: drop_cb,
            }
        })
}

fn main() {
    let args: Vec<String> = std::env::args().skip(1).collect();
    let mut ctx = Ctx::new("C08", &args);
    ctx.rule(
        "legal classes: notification sequences a well-behaved link can produce ((linked event* [synced event*] unlinked)*, \
         refused link, value lanes send a value before synced; map events update/remove/clear/take/drop over 6 keys) x \
         events_when_not_synced x terminate_on_unlinked x interleaved local writes through the handle x \
         control actions at generated positions (drop every write handle = read-only loops of the client tasks / hosted write \
         stream end; client output channel lost; hosted handle.stop(); input closed at the end) x \
         coop budget / select seed (frames are delivered whole), fed to the real client downlink task and to the real agent-hosted \
         downlink, once settling after every op and once with a generated batching. Non-trivial = at least one event \
         received while linked-not-synced with lifecycle events suppressed, or a take/drop received while linked. Illegal \
         classes (arbitrary order): non-trivial = contains a transition a well-behaved link cannot produce; checked only \
         for panics/hangs. Distinct by the Debug form of the case.",
    );
    ctx.assume("the reference fold (model.rs) is the meaning of the statement: state = fold of notifications since linked; local writes are not notifications; callbacks only when synced or events_when_not_synced");
    ctx.assume("for take/drop the statement fixes the state before and after the notification, not intermediate states: the reference accepts on_remove per entry in key order with the progressive or the final map, or on_clear when every entry goes; the differential part still requires client == hosted exactly");
    ctx.assume("key order of a map downlink = numeric order of the i32 keys (BTreeMap order = Recon Value order for Int32)");
    let n_map = ctx.pick(160_000, 8_000_000);
    let n_val = ctx.pick(60_000, 3_000_000);
    let n_ill = ctx.pick(30_000, 1_500_000);
    let max_ops = ctx.pick(40, 80);
    ctx.prop("map-legal", n_map, move || arb_case(Kind::Map, max_ops, true), check_legal);
    ctx.prop("value-legal", n_val, move || arb_case(Kind::Value, max_ops, true), check_legal);
    ctx.prop("map-anyorder", n_ill, move || arb_case(Kind::Map, max_ops, false), check_illegal);
    ctx.prop("value-anyorder", n_ill, move || arb_case(Kind::Value, max_ops, false), check_illegal);
    ctx.finish();
}
