#!/bin/bash
# tools/run_seeds.sh "<seeds>" <ID>...   runs quick for each seed and ID; appends one line per run to logs/seeds-summary.txt
SEEDS=$1; shift
for s in $SEEDS; do for id in "$@"; do
  t=$(date +%s)
  VERIF_SEED=$s timeout 3000 /verif/check $id quick > /verif/logs/seed-$id-$s.log 2>&1
  rc=$?
  echo "$id seed=$s rc=$rc $(( $(date +%s)-t ))s $(grep -E 'quick:' /verif/logs/seed-$id-$s.log | head -1 | cut -c1-140) $(grep -c '^VIOLATION' /verif/logs/seed-$id-$s.log) violation-lines" >> /verif/logs/seeds-summary.txt
done; done
