//! A second Recon writer for model values that makes syntactic choices the library printers never
//! make (braced vs. flattened attribute bodies, `;` and newline separators, quoted identifiers,
//! `@a` vs `@a()`, `@a x` vs `@a {x}`, ...), driven by a generated style word. The oracle of C16
//! compares two readers on the *same text*, so this writer does not have to be a faithful encoding
//! of the value: any text is a legitimate input.

use swimos_model::identifier::is_identifier;
use swimos_model::{Attr, Value};
use swimos_recon::print_recon_compact;
use vgen::{I, V};

pub struct Style {
    seed: u64,
    n: u64,
}

impl Style {
    pub fn new(seed: u64) -> Style {
        Style { seed, n: 0 }
    }

    /// Next choice in 0..k (deterministic in (seed, position)).
    fn pick(&mut self, k: u64) -> u64 {
        if self.seed == 0 {
            return 0;
        }
        self.n += 1;
        let mut z = self.seed.wrapping_add(self.n.wrapping_mul(0x9E3779B97F4A7C15));
        z = (z ^ (z >> 30)).wrapping_mul(0xBF58476D1CE4E5B9);
        z = (z ^ (z >> 27)).wrapping_mul(0x94D049BB133111EB);
        z ^= z >> 31;
        z % k
    }
}

fn leaf(v: &V, st: &mut Style, out: &mut String) {
    match v {
        V::Extant => {}
        V::Text(s) if is_identifier(s) && st.pick(3) == 1 => {
            out.push('"');
            out.push_str(s);
            out.push('"');
        }
        _ => out.push_str(&format!("{}", print_recon_compact(&v.to_value()))),
    }
}

fn attr_name(name: &str, out: &mut String) {
    // `@name` or `@"quoted name"` exactly as the library prints it
    let v = Value::Record(vec![Attr::of(name)], vec![]);
    out.push_str(&format!("{}", print_recon_compact(&v)));
}

fn items(list: &[I], st: &mut Style, out: &mut String) {
    let sep = match st.pick(5) {
        0 => ",",
        1 => ", ",
        2 => ";",
        3 => "\n",
        _ => " , ",
    };
    for (i, it) in list.iter().enumerate() {
        if i > 0 {
            out.push_str(sep);
        }
        match it {
            I::Val(v) => value(v, st, out),
            I::Slot(k, v) => {
                value(k, st, out);
                out.push_str(if st.pick(2) == 0 { ":" } else { ": " });
                value(v, st, out);
            }
        }
    }
}

fn is_scalar(v: &V) -> bool {
    !matches!(v, V::Record(..) | V::Extant)
}

pub fn value(v: &V, st: &mut Style, out: &mut String) {
    match v {
        V::Record(attrs, list) => {
            for (i, (name, body)) in attrs.iter().enumerate() {
                if i > 0 && st.pick(2) == 0 {
                    out.push(' ');
                }
                attr_name(name, out);
                match body {
                    V::Extant => {
                        if st.pick(3) == 1 {
                            out.push_str("()");
                        }
                    }
                    V::Record(a, inner) if a.is_empty() && !inner.is_empty() => {
                        if st.pick(2) == 0 {
                            out.push('(');
                            items(inner, st, out);
                            out.push(')');
                        } else {
                            out.push_str("({");
                            items(inner, st, out);
                            out.push_str("})");
                        }
                    }
                    other => {
                        out.push('(');
                        value(other, st, out);
                        out.push(')');
                    }
                }
            }
            if attrs.is_empty() {
                out.push('{');
                items(list, st, out);
                out.push('}');
            } else if list.is_empty() {
                match st.pick(3) {
                    0 => {}
                    1 => out.push_str("{}"),
                    _ => out.push_str(" { }"),
                }
            } else if list.len() == 1 && matches!(&list[0], I::Val(x) if is_scalar(x)) && st.pick(2) == 0 {
                out.push(' ');
                items(list, st, out);
            } else {
                if st.pick(2) == 0 {
                    out.push(' ');
                }
                out.push('{');
                if st.pick(4) == 0 {
                    out.push(' ');
                }
                items(list, st, out);
                if st.pick(4) == 0 {
                    out.push(' ');
                }
                out.push('}');
            }
        }
        other => leaf(other, st, out),
    }
}

pub fn print(v: &V, style: u64) -> String {
    let mut out = String::new();
    let mut st = Style::new(style);
    value(v, &mut st, &mut out);
    out
}
