//! C16 Form: typed, model and wire representations of a value all agree.
use crate::battery::{any_case, visit_type, AnyCase, Battery, TypeInfo, TypeVisitor, Visitor, TYPES};
use crate::mutate::{apply, arb_mutation, Mutation};
use crate::vprint;
use bytes::{BufMut, BytesMut};
use proptest::prelude::*;
use serde::{Deserialize, Serialize};
use std::fmt::Debug;
use swimos_form::read::{ExpectedEvent, ReadError, ReadEvent, Recognizer, RecognizerReadable};
use swimos_form::write::StructuralWritable;
use swimos_model::Value;
use swimos_msgpack::{read_from_msg_pack, MsgPackInterpreter, MsgPackReadError};
use swimos_recon::parser::{parse_recognize, ParseError};
use swimos_recon::{print_recon, print_recon_compact, print_recon_pretty};
use vcommon::{pick_index, Ctx, Verdict};
use vgen::V;

/// Name of the error variant (no payload): a stable label for signatures.
fn variant_name<E: Debug>(e: &E) -> String {
    format!("{:?}", e).chars().take_while(|c| c.is_alphanumeric()).collect()
}

fn expected_cell(e: &ExpectedEvent) -> String {
    match e {
        ExpectedEvent::ValueEvent(k) => format!("{:?}", k),
        ExpectedEvent::Attribute(_) => "Attribute".to_string(),
        ExpectedEvent::Or(list) => format!("Or[{}]", list.iter().map(expected_cell).collect::<Vec<_>>().join("|")),
        ow => variant_name(ow),
    }
}

/// The cell of the error table a rejection falls into: the error variant, and for kind errors what
/// was seen and what was expected (names and other case specific payload dropped).
fn error_cell(e: &ReadError) -> String {
    match e {
        ReadError::UnexpectedKind { actual, expected } => format!(
            "UnexpectedKind({:?}->{})",
            actual,
            expected.as_ref().map(expected_cell).unwrap_or_else(|| "None".to_string())
        ),
        ow => variant_name(ow),
    }
}

#[derive(Debug)]
struct Rejected {
    kind: String,
    detail: String,
    /// the text itself is not well-formed Recon (only the parser can say that)
    syntax: bool,
}

fn parse_rejected(e: ParseError) -> Rejected {
    match &e {
        ParseError::Structure(inner) => Rejected { kind: error_cell(inner), detail: format!("{:?}", e), syntax: false },
        _ => Rejected { kind: variant_name(&e), detail: format!("{:?}", e), syntax: true },
    }
}

fn read_rejected(e: ReadError) -> Rejected {
    Rejected { kind: error_cell(&e), detail: format!("{:?}", e), syntax: false }
}

fn short(s: &str) -> String {
    if s.len() <= 600 {
        s.to_string()
    } else {
        let mut end = 600;
        while !s.is_char_boundary(end) {
            end -= 1;
        }
        format!("{}...({} bytes)", &s[..end], s.len())
    }
}

struct Agreement {
    /// both paths accepted (and produced the same value)
    accepted: bool,
    /// the text was not well-formed Recon: outside the property's domain
    ill_formed: bool,
}

/// The heart of the check: read `text` as `T` directly with the event-driven parser, and by parsing it
/// to the model first and converting (by reference and by value). Same accept/reject, same value.
fn compare_readers<T: Battery>(v: &mut Verdict, info: &TypeInfo, text: &str) -> (Agreement, Option<T>) {
    let direct: Result<T, Rejected> = parse_recognize::<T>(text, false).map_err(parse_rejected);
    let parsed: Result<Value, Rejected> = parse_recognize::<Value>(text, false).map_err(parse_rejected);
    let (model, model_owned): (Result<T, Rejected>, Result<T, Rejected>) = match parsed {
        Ok(val) => {
            let by_ref = T::try_from_value(&val).map_err(read_rejected);
            let owned = T::try_convert(val).map_err(read_rejected);
            (by_ref, owned)
        }
        Err(r) => {
            if r.syntax {
                // Not well-formed Recon. (The typed reader may have stopped before the offending
                // position; that is not a disagreement about a well-formed input.)
                return (Agreement { accepted: false, ill_formed: true }, None);
            }
            let r2 = Rejected { kind: r.kind.clone(), detail: r.detail.clone(), syntax: false };
            (Err(r), Err(r2))
        }
    };
    let name = info.name;
    match (&model, &model_owned) {
        (Ok(a), Ok(b)) => {
            if !a.same(b) {
                v.fail(
                    format!("model-ref-vs-owned-value:{}", name),
                    format!("text {:?}: try_from_value gives {:?} but try_convert gives {:?}", short(text), a, b),
                );
            }
        }
        (Err(_), Err(_)) => {}
        (a, b) => {
            v.fail(
                format!("model-ref-vs-owned-accept:{}", name),
                format!(
                    "text {:?}: try_from_value -> {:?} but try_convert -> {:?}",
                    short(text),
                    a.as_ref().map_err(|r| &r.detail),
                    b.as_ref().map_err(|r| &r.detail)
                ),
            );
        }
    }
    let mut accepted = false;
    match (&direct, &model) {
        (Ok(a), Ok(b)) => {
            if a.same(b) {
                accepted = true;
            } else {
                v.fail(
                    format!("readers-value:{}", name),
                    format!(
                        "text {:?}: parse_recognize::<{}> gives {:?} but parse to Value then try_from_value gives {:?}",
                        short(text),
                        name,
                        a,
                        b
                    ),
                );
            }
        }
        (Err(_), Err(_)) => {}
        (Ok(a), Err(r)) => {
            v.fail(
                format!("readers-accept:direct-only/{}", r.kind),
                format!(
                    "text {:?}: parse_recognize::<{}> accepts ({:?}) but parse to Value then try_from_value rejects with {}",
                    short(text),
                    name,
                    a,
                    r.detail
                ),
            );
        }
        (Err(r), Ok(b)) => {
            v.fail(
                format!("readers-accept:model-only/{}", r.kind),
                format!(
                    "text {:?}: parse_recognize::<{}> rejects with {} but parse to Value then try_from_value accepts ({:?})",
                    short(text),
                    name,
                    r.detail,
                    b
                ),
            );
        }
    }
    (Agreement { accepted, ill_formed: false }, direct.ok())
}

fn to_msgpack<W: StructuralWritable>(value: &W) -> Result<BytesMut, String> {
    let mut buffer = BytesMut::new();
    {
        let mut writer = (&mut buffer).writer();
        let interp = MsgPackInterpreter::new(&mut writer);
        value.write_with(interp).map_err(|e| format!("{:?}", e))?;
    }
    Ok(buffer)
}

fn msgpack_kind(e: &MsgPackReadError) -> String {
    match e {
        MsgPackReadError::Structure(inner) => error_cell(inner),
        ow => variant_name(ow),
    }
}

// ---------------------------------------------------------------------------------------------
// sub-check 1: typed instances

struct TypedCheck;

impl Visitor for TypedCheck {
    type Out = Verdict;

    fn visit<T: Battery>(self, info: &'static TypeInfo, value: &T) -> Verdict {
        let mut v = Verdict::new();
        let name = info.name;
        // typed -> model -> typed
        let model = value.as_value();
        match T::try_from_value(&model) {
            Ok(back) => {
                if !back.same(value) {
                    v.fail(
                        format!("model-roundtrip:{}/changed", name),
                        format!("{:?} -> as_value {:?} -> try_from_value gives {:?}", value, V::from_value(&model), back),
                    );
                }
            }
            Err(e) => v.fail(
                format!("model-roundtrip:{}/rejected/{}", name, error_cell(&e)),
                format!("{:?} -> as_value {:?} -> try_from_value fails with {:?}", value, V::from_value(&model), e),
            ),
        }
        let owned_model = value.clone().into_value();
        match T::try_convert(owned_model) {
            Ok(back) => {
                if !back.same(value) {
                    v.fail(
                        format!("model-roundtrip-owned:{}/changed", name),
                        format!("{:?} -> into_value -> try_convert gives {:?}", value, back),
                    );
                }
            }
            Err(e) => v.fail(
                format!("model-roundtrip-owned:{}/rejected/{}", name, error_cell(&e)),
                format!("{:?} -> into_value -> try_convert fails with {:?}", value, e),
            ),
        }
        // typed -> text -> {typed, model -> typed}
        let texts = [
            format!("{}", print_recon(value)),
            format!("{}", print_recon_compact(value)),
            format!("{}", print_recon_pretty(value)),
        ];
        for (i, text) in texts.iter().enumerate() {
            if i > 0 && *text == texts[0] {
                continue;
            }
            let (agreement, direct) = compare_readers::<T>(&mut v, info, text);
            if agreement.ill_formed {
                v.class("own-text-ill-formed");
            } else if agreement.accepted {
                v.class("own-text-accepted");
                if let Some(d) = direct {
                    if !d.same(value) {
                        // not a C16 law (that is C09), recorded for information only
                        v.class("own-text-readers-agree-but-differ-from-original");
                    }
                }
            } else {
                v.class("own-text-not-accepted");
            }
        }
        // typed -> MessagePack -> typed
        match to_msgpack(value) {
            Ok(bytes) => {
                let mut input = bytes.clone().freeze();
                match read_from_msg_pack::<T, _>(&mut input) {
                    Ok(back) => {
                        if !back.same(value) {
                            v.fail(
                                format!("msgpack-roundtrip:{}/changed", name),
                                format!("{:?} -> MessagePack {:02x?} -> read gives {:?}", value, bytes.as_ref(), back),
                            );
                        }
                    }
                    Err(e) => v.fail(
                        format!("msgpack-roundtrip:{}/rejected/{}", name, msgpack_kind(&e)),
                        format!("{:?} -> MessagePack {:02x?} -> read fails with {:?}", value, bytes.as_ref(), e),
                    ),
                }
            }
            Err(e) => v.fail(
                format!("msgpack-write:{}", name),
                format!("{:?}: writing as MessagePack failed: {}", value, e),
            ),
        }
        // typed -> model -> MessagePack -> typed
        match to_msgpack(&model) {
            Ok(bytes) => {
                let mut input = bytes.clone().freeze();
                match read_from_msg_pack::<T, _>(&mut input) {
                    Ok(back) => {
                        if !back.same(value) {
                            v.fail(
                                format!("msgpack-of-model:{}/changed", name),
                                format!(
                                    "{:?} -> as_value {:?} -> MessagePack {:02x?} -> read as {} gives {:?}",
                                    value,
                                    V::from_value(&model),
                                    bytes.as_ref(),
                                    name,
                                    back
                                ),
                            );
                        }
                    }
                    Err(e) => v.fail(
                        format!("msgpack-of-model:{}/rejected/{}", name, msgpack_kind(&e)),
                        format!(
                            "{:?} -> as_value {:?} -> MessagePack {:02x?} -> read as {} fails with {:?}",
                            value,
                            V::from_value(&model),
                            bytes.as_ref(),
                            name,
                            e
                        ),
                    ),
                }
            }
            Err(e) => v.fail(
                format!("msgpack-write-model:{}", name),
                format!("{:?}: writing the model value as MessagePack failed: {}", value, e),
            ),
        }
        if info.features.len() >= 2 {
            v.nontrivial();
        }
        v.class(info.name);
        v
    }
}

// ---------------------------------------------------------------------------------------------
// sub-checks 2-4: any input

struct TextCheck<'a> {
    text: &'a str,
}

impl<'a> TypeVisitor for TextCheck<'a> {
    type Out = (Verdict, bool, bool);

    fn visit<T: Battery>(self, info: &'static TypeInfo) -> (Verdict, bool, bool) {
        let mut v = Verdict::new();
        let (agreement, _) = compare_readers::<T>(&mut v, info, self.text);
        (v, agreement.accepted, agreement.ill_formed)
    }
}

fn check_text(v: &mut Verdict, target: usize, text: &str) -> bool {
    let (sub, accepted, ill_formed) = visit_type(target, TextCheck { text });
    v.failures.extend(sub.failures);
    if ill_formed {
        v.class("ill-formed-text");
    } else if accepted {
        v.class("accepted-by-both");
    } else {
        v.class("not-accepted");
    }
    accepted
}

struct ModelOf;
impl Visitor for ModelOf {
    type Out = (Value, [String; 2]);
    fn visit<T: Battery>(self, _info: &'static TypeInfo, value: &T) -> Self::Out {
        (
            value.as_value(),
            [format!("{}", print_recon(value)), format!("{}", print_recon_compact(value))],
        )
    }
}

/// Printer output of a value of one battery type, read as another battery type.
#[derive(Clone, Debug, Serialize, Deserialize)]
struct CrossCase {
    source: AnyCase,
    target: u16,
    style: u64,
}

fn check_cross(case: &CrossCase) -> Verdict {
    let mut v = Verdict::new();
    let target = pick_index(case.target, TYPES.len());
    let (model, texts) = case.source.visit(ModelOf);
    let variant = vprint::print(&V::from_value(&model), case.style);
    let mut any_accept = false;
    for text in texts.iter().chain(std::iter::once(&variant)) {
        any_accept |= check_text(&mut v, target, text);
    }
    let same_type = target == case.source.info().index;
    v.class(TYPES[target].name);
    v.class_if(same_type, "same-type");
    v.class_if(!same_type && any_accept, "other-type-accepted");
    // schema violating input (or a type with >= 2 derive features reading its own output)
    if !same_type || TYPES[target].features.len() >= 2 {
        v.nontrivial();
    }
    v
}

/// A generated value near a type's schema, printed (library printer and the variant writer).
#[derive(Clone, Debug, Serialize, Deserialize)]
struct NearCase {
    source: AnyCase,
    mutations: Vec<Mutation>,
    style: u64,
}

fn check_near(case: &NearCase) -> Verdict {
    let mut v = Verdict::new();
    let info = case.source.info();
    let (model, _) = case.source.visit(ModelOf);
    let mut val = V::from_value(&model);
    let mut applied = 0;
    for m in &case.mutations {
        if apply(&mut val, m) {
            applied += 1;
            v.class(m.op.label());
        }
    }
    v.class_if(applied == 0, "no-mutation-applied");
    v.class(info.name);
    let as_value = val.to_value();
    let texts = [
        format!("{}", print_recon(&as_value)),
        vprint::print(&val, case.style),
        vprint::print(&val, case.style.rotate_left(17) ^ 0x5851F42D4C957F2D),
    ];
    for (i, text) in texts.iter().enumerate() {
        if i > 0 && texts[..i].contains(text) {
            continue;
        }
        check_text(&mut v, info.index, text);
    }
    if applied > 0 || info.features.len() >= 2 {
        v.nontrivial();
    }
    v
}

/// An arbitrary model value read as every battery type.
#[derive(Clone, Debug, Serialize, Deserialize)]
struct ArbCase {
    value: V,
    style: u64,
}

fn check_arb(case: &ArbCase) -> Verdict {
    let mut v = Verdict::new();
    let texts = [
        format!("{}", print_recon(&case.value.to_value())),
        vprint::print(&case.value, case.style),
    ];
    for target in 0..TYPES.len() {
        for (i, text) in texts.iter().enumerate() {
            if i > 0 && texts[..i].contains(text) {
                continue;
            }
            check_text(&mut v, target, text);
        }
    }
    v.nontrivial();
    v
}

/// A "type" whose recogniser only records the events it is fed (developer aid).
struct EventLog;
struct EventLogRec(Vec<String>);
impl Recognizer for EventLogRec {
    type Target = EventLog;
    fn feed_event(&mut self, input: ReadEvent<'_>) -> Option<Result<EventLog, ReadError>> {
        self.0.push(format!("{:?}", input));
        None
    }
    fn try_flush(&mut self) -> Option<Result<EventLog, ReadError>> {
        Some(Err(ReadError::Message(self.0.join(" ").into())))
    }
    fn reset(&mut self) {}
}
impl RecognizerReadable for EventLog {
    type Rec = EventLogRec;
    type AttrRec = EventLogRec;
    type BodyRec = EventLogRec;
    fn make_recognizer() -> EventLogRec {
        EventLogRec(vec![])
    }
    fn make_attr_recognizer() -> EventLogRec {
        EventLogRec(vec![])
    }
    fn make_body_recognizer() -> EventLogRec {
        EventLogRec(vec![])
    }
}

fn events_of_text(text: &str) -> String {
    match parse_recognize::<EventLog>(text, false) {
        Err(ParseError::Structure(ReadError::Message(m))) => m.to_string(),
        Err(e) => format!("{:?}", e),
        Ok(_) => unreachable!(),
    }
}

fn events_of_value(value: &Value) -> String {
    match EventLog::try_read_from(value) {
        Err(ReadError::Message(m)) => m.to_string(),
        Err(e) => format!("{:?}", e),
        Ok(_) => unreachable!(),
    }
}

struct Probe<'a>(&'a str);
impl<'a> TypeVisitor for Probe<'a> {
    type Out = ();
    fn visit<T: Battery>(self, info: &'static TypeInfo) {
        let text = self.0;
        println!("type {} text {:?}", info.name, text);
        println!("  events(text) : {}", events_of_text(text));
        println!("  direct : {:?}", parse_recognize::<T>(text, false));
        let parsed = parse_recognize::<Value>(text, false);
        println!("  value  : {:?}", parsed.as_ref().map(V::from_value));
        if let Ok(val) = parsed {
            println!("  events(value): {}", events_of_value(&val));
            println!("  model  : {:?}", T::try_from_value(&val));
            println!("  reprint: {}", print_recon(&val));
        }
    }
}

pub fn probe(ty: &str, text: &str) {
    match TYPES.iter().find(|t| t.name == ty) {
        Some(info) => visit_type(info.index, Probe(text)),
        None => println!("unknown type {}; known: {:?}", ty, TYPES.iter().map(|t| t.name).collect::<Vec<_>>()),
    }
}

pub fn run(ctx: &mut Ctx) {
    ctx.rule(
        "typed: instances of 90 battery types (83 derived or instantiated generic with tag / rename / convention / header / header_body / attr / \
         body / slot / skip / newtype / generics / nesting / collections, 7 built-in), uniform over types, fields at \
         numeric / text boundaries. cross: printer output (3 writers) of one type read as a random battery type. near: \
         as_value of an instance with 1-3 structural edits (missing / extra / duplicate / reordered items and attributes, \
         wrong tag, wrong kind, numeric edge, wrap / unwrap), printed by the library and by a variant-syntax writer. arb: \
         arbitrary model values read as every type. Non-trivial = the type uses >= 2 derive features, or the input is \
         schema violating (other type / mutated / arbitrary). Distinct by Debug form of the case.",
    );
    ctx.assume(
        "two typed instances are equal iff their serde_json trees are equal (exact float bits, HashMap order \
         insensitive); skipped fields are generated at their default",
    );
    ctx.assume(
        "texts for which parse_recognize::<Value> reports a syntax error are outside the domain (counted as \
         ill-formed-text, not compared)",
    );

    let n_types = TYPES.len() as u64;
    let typed = ctx.pick(n_types * 8_000, n_types * 200_000);
    ctx.prop("typed", typed, any_case, |c: &AnyCase| c.visit(TypedCheck));

    // values whose lengths cross the 16 bit MessagePack / collection boundaries (typed laws only)
    let sizes = ctx.pick(400, 10_000);
    ctx.prop(
        "sizes",
        sizes,
        || crate::battery::Sizes::arb_big().prop_map(AnyCase::Sizes),
        |c: &AnyCase| c.visit(TypedCheck),
    );

    let cross = ctx.pick(600_000, 15_000_000);
    ctx.prop(
        "cross",
        cross,
        || {
            (any_case(), prop_oneof![any::<u16>()], prop_oneof![Just(0u64), any::<u64>()])
                .prop_map(|(source, target, style)| CrossCase { source, target, style })
        },
        check_cross,
    );

    let near = ctx.pick(1_000_000, 25_000_000);
    ctx.prop(
        "near",
        near,
        || {
            (any_case(), proptest::collection::vec(arb_mutation(), 1..=3), any::<u64>())
                .prop_map(|(source, mutations, style)| NearCase { source, mutations, style })
        },
        check_near,
    );

    let arb = ctx.pick(50_000, 1_250_000);
    ctx.prop(
        "arb",
        arb,
        || (vgen::arb_value(false), any::<u64>()).prop_map(|(value, style)| ArbCase { value, style }),
        check_arb,
    );
}
