//! C09: the incremental decoder agrees with the one-shot parser for every single cut (oracle inside
//! the target); no panic on any input. Known cells are skipped (see README).
#![no_main]
use bytes::{BufMut, BytesMut};
use libfuzzer_sys::fuzz_target;
use swimos_form::read::RecognizerReadable;
use swimos_recon::parser::{parse_recognize, RecognizerDecoder};
use tokio_util::codec::Decoder;

include!("common.rs");

#[derive(Debug)]
enum Outcome {
    Val(Value),
    Err,
    Nothing,
}

fn run(chunks: &[&[u8]]) -> (Outcome, usize) {
    let mut dec = RecognizerDecoder::new(Value::make_recognizer());
    let mut buf = BytesMut::new();
    let mut consumed = 0;
    for (i, ch) in chunks.iter().enumerate() {
        buf.put_slice(ch);
        let before = buf.len();
        let r = if i + 1 == chunks.len() { dec.decode_eof(&mut buf) } else { dec.decode(&mut buf) };
        consumed += before - buf.len();
        match r {
            Ok(None) => {}
            Ok(Some(v)) => return (Outcome::Val(v), consumed),
            Err(_) => return (Outcome::Err, consumed),
        }
    }
    (Outcome::Nothing, consumed)
}

fn agrees(a: &Outcome, b: &Outcome) -> bool {
    match (a, b) {
        (Outcome::Val(x), Outcome::Val(y)) => structural_eq(x, y),
        (Outcome::Err, Outcome::Err) => true,
        _ => false,
    }
}

fuzz_target!(|data: &[u8]| {
    if data.len() > 4096 {
        return;
    }
    let Ok(text) = std::str::from_utf8(data) else {
        // invalid UTF-8: only "no panic"
        let _ = run(&[data]);
        if data.len() >= 2 {
            let _ = run(&[&data[..data.len() / 2], &data[data.len() / 2..]]);
        }
        return;
    };
    if has_surrogate_escape(text) {
        return;
    }
    let oneshot = match parse_recognize::<Value>(text, false) {
        Ok(v) => Outcome::Val(v),
        Err(_) => Outcome::Err,
    };
    let _ = parse_recognize::<Value>(text, true);
    let (whole, whole_consumed) = run(&[data]);
    assert!(
        agrees(&whole, &oneshot),
        "whole-buffer decoder {:?} != one-shot parser {:?} for {:?}",
        whole,
        oneshot,
        text
    );
    // Known finding (C09 chunk-result:*:top-level-bare-token): the first token of the input is cut wrongly.
    let t = text.trim_start_matches([' ', '\t', '\n', '\r']);
    if !t.is_empty() && !t.starts_with(['"', '@', '{']) {
        return;
    }
    let n = data.len();
    let stride = n / 256 + 1;
    for cut in (1..n).step_by(stride) {
        let (got, consumed) = run(&[&data[..cut], &data[cut..]]);
        assert!(
            agrees(&got, &oneshot),
            "cut at {}: chunked decoder {:?} != one-shot parser {:?} for {:?}",
            cut,
            got,
            oneshot,
            text
        );
        if matches!(got, Outcome::Val(_)) {
            assert_eq!(consumed, whole_consumed, "cut at {}: bytes consumed differ for {:?}", cut, text);
        }
    }
});
