// Shared helpers for the fuzz targets (included with `include!`).
use swimos_model::{Item, Value};

/// Kind-exact structural equality (unlike `Value::eq` it never identifies numbers of different kinds).
#[allow(dead_code)]
fn structural_eq(a: &Value, b: &Value) -> bool {
    match (a, b) {
        (Value::Extant, Value::Extant) => true,
        (Value::Int32Value(x), Value::Int32Value(y)) => x == y,
        (Value::Int64Value(x), Value::Int64Value(y)) => x == y,
        (Value::UInt32Value(x), Value::UInt32Value(y)) => x == y,
        (Value::UInt64Value(x), Value::UInt64Value(y)) => x == y,
        (Value::Float64Value(x), Value::Float64Value(y)) => (x.is_nan() && y.is_nan()) || x.to_bits() == y.to_bits(),
        (Value::BooleanValue(x), Value::BooleanValue(y)) => x == y,
        (Value::BigInt(x), Value::BigInt(y)) => x == y,
        (Value::BigUint(x), Value::BigUint(y)) => x == y,
        (Value::Text(x), Value::Text(y)) => x.as_str() == y.as_str(),
        (Value::Data(x), Value::Data(y)) => x.as_ref() == y.as_ref(),
        (Value::Record(a1, i1), Value::Record(a2, i2)) => {
            a1.len() == a2.len()
                && i1.len() == i2.len()
                && a1.iter().zip(a2).all(|(x, y)| x.name.as_str() == y.name.as_str() && structural_eq(&x.value, &y.value))
                && i1.iter().zip(i2).all(|(x, y)| match (x, y) {
                    (Item::ValueItem(x), Item::ValueItem(y)) => structural_eq(x, y),
                    (Item::Slot(k1, v1), Item::Slot(k2, v2)) => structural_eq(k1, k2) && structural_eq(v1, v2),
                    _ => false,
                })
        }
        _ => false,
    }
}

/// OPEN finding C09 `{value-roundtrip,cycle-undefined}:nonfinite-float`: an infinite / NaN float has no
/// parseable spelling. Used only to exempt the print -> parse law of `recon_parse` for such a value.
#[allow(dead_code)]
fn has_nonfinite_float(v: &Value) -> bool {
    match v {
        Value::Float64Value(x) => !x.is_finite(),
        Value::Record(a, i) => {
            a.iter().any(|a| has_nonfinite_float(&a.value))
                || i.iter().any(|i| match i {
                    Item::ValueItem(v) => has_nonfinite_float(v),
                    Item::Slot(k, v) => has_nonfinite_float(k) || has_nonfinite_float(v),
                })
        }
        _ => false,
    }
}
