#!/bin/bash
# Sensitivity of the fuzz targets without touching /repo (the fuzz analogue of tools/mutant.sh):
#   fuzz/mutant.sh <ID> <patch.diff|none> [total runs, default 1000000] [tier, default thorough]
#     * scratch git worktree of /repo's HEAD in /tmp/vmut/fuzz/repo, patch applied there,
#     * copy of /verif/fuzz in /tmp/vmut/fuzz/fuzz whose path dependencies point at that worktree (own target
#       dir, kept between runs so rebuilds are incremental),
#     * runs only the fuzz stage of `/verif/check <ID> <tier>` on that copy (VERIF_FUZZ_ONLY=1), with
#       replays / evidence / logs under /tmp/vmut/fuzz/out. Exit code = that of the check (1 = crash found).
#   fuzz/mutant.sh --clean     removes the worktree and the build output.
set -u
BASE=/tmp/vmut/fuzz
if [ "${1:-}" = "--clean" ]; then
  git -C /repo worktree remove --force "$BASE/repo" 2>/dev/null
  rm -rf "$BASE"; git -C /repo worktree prune; exit 0
fi
ID=${1:?id}; PATCH=${2:?patch or none}; RUNS=${3:-1000000}; TIER=${4:-thorough}
if [ "$PATCH" != "none" ]; then PATCH=$(readlink -f "$PATCH"); fi
mkdir -p "$BASE/out"
if [ ! -d "$BASE/repo" ]; then git -C /repo worktree add -q --detach "$BASE/repo" HEAD || exit 2; fi
git -C "$BASE/repo" checkout -q -- . && git -C "$BASE/repo" clean -fdq && git -C "$BASE/repo" checkout -q --detach "$(git -C /repo rev-parse HEAD)" || exit 2
# older diffs were taken before the fixes in /repo: fall back to reduced context, then to patch(1) with fuzz
if [ "$PATCH" != "none" ]; then
  git -C "$BASE/repo" apply "$PATCH" 2>/dev/null || git -C "$BASE/repo" apply -C1 "$PATCH" 2>/dev/null ||
    (cd "$BASE/repo" && patch -s -p1 -F3 -r - --no-backup-if-mismatch <"$PATCH") || { git -C "$BASE/repo" checkout -q -- .; echo "patch does not apply"; exit 2; }
fi
rsync -a --delete --exclude target --exclude artifacts --exclude work /verif/fuzz/ "$BASE/fuzz/"
sed -i "s|\"/repo/|\"$BASE/repo/|g" "$BASE/fuzz/Cargo.toml"
rm -rf "$BASE/out/replays" "$BASE/out/evidence"
if [ "$TIER" = quick ] && [ -d /verif/replays/"$ID" ]; then mkdir -p "$BASE/out/replays"; cp -r /verif/replays/"$ID" "$BASE/out/replays/"; fi
VERIF_FUZZ_ONLY=1 VERIF_FUZZ_DIR="$BASE/fuzz" VERIF_ROOT="$BASE/out" VERIF_FUZZ_RUNS="$RUNS" /verif/check "$ID" "$TIER"
RC=$?
git -C "$BASE/repo" checkout -q -- .
exit $RC
