//! Oracles: (1) valid streams under every fragmentation, (2) mutated streams.
use crate::fams::{layout, Dec, Fam, Field, FK};
use crate::model::*;
use bytes::BytesMut;
use proptest::prelude::*;
use serde::{Deserialize, Serialize};
use std::collections::HashMap;
use std::sync::Mutex;
use swimos_model::Value;
use swimos_recon::parser::parse_recognize;
use vcommon::{pick_index, Verdict};
use vgen::{I, V};

pub fn intern(s: String) -> &'static str {
    static TABLE: Mutex<Option<HashMap<String, &'static str>>> = Mutex::new(None);
    let mut g = TABLE.lock().unwrap();
    let t = g.get_or_insert_with(HashMap::new);
    if let Some(x) = t.get(&s) {
        return x;
    }
    let leaked: &'static str = Box::leak(s.clone().into_boxed_str());
    t.insert(s, leaked);
    leaked
}

#[derive(Clone, Debug, Serialize, Deserialize)]
pub struct Item {
    pub m: Msg,
    /// Ask for the Recon-printing encoder (where the family has one and the message allows it).
    pub typed: bool,
}

#[derive(Clone, Debug, Serialize, Deserialize)]
pub struct FragCase {
    pub items: Vec<Item>,
    /// Chunk sizes (mapped to 1..=12, cycled) of the random multi-split.
    pub cuts: Vec<u16>,
}

pub fn arb_items(fam: &Fam) -> BoxedStrategy<Vec<Item>> {
    let one = ((fam.msgs)(fam.sc_mode()), any::<bool>()).prop_map(|(m, typed)| Item { m, typed });
    proptest::collection::vec(one, 1..=8).boxed()
}

pub fn arb_cuts() -> BoxedStrategy<Vec<u16>> {
    proptest::collection::vec(
        prop_oneof![3 => 0u16..6000, 2 => any::<u16>(), 1 => Just(0u16)],
        1..24,
    )
    .boxed()
}

pub fn arb_frag(fam: &Fam) -> BoxedStrategy<FragCase> {
    (arb_items(fam), arb_cuts()).prop_map(|(items, cuts)| FragCase { items, cuts }).boxed()
}

// ---------------------------------------------------------------------------------------------
// Building the stream

pub struct Stream {
    pub bytes: Vec<u8>,
    /// End offset of each frame.
    pub ends: Vec<usize>,
    /// What the decoder under test must produce for each frame.
    pub expected: Vec<Msg>,
    /// (frame index, field with absolute offset)
    pub fields: Vec<(usize, Field)>,
    pub typed_enc: usize,
    pub raw_enc: usize,
    /// Strict families only: the frame carries a body that is not of the decoder's type (the
    /// entry of `expected` is then just the original message, as a placeholder).
    pub ill: Vec<bool>,
}

impl Stream {
    pub fn start(&self, frame: usize) -> usize {
        if frame == 0 {
            0
        } else {
            self.ends[frame - 1]
        }
    }
}

fn one_shot(bytes: &[u8]) -> Option<V> {
    let s = std::str::from_utf8(bytes).ok()?;
    parse_recognize::<Value>(s, false).ok().map(|v| V::from_value(&v))
}

/// The message the decoder side must yield: raw decoders hand back the body bytes as they are
/// on the wire; typed decoders what a one-shot parse of those bytes gives (so that this check
/// is about framing, not about Recon print/parse fidelity, which is C09).
pub fn expected_of(fam: &Fam, m: &Msg) -> Option<Msg> {
    m.map_scalars(&mut |s| {
        if fam.raw_dec {
            Some(Sc::Bytes(s.wire()))
        } else {
            let r = one_shot(&s.wire()).map(Sc::Recon);
            if r.is_none() && std::env::var("C10_DEBUG_SKIP").is_ok() {
                eprintln!("not one-shot parseable: {:?} = {:?}", s, String::from_utf8_lossy(&s.wire()));
            }
            r
        }
    })
}

/// Strict (`i32`) decoders: `None` when some body of the message is not an `i32` for the one-shot parser.
pub fn expected_strict(m: &Msg) -> Option<Msg> {
    m.map_scalars(&mut |s| {
        let w = s.wire();
        let text = std::str::from_utf8(&w).ok()?;
        parse_recognize::<i32>(text, false).ok().map(|n| Sc::Recon(V::I32(n)))
    })
}

pub fn build(fam: &Fam, items: &[Item]) -> Option<Stream> {
    let mut dst = BytesMut::new();
    let mut st = Stream { bytes: vec![], ends: vec![], expected: vec![], fields: vec![], typed_enc: 0, raw_enc: 0, ill: vec![] };
    for (i, it) in items.iter().enumerate() {
        let before = dst.len();
        let typed = fam.encode(&it.m, it.typed, &mut dst);
        if typed {
            st.typed_enc += 1;
        } else {
            st.raw_enc += 1;
        }
        let flen = dst.len() - before;
        assert!(flen > 0, "harness: encoder wrote nothing for {:?}", it.m);
        let lay = layout(fam, &it.m, flen);
        for f in lay {
            st.fields.push((i, Field { off: f.off + before, ..f }));
        }
        st.ends.push(dst.len());
        if fam.strict {
            match expected_strict(&it.m) {
                Some(e) => {
                    st.expected.push(e);
                    st.ill.push(false);
                }
                None => {
                    st.expected.push(it.m.clone());
                    st.ill.push(true);
                }
            }
        } else {
            st.expected.push(expected_of(fam, &it.m)?);
            st.ill.push(false);
        }
    }
    st.bytes = dst.to_vec();
    // Self-check of the layout model: every extent length field holds a number no larger than its frame.
    for (i, f) in &st.fields {
        if f.kind.is_len() {
            let l = read_len(&st.bytes, f);
            let flen = st.ends[*i] - st.start(*i);
            assert!(
                (l as usize) <= flen,
                "harness: layout model is wrong, field {:?} of frame {} reads {} but the frame has {} bytes",
                f,
                i,
                l,
                flen
            );
        }
    }
    Some(st)
}

pub fn read_len(bytes: &[u8], f: &Field) -> u64 {
    match f.kind {
        FK::Len32 => u32::from_be_bytes(bytes[f.off..f.off + 4].try_into().unwrap()) as u64,
        FK::Len61 => u64::from_be_bytes(bytes[f.off..f.off + 8].try_into().unwrap()) & !(0b111 << 61),
        _ => u64::from_be_bytes(bytes[f.off..f.off + 8].try_into().unwrap()),
    }
}

// ---------------------------------------------------------------------------------------------
// Driving a decoder through the tokio_util contract

pub struct Run {
    /// (message, stream offset of the first unread byte when it was returned)
    pub msgs: Vec<(Msg, usize)>,
    pub err: Option<String>,
    /// Violation of the decoder contract itself (law name, detail).
    pub contract: Option<(&'static str, String)>,
    pub leftover: usize,
    pub decode_calls: usize,
    /// Stream offsets at which a read ended (chunk boundaries).
    pub reads: Vec<usize>,
    /// At the first `Err`: (messages produced so far, bytes fed so far, stream offset of the first unread byte).
    pub first_err: Option<(usize, usize, usize)>,
    /// Everything the decoder returned, in order: `Ok(i)` = index into `msgs`, `Err((text, offset of the first unread byte))`.
    pub events: Vec<Result<usize, (String, usize)>>,
}

/// Append a chunk, call `decode` until `Ok(None)`; after the last chunk call `decode_eof` until
/// `Ok(None)`. Stops at the first `Err` (a `FramedRead` ends the stream there).
pub fn feed(dec: &mut dyn Dec, stream: &[u8], chunks: &mut dyn FnMut(usize) -> usize) -> Run {
    feed_opts(dec, stream, chunks, 1)
}

/// As `feed`, but keeps calling the decoder after an `Err` until `max_errs` errors were seen
/// (`run.err` / `run.first_err` describe the first one).
pub fn feed_opts(dec: &mut dyn Dec, stream: &[u8], chunks: &mut dyn FnMut(usize) -> usize, max_errs: usize) -> Run {
    let mut errs = 0usize;
    let mut run = Run { msgs: vec![], err: None, contract: None, leftover: 0, decode_calls: 0, reads: vec![], first_err: None, events: vec![] };
    let mut buf = BytesMut::new();
    let mut fed = 0usize;
    let mut idle = 0u32;
    while fed < stream.len() {
        let n = chunks(stream.len() - fed).clamp(1, stream.len() - fed);
        buf.extend_from_slice(&stream[fed..fed + n]);
        fed += n;
        run.reads.push(fed);
        loop {
            let before = buf.len();
            run.decode_calls += 1;
            match dec.decode(&mut buf) {
                Ok(Some(m)) => {
                    if buf.len() > before {
                        run.contract = Some(("buffer-grew", format!("decode grew the buffer from {} to {} bytes", before, buf.len())));
                        run.leftover = buf.len();
                        return run;
                    }
                    // A message out of bytes consumed by earlier calls is fine once; a decoder
                    // that keeps producing messages without consuming anything never terminates
                    // (FramedRead calls decode until it returns None).
                    if buf.len() == before {
                        idle += 1;
                        if idle >= 2 {
                            run.contract = Some((
                                "no-progress",
                                format!("decode returned messages (last {:?}) on consecutive calls without consuming input (buffer {} bytes)", m, before),
                            ));
                            run.leftover = buf.len();
                            return run;
                        }
                    } else {
                        idle = 0;
                    }
                    run.events.push(Ok(run.msgs.len()));
                    run.msgs.push((m, fed - buf.len()));
                }
                Ok(None) => {
                    if buf.len() > before {
                        run.contract = Some(("buffer-grew", format!("decode grew the buffer from {} to {} bytes", before, buf.len())));
                        run.leftover = buf.len();
                        return run;
                    }
                    idle = 0;
                    break;
                }
                Err(e) => {
                    errs += 1;
                    run.events.push(Err((e.clone(), fed - buf.len())));
                    if run.err.is_none() {
                        run.err = Some(e);
                        run.first_err = Some((run.msgs.len(), fed, fed - buf.len()));
                    }
                    if errs >= max_errs || buf.len() >= before {
                        run.leftover = buf.len();
                        return run;
                    }
                }
            }
        }
    }
    loop {
        let before = buf.len();
        run.decode_calls += 1;
        match dec.decode_eof(&mut buf) {
            Ok(Some(m)) => {
                if buf.len() >= before {
                    idle += 1;
                    if idle >= 2 {
                        run.contract = Some((
                            "no-progress",
                            format!("decode_eof returned messages (last {:?}) on consecutive calls without consuming input (buffer {} bytes)", m, before),
                        ));
                        break;
                    }
                } else {
                    idle = 0;
                }
                run.events.push(Ok(run.msgs.len()));
                run.msgs.push((m, fed - buf.len()));
            }
            Ok(None) => break,
            Err(e) => {
                run.events.push(Err((e.clone(), fed - buf.len())));
                if run.err.is_none() {
                    run.err = Some(e);
                    run.first_err = Some((run.msgs.len(), fed, fed - buf.len()));
                }
                break;
            }
        }
    }
    run.leftover = buf.len();
    run
}

fn short(m: &Msg) -> String {
    let s = format!("{:?}", m);
    if s.len() > 300 {
        let mut e = 300;
        while !s.is_char_boundary(e) {
            e -= 1;
        }
        format!("{}...", &s[..e])
    } else {
        s
    }
}

/// Laws for the first `upto` frames of a stream whose bytes up to `ends[upto-1]` are unmodified:
/// message j equals what was encoded and, when it is returned, exactly the bytes of frames
/// 0..=j have been consumed. With `complete`, the run must also end cleanly after them.
fn verify_prefix(fam: &Fam, st: &Stream, upto: usize, complete: bool, run: &Run) -> Option<(String, String)> {
    let name = fam.name;
    for j in 0..upto {
        let kind = st.expected[j].kind();
        // One signature per (family, message kind) for "frame j decodes to what was encoded and
        // consumes exactly its own bytes"; how it failed (wrong message / error / nothing /
        // consumed too much or too little) is in the detail, because one defect shows as several
        // of these depending on what follows in the stream.
        let sig = |law: &str| {
            if matches!(law, "wrong-msg" | "err" | "missing" | "over-consume" | "under-consume") {
                format!("roundtrip:{}@{}", name, kind)
            } else {
                format!("{}:{}@{}", law, name, kind)
            }
        };
        match run.msgs.get(j) {
            Some((m, pos)) => {
                if m != &st.expected[j] {
                    return Some((
                        sig("wrong-msg"),
                        format!("wrong message: message {} decoded as {} but {} was encoded", j, short(m), short(&st.expected[j])),
                    ));
                }
                if *pos > st.ends[j] {
                    return Some((
                        sig("over-consume"),
                        format!("over-consumption: after message {} the decoder had consumed {} bytes but the frame ends at {}", j, pos, st.ends[j]),
                    ));
                }
                if *pos < st.ends[j] {
                    return Some((
                        sig("under-consume"),
                        format!("under-consumption: message {} was returned after consuming only {} bytes but its frame ends at {}", j, pos, st.ends[j]),
                    ));
                }
            }
            None => {
                if let Some((law, d)) = &run.contract {
                    return Some((sig(law), d.clone()));
                }
                return Some(match &run.err {
                    Some(e) => (
                        sig("err"),
                        format!("error: decoder failed with {} instead of producing message {} = {}", e, j, short(&st.expected[j])),
                    ),
                    None => (
                        sig("missing"),
                        format!(
                            "missing: end of input reached ({} bytes left in the buffer) without message {} = {}",
                            run.leftover,
                            j,
                            short(&st.expected[j])
                        ),
                    ),
                });
            }
        }
    }
    if complete {
        if let Some((m, _)) = run.msgs.get(upto) {
            return Some((format!("extra-msg:{}", name), format!("unencoded extra message {}", short(m))));
        }
        if let Some((law, d)) = &run.contract {
            return Some((format!("{}:{}", law, name), d.clone()));
        }
        if let Some(e) = &run.err {
            return Some((format!("err-at-end:{}", name), format!("all messages were produced but then the decoder failed: {}", e)));
        }
        if run.leftover != 0 {
            return Some((format!("leftover:{}", name), format!("{} unread bytes after the last frame", run.leftover)));
        }
    }
    None
}

fn chunker_from_cuts(cuts: &[u16]) -> impl FnMut(usize) -> usize + '_ {
    let mut i = 0usize;
    move |_rem| {
        let c = cuts[i % cuts.len()];
        i += 1;
        1 + pick_index(c, 12)
    }
}

fn msg_classes(v: &mut Verdict, fam: &Fam, st: &Stream, items: &[Item]) {
    for it in items {
        v.class(intern(format!("kind:{}", it.m.kind())));
        if it.m.scalars().iter().any(|s| s.padded()) {
            v.class("body:padded-recon");
        }
        if it.m.scalars().iter().any(|s| matches!(s, Sc::Bytes(_))) {
            v.class("body:bytes");
        }
        if it.m.scalars().iter().any(|s| matches!(s, Sc::Recon(V::Record(..)) | Sc::Text(V::Record(..), _, _))) {
            v.class("body:record");
        }
    }
    v.class_if(st.typed_enc > 0, "enc:typed");
    v.class_if(st.raw_enc > 0, "enc:raw");
    v.class(match items.len() {
        1 => "msgs:1",
        2..=4 => "msgs:2-4",
        _ => "msgs:5-8",
    });
    let _ = fam;
}

/// Valid stream: whole, every single split point, one byte per read, and a random multi-split.
pub fn check_frag(fam: &Fam, c: &FragCase) -> Verdict {
    let mut v = Verdict::new();
    let Some(st) = build(fam, &c.items) else {
        v.class("skipped:body-not-one-shot-parseable");
        return v;
    };
    msg_classes(&mut v, fam, &st, &c.items);
    let len = st.bytes.len();
    let n = st.expected.len();
    let mut seen: Vec<String> = vec![];
    let mut record = |v: &mut Verdict, how: String, r: Option<(String, String)>| {
        if let Some((sig, detail)) = r {
            if !seen.contains(&sig) {
                seen.push(sig.clone());
                v.fail(sig, format!("[{}; stream of {} bytes, frame ends {:?}] {}", how, len, st.ends, detail));
            }
        }
    };
    // whole
    {
        let mut d = (fam.dec)();
        let run = feed(d.as_mut(), &st.bytes, &mut |rem| rem);
        record(&mut v, "whole stream in one read".into(), verify_prefix(fam, &st, n, true, &run));
    }
    // every single split
    for p in 1..len {
        let mut d = (fam.dec)();
        let mut first = true;
        let run = feed(d.as_mut(), &st.bytes, &mut |rem| {
            if first {
                first = false;
                p
            } else {
                rem
            }
        });
        record(&mut v, format!("two reads split at {}", p), verify_prefix(fam, &st, n, true, &run));
    }
    // one byte per read
    {
        let mut d = (fam.dec)();
        let run = feed(d.as_mut(), &st.bytes, &mut |_| 1);
        record(&mut v, "one byte per read".into(), verify_prefix(fam, &st, n, true, &run));
    }
    // random multi-split
    {
        let mut d = (fam.dec)();
        let mut ch = chunker_from_cuts(&c.cuts);
        let run = feed(d.as_mut(), &st.bytes, &mut ch);
        record(&mut v, format!("reads of sizes from cuts {:?}", c.cuts), verify_prefix(fam, &st, n, true, &run));
    }
    // Non-trivial: some split falls strictly inside a multi-byte header field (length, id, tag word).
    if st.fields.iter().any(|(_, f)| f.width >= 2 && f.kind != FK::Body) {
        v.nontrivial();
    }
    v
}

// ---------------------------------------------------------------------------------------------
// Mutations

#[derive(Clone, Debug, Serialize, Deserialize)]
pub enum LenHow {
    Zero,
    Minus(u8),
    Plus(u8),
    P32,
    P32PlusL,
    Max61,
    P61,
    P62,
    P63,
    MaxU64,
    MaxMinus(u8),
    Rand(u64),
}

#[derive(Clone, Debug, Serialize, Deserialize)]
pub enum Mu {
    /// Set a tag to a value the decoder must reject.
    TagInvalid { frame: u16, which: u16, val: u8 },
    /// Set a tag to another valid value (flags: any byte).
    TagOther { frame: u16, which: u16, val: u8 },
    Len { frame: u16, which: u16, how: LenHow },
    Uuid { frame: u16, idx: u16, val: u8 },
    Body { frame: u16, idx: u16, val: u8 },
    Truncate { pos: u16 },
    Byte { pos: u16, val: u8 },
    Insert { pos: u16, val: u8 },
    Delete { pos: u16 },
}

#[derive(Clone, Debug, Serialize, Deserialize)]
pub struct MutCase {
    pub items: Vec<Item>,
    pub mu: Mu,
    pub cuts: Vec<u16>,
}

fn arb_len_how() -> BoxedStrategy<LenHow> {
    prop_oneof![
        2 => Just(LenHow::Zero),
        3 => (1u8..10).prop_map(LenHow::Minus),
        3 => (1u8..10).prop_map(LenHow::Plus),
        2 => Just(LenHow::P32),
        2 => Just(LenHow::P32PlusL),
        1 => Just(LenHow::Max61),
        1 => Just(LenHow::P61),
        1 => Just(LenHow::P62),
        1 => Just(LenHow::P63),
        2 => Just(LenHow::MaxU64),
        2 => (1u8..20).prop_map(LenHow::MaxMinus),
        1 => any::<u64>().prop_map(LenHow::Rand),
        1 => (0u64..64).prop_map(LenHow::Rand),
    ]
    .boxed()
}

pub fn arb_mut(fam: &Fam) -> BoxedStrategy<MutCase> {
    let byte = prop_oneof![2 => any::<u8>(), 2 => 0u8..8, 1 => Just(0xffu8), 1 => Just(0x80u8)];
    let mu = prop_oneof![
        4 => (any::<u16>(), any::<u16>(), any::<u8>()).prop_map(|(frame, which, val)| Mu::TagInvalid { frame, which, val }),
        2 => (any::<u16>(), any::<u16>(), any::<u8>()).prop_map(|(frame, which, val)| Mu::TagOther { frame, which, val }),
        8 => (any::<u16>(), any::<u16>(), arb_len_how()).prop_map(|(frame, which, how)| Mu::Len { frame, which, how }),
        1 => (any::<u16>(), any::<u16>(), byte.clone()).prop_map(|(frame, idx, val)| Mu::Uuid { frame, idx, val }),
        1 => (any::<u16>(), any::<u16>(), byte.clone()).prop_map(|(frame, idx, val)| Mu::Body { frame, idx, val }),
        3 => any::<u16>().prop_map(|pos| Mu::Truncate { pos }),
        3 => (any::<u16>(), byte.clone()).prop_map(|(pos, val)| Mu::Byte { pos, val }),
        1 => (any::<u16>(), byte).prop_map(|(pos, val)| Mu::Insert { pos, val }),
        1 => any::<u16>().prop_map(|pos| Mu::Delete { pos }),
    ];
    (arb_items(fam), mu, arb_cuts()).prop_map(|(items, mu, cuts)| MutCase { items, mu, cuts }).boxed()
}

pub struct Applied {
    pub bytes: Vec<u8>,
    /// First offset at which the mutated stream differs from the original.
    pub first_changed: usize,
    /// Field the mutation hit ("Tag", "Len", "Uuid", "Num", "Flags", "Body") or the kind of edit.
    pub target: &'static str,
    pub class: &'static str,
    pub invalid_tag: bool,
    pub overrun_last: bool,
    pub truncated: bool,
    pub desc: String,
}

fn fields_of<'a>(st: &'a Stream, frame: usize, pred: impl Fn(&Field) -> bool + 'a) -> Vec<&'a Field> {
    st.fields.iter().filter(move |(i, f)| *i == frame && pred(f)).map(|(_, f)| f).collect()
}

fn field_at(st: &Stream, pos: usize) -> Option<&Field> {
    st.fields
        .iter()
        .map(|(_, f)| f)
        .filter(|f| f.off <= pos && pos < f.off + f.width)
        .min_by_key(|f| f.width)
}

fn write_len(bytes: &mut [u8], f: &Field, val: u64) {
    match f.kind {
        FK::Len32 => bytes[f.off..f.off + 4].copy_from_slice(&(val.min(u32::MAX as u64) as u32).to_be_bytes()),
        FK::Len61 => {
            let tag = bytes[f.off] & 0b1110_0000;
            let v = val & !(0b111u64 << 61);
            bytes[f.off..f.off + 8].copy_from_slice(&v.to_be_bytes());
            bytes[f.off] |= tag;
        }
        _ => bytes[f.off..f.off + 8].copy_from_slice(&val.to_be_bytes()),
    }
}

pub fn apply(st: &Stream, mu: &Mu) -> Option<Applied> {
    let n = st.ends.len();
    let len = st.bytes.len();
    let mut bytes = st.bytes.clone();
    let mut a = Applied {
        bytes: vec![],
        first_changed: 0,
        target: "Byte",
        class: "mu:byte",
        invalid_tag: false,
        overrun_last: false,
        truncated: false,
        desc: String::new(),
    };
    let byte_edit = |a: &mut Applied, bytes: &mut Vec<u8>, pos: usize, val: u8, class: &'static str| -> bool {
        if bytes[pos] == val {
            return false;
        }
        a.desc = format!("byte {} {:#04x} -> {:#04x}", pos, bytes[pos], val);
        bytes[pos] = val;
        a.first_changed = pos;
        a.target = field_at(st, pos).map(|f| f.kind.name()).unwrap_or("Byte");
        a.class = class;
        true
    };
    match mu {
        Mu::TagInvalid { frame, which, val } | Mu::TagOther { frame, which, val } => {
            let invalid = matches!(mu, Mu::TagInvalid { .. });
            let frame = pick_index(*frame, n);
            let tags = fields_of(st, frame, |f| f.kind.is_tag());
            if tags.is_empty() {
                return None;
            }
            let f = tags[pick_index(*which, tags.len())];
            let old = bytes[f.off];
            let new = match f.kind {
                FK::Tag(valid) => {
                    if invalid {
                        let mut x = *val;
                        while valid.contains(&x) {
                            x = x.wrapping_add(1);
                        }
                        x
                    } else {
                        valid[pick_index((*val as u16) << 8, valid.len())]
                    }
                }
                FK::Tag3(valid) => {
                    let mut t = *val & 7;
                    if invalid {
                        while valid.contains(&t) {
                            t = (t + 1) & 7;
                        }
                    } else {
                        t = valid[pick_index((*val as u16) << 8, valid.len())];
                    }
                    (t << 5) | (old & 0x1f)
                }
                _ => *val, // flags: every pattern is accepted
            };
            if new == old {
                return None;
            }
            bytes[f.off] = new;
            a.first_changed = f.off;
            a.target = f.kind.name();
            a.invalid_tag = invalid && !matches!(f.kind, FK::Flags);
            a.class = if a.invalid_tag {
                "mu:tag-invalid"
            } else if matches!(f.kind, FK::Flags) {
                "mu:flags"
            } else {
                "mu:tag-other-valid"
            };
            a.desc = format!("frame {} tag at {} {:#04x} -> {:#04x}", frame, f.off, old, new);
        }
        Mu::Len { frame, which, how } => {
            let frame = pick_index(*frame, n);
            let lens = fields_of(st, frame, |f| f.kind.is_len());
            if lens.is_empty() {
                return None;
            }
            let f = lens[pick_index(*which, lens.len())];
            let old = read_len(&bytes, f);
            let (new, class): (u64, &'static str) = match how {
                LenHow::Zero => (0, "mu:len-zero"),
                LenHow::Minus(d) => (old.saturating_sub(*d as u64), "mu:len-minus"),
                LenHow::Plus(d) => (old + *d as u64, "mu:len-plus"),
                LenHow::P32 => (1 << 32, "mu:len-2^32"),
                LenHow::P32PlusL => ((1 << 32) + old, "mu:len-2^32+len"),
                LenHow::Max61 => ((1 << 61) - 1, "mu:len-2^61-1"),
                LenHow::P61 => (1 << 61, "mu:len-2^61"),
                LenHow::P62 => (1 << 62, "mu:len-2^62"),
                LenHow::P63 => (1 << 63, "mu:len-2^63"),
                LenHow::MaxU64 => (u64::MAX, "mu:len-u64max"),
                LenHow::MaxMinus(d) => (u64::MAX - *d as u64, "mu:len-u64max-k"),
                LenHow::Rand(x) => (*x, "mu:len-random"),
            };
            write_len(&mut bytes, f, new);
            let now = read_len(&bytes, f);
            if now == old {
                return None;
            }
            a.first_changed = f.off;
            a.target = "Len";
            a.class = class;
            a.overrun_last = frame == n - 1 && f.extent && now > old;
            a.desc = format!("frame {} length field at {} ({:?}) {} -> {}", frame, f.off, f.kind, old, now);
        }
        Mu::Uuid { frame, idx, val } | Mu::Body { frame, idx, val } => {
            let want_uuid = matches!(mu, Mu::Uuid { .. });
            let frame = pick_index(*frame, n);
            let fs = fields_of(st, frame, |f| {
                f.width > 0 && if want_uuid { matches!(f.kind, FK::Uuid | FK::Num) } else { f.kind == FK::Body }
            });
            if fs.is_empty() {
                return None;
            }
            let total: usize = fs.iter().map(|f| f.width).sum();
            let mut k = pick_index(*idx, total);
            let mut pos = 0;
            for f in fs {
                if k < f.width {
                    pos = f.off + k;
                    break;
                }
                k -= f.width;
            }
            if !byte_edit(&mut a, &mut bytes, pos, *val, if want_uuid { "mu:id-byte" } else { "mu:body-byte" }) {
                return None;
            }
        }
        Mu::Truncate { pos } => {
            let p = pick_index(*pos, len);
            bytes.truncate(p);
            a.first_changed = p;
            a.target = field_at(st, p).map(|f| f.kind.name()).unwrap_or("Byte");
            a.class = "mu:truncate";
            a.truncated = true;
            a.desc = format!("truncated to {} of {} bytes", p, len);
        }
        Mu::Byte { pos, val } => {
            let p = pick_index(*pos, len);
            if !byte_edit(&mut a, &mut bytes, p, *val, "mu:byte") {
                return None;
            }
        }
        Mu::Insert { pos, val } => {
            let p = pick_index(*pos, len + 1);
            bytes.insert(p, *val);
            a.first_changed = p;
            a.target = "Insert";
            a.class = "mu:insert";
            a.desc = format!("inserted {:#04x} at {}", val, p);
        }
        Mu::Delete { pos } => {
            let p = pick_index(*pos, len);
            bytes.remove(p);
            a.first_changed = p;
            a.target = "Delete";
            a.class = "mu:delete";
            a.desc = format!("deleted byte at {}", p);
        }
    }
    if bytes == st.bytes {
        return None;
    }
    a.bytes = bytes;
    Some(a)
}

/// Which field of the (re-encoded) frame the offset falls into.
fn field_name_at(fam: &Fam, m: &Msg, frame_len: usize, off: usize) -> &'static str {
    let fields = layout(fam, m, frame_len);
    fields
        .iter()
        .filter(|f| f.off <= off && off < f.off + f.width)
        .min_by_key(|f| f.width)
        .map(|f| f.kind.name())
        .unwrap_or("length")
}

/// Mutated stream.
pub fn check_mut(fam: &Fam, c: &MutCase) -> Verdict {
    let mut v = Verdict::new();
    let Some(st) = build(fam, &c.items) else {
        v.class("skipped:body-not-one-shot-parseable");
        return v;
    };
    let Some(a) = apply(&st, &c.mu) else {
        v.class("skipped:mutation-not-applicable");
        return v;
    };
    v.class(a.class);
    v.class(intern(format!("target:{}", a.target)));
    let intact = st.ends.iter().filter(|e| **e <= a.first_changed).count();
    let mlen = a.bytes.len();
    let mut seen: Vec<String> = vec![];
    let mut outcomes: Vec<&'static str> = vec![];
    let runs: Vec<(&str, Box<dyn FnMut(usize) -> usize + '_>)> = vec![
        ("whole stream in one read", Box::new(|rem| rem)),
        ("random reads", Box::new(chunker_from_cuts(&c.cuts))),
        ("one byte per read", Box::new(|_| 1)),
    ];
    for (how, mut ch) in runs {
        let mut d = (fam.dec)();
        let run = feed(d.as_mut(), &a.bytes, &mut *ch);
        let mut fails: Vec<(String, String)> = vec![];
        if let Some(f) = verify_prefix(fam, &st, intact, false, &run) {
            fails.push(f);
        } else {
            if let Some((law, d)) = &run.contract {
                fails.push((format!("{}:{}", law, fam.name), d.clone()));
            }
            let extra = run.msgs.len() > intact;
            if a.invalid_tag {
                if extra {
                    fails.push((
                        format!("tag-accepted:{}", fam.name),
                        format!("an invalid tag was decoded as {}", short(&run.msgs[intact].0)),
                    ));
                } else if run.err.is_none() && run.contract.is_none() {
                    fails.push((
                        format!("tag-no-error:{}", fam.name),
                        format!("an invalid tag gave neither a message nor an error ({} bytes left at end of input)", run.leftover),
                    ));
                }
            }
            if a.truncated && extra {
                fails.push((
                    format!("truncated-msg:{}", fam.name),
                    format!("a truncated frame was decoded as {}", short(&run.msgs[intact].0)),
                ));
            }
            if a.overrun_last && extra {
                // The recorded findings (NOTES 7, 8) are: a body-less message kind, or a typed map `Clear`, decoded
                // although the frame claims more bytes than follow. Any other kind decoded from an overrunning
                // frame is a different violation and carries its kind in the signature.
                let k = run.msgs[intact].0.kind();
                let recorded = k.ends_with("/Clear") || matches!(k.as_str(), "Link" | "Sync" | "Unlink");
                fails.push((
                    if recorded { format!("overrun-msg:{}", fam.name) } else { format!("overrun-msg:{}@{}", fam.name, k) },
                    format!("the last frame claims more bytes than follow but was decoded as {}", short(&run.msgs[intact].0)),
                ));
            }
            if let Some(re) = fam.reenc {
                let mut prev = 0usize;
                for (m, pos) in &run.msgs {
                    if *pos < prev || *pos > mlen {
                        fails.push((
                            format!("position:{}", fam.name),
                            format!("consumed position went from {} to {} (stream {} bytes)", prev, pos, mlen),
                        ));
                        break;
                    }
                    let consumed = &a.bytes[prev..*pos];
                    let mut out = BytesMut::new();
                    re(m, &mut out);
                    if out.as_ref() != consumed {
                        let d = out.iter().zip(consumed.iter()).position(|(x, y)| x != y).unwrap_or(out.len().min(consumed.len()));
                        let field = if d < out.len() { field_name_at(fam, m, out.len(), d) } else { "length" };
                        fails.push((
                            format!("reencode:{}@{}/{}", fam.name, m.kind(), field),
                            format!(
                                "decoded {} from bytes {:?} but that message encodes as {:?} (first difference at {}, in the {} field)",
                                short(m),
                                consumed,
                                out.as_ref(),
                                d,
                                field
                            ),
                        ));
                        break;
                    }
                    prev = *pos;
                }
            }
            outcomes.push(if run.err.is_some() {
                "out:error"
            } else if extra {
                "out:messages-after-mutation"
            } else if run.leftover > 0 {
                "out:none-with-leftover"
            } else {
                "out:clean-end"
            });
        }
        for (sig, detail) in fails {
            if !seen.contains(&sig) {
                seen.push(sig.clone());
                v.fail(
                    sig,
                    format!("[{}; {}; {} intact frame(s); mutated stream {:?}] {}", how, a.desc, intact, a.bytes, detail),
                );
            }
        }
    }
    for o in outcomes {
        v.class(o);
    }
    msg_classes(&mut v, fam, &st, &c.items);
    if matches!(a.target, "Tag" | "Len" | "Flags") {
        v.nontrivial();
    }
    v
}

/// What the parent can say about a case whose evaluation killed the child process:
/// (field hit, mutation class, description).
pub fn describe_target(fam: &Fam, c: &MutCase) -> (&'static str, &'static str, String) {
    match build(fam, &c.items).and_then(|st| apply(&st, &c.mu).map(|a| (a.target, a.class, format!("{}; mutated stream {:?}", a.desc, a.bytes)))) {
        Some(x) => x,
        None => ("none", "skipped:mutation-not-applicable", "mutation not applicable".into()),
    }
}

// ---------------------------------------------------------------------------------------------
// Ill-typed but well-framed bodies (strict families)

#[derive(Clone, Debug, Serialize, Deserialize)]
pub struct IllCase {
    pub items: Vec<Item>,
    pub cuts: Vec<u16>,
    /// Three further cut positions (selectors over the stream).
    pub triple: [u16; 3],
}

pub fn arb_ill(fam: &Fam) -> BoxedStrategy<IllCase> {
    let one = ((fam.msgs)(fam.sc_mode()), any::<bool>()).prop_map(|(m, typed)| Item { m, typed });
    (proptest::collection::vec(one, 2..=5), arb_cuts(), any::<[u16; 3]>())
        .prop_map(|(items, cuts, triple)| IllCase { items, cuts, triple })
        .boxed()
}

/// Reads that end at the given (sorted, deduplicated) stream offsets, then the rest.
fn chunker_from_offsets(offsets: Vec<usize>) -> impl FnMut(usize) -> usize {
    let mut at = 0usize;
    let mut i = 0usize;
    move |rem| {
        while i < offsets.len() && offsets[i] <= at {
            i += 1;
        }
        let n = if i < offsets.len() { offsets[i] - at } else { rem };
        at += n.min(rem).max(1);
        n
    }
}

/// What is required after a body error. The readers in the repository that use typed decoders
/// (`swimos_downlink::task::{value,event,map}`, the hosted downlinks of `swimos_agent`) give the
/// stream up at the first `Err`, so nothing is asserted about frames after the ill-typed one
/// (whether the decoder re-synchronises is only recorded as a class). Asserted: frames before it
/// decode exactly; no message is produced in its place; an `Err` IS reported, no later than the
/// decode calls that follow the read delivering the last byte of that frame (otherwise a live
/// stream, which has no end of input, stalls and later frames are swallowed); and when it is
/// reported nothing beyond that frame has been consumed.
pub fn check_ill(fam: &Fam, c: &IllCase) -> Verdict {
    let mut v = Verdict::new();
    let st = build(fam, &c.items).expect("harness: strict build cannot fail");
    msg_classes(&mut v, fam, &st, &c.items);
    let len = st.bytes.len();
    let n = st.expected.len();
    let Some(bad) = st.ill.iter().position(|b| *b) else {
        v.class("ill:none (all bodies well typed)");
        for how in 0..2 {
            let mut d = (fam.dec)();
            let run = if how == 0 { feed(d.as_mut(), &st.bytes, &mut |r| r) } else { feed(d.as_mut(), &st.bytes, &mut chunker_from_cuts(&c.cuts)) };
            if let Some((sig, detail)) = verify_prefix(fam, &st, n, true, &run) {
                v.fail(sig, detail);
                break;
            }
        }
        return v;
    };
    v.nontrivial();
    v.class(match bad {
        0 => "ill:first-frame",
        _ if bad == n - 1 => "ill:last-frame",
        _ => "ill:middle-frame",
    });
    let bad_start = st.start(bad);
    let bad_end = st.ends[bad];
    let mut plans: Vec<(String, Vec<usize>)> = vec![("whole stream in one read".into(), vec![])];
    for p in 1..len {
        plans.push((format!("two reads split at {}", p), vec![p]));
    }
    // every pair of cuts around the ill-typed frame (this is where a decoder that is discarding
    // the rest of a rejected body has to keep count over several reads)
    let lo = bad_start.saturating_sub(2).max(1);
    let hi = (bad_end + 10).min(len - 1);
    let span = hi.saturating_sub(lo) + 1;
    let step = (span * span / 2 / 3000).max(1);
    let mut k = 0usize;
    for i in lo..=hi {
        for j in i + 1..=hi {
            k += 1;
            if k % step == 0 {
                plans.push((format!("three reads split at {} and {}", i, j), vec![i, j]));
            }
        }
    }
    let mut t: Vec<usize> = c.triple.iter().map(|x| 1 + pick_index(*x, len.saturating_sub(1).max(1))).collect();
    t.sort();
    t.dedup();
    plans.push((format!("reads split at {:?}", t), t));
    let mut seen: Vec<String> = vec![];
    let mut resync_ok = 0usize;
    let mut resync_lost = 0usize;
    let mut evaluate = |v: &mut Verdict, how: String, run: Run| {
        let mut fails: Vec<(String, String)> = vec![];
        if let Some(f) = verify_prefix(fam, &st, bad, false, &run) {
            fails.push(f);
        } else if let Some((law, d)) = &run.contract {
            fails.push((format!("{}:{}", law, fam.name), d.clone()));
        } else {
            match run.first_err {
                None => fails.push((
                    format!("illtyped-no-error:{}", fam.name),
                    format!(
                        "frame {} ({}..{}) carries a body that is not an i32 but no error was ever reported; {} message(s) were produced, {} bytes left at end of input",
                        bad, bad_start, bad_end, run.msgs.len(), run.leftover
                    ),
                )),
                Some((msgs_before, fed, pos)) => {
                    if msgs_before > bad {
                        fails.push((
                            format!("illtyped-accepted:{}", fam.name),
                            format!("frame {} carries a body that is not an i32 but {} was produced before any error", bad, short(&run.msgs[bad].0)),
                        ));
                    } else {
                        let due = run.reads.iter().copied().find(|r| *r >= bad_end).unwrap_or(len);
                        if fed > due {
                            fails.push((
                                format!("illtyped-late-error:{}", fam.name),
                                format!(
                                    "the error for frame {} ({}..{}) was only reported after {} bytes had been read (the frame was complete after {})",
                                    bad, bad_start, bad_end, fed, due
                                ),
                            ));
                        }
                        if pos > bad_end {
                            fails.push((
                                format!("illtyped-over-consume:{}", fam.name),
                                format!("when the error for frame {} ({}..{}) was reported {} bytes had been consumed", bad, bad_start, bad_end, pos),
                            ));
                        }
                        // Round 3: the decoders are written to carry on after a rejected body
                        // (Discarding states, state reset on error), so this is asserted too: the
                        // error consumes exactly the rejected frame, and every later frame gives
                        // exactly its message (or, if ill-typed as well, exactly one error) and
                        // consumes exactly its own bytes - the frag law, continued past the error.
                        let first_ev = run.events.iter().position(|e| e.is_err()).unwrap_or(run.events.len());
                        let mut problem: Option<String> = None;
                        let mut problem_at = bad;
                        for (k, j) in (bad..n).enumerate() {
                            let ev = run.events.get(first_ev + k);
                            let want_err = st.ill[j];
                            let bad_here = match ev {
                                None => Some(format!("nothing was returned for frame {} ({})", j, if want_err { "an error was due".to_string() } else { short(&st.expected[j]) })),
                                Some(Err((e, pos))) => {
                                    if !want_err {
                                        Some(format!("frame {} = {} gave the error {}", j, short(&st.expected[j]), e))
                                    } else if *pos != st.ends[j] {
                                        Some(format!("the error for ill-typed frame {} was returned with {} bytes consumed but the frame ends at {}", j, pos, st.ends[j]))
                                    } else {
                                        None
                                    }
                                }
                                Some(Ok(i)) => {
                                    let (m, pos) = &run.msgs[*i];
                                    if want_err {
                                        Some(format!("ill-typed frame {} gave the message {}", j, short(m)))
                                    } else if m != &st.expected[j] {
                                        Some(format!("frame {} decoded as {} but {} was encoded", j, short(m), short(&st.expected[j])))
                                    } else if *pos != st.ends[j] {
                                        Some(format!("after frame {} the decoder had consumed {} bytes but the frame ends at {}", j, pos, st.ends[j]))
                                    } else {
                                        None
                                    }
                                }
                            };
                            if bad_here.is_some() {
                                problem = bad_here;
                                problem_at = j;
                                break;
                            }
                        }
                        if problem.is_none() && run.events.len() > first_ev + (n - bad) {
                            problem = Some("more messages / errors were returned than frames were encoded".to_string());
                            problem_at = n - 1;
                        }
                        match problem {
                            None => resync_ok += 1,
                            Some(p) => {
                                resync_lost += 1;
                                fails.push((
                                    // named after the frame at which the stream goes wrong
                                    format!("resync:{}@{}", fam.name, st.expected[problem_at].kind()),
                                    format!("after the error for ill-typed frame {} ({}..{}): {}", bad, bad_start, bad_end, p),
                                ));
                            }
                        }
                    }
                }
            }
        }
        for (sig, detail) in fails {
            if !seen.contains(&sig) {
                seen.push(sig.clone());
                v.fail(sig, format!("[{}; stream of {} bytes, frame ends {:?}, ill-typed frame {}] {}", how, len, st.ends, bad, detail));
            }
        }
    };
    for (how, offs) in plans {
        let mut d = (fam.dec)();
        let run = feed_opts(d.as_mut(), &st.bytes, &mut chunker_from_offsets(offs), 8);
        evaluate(&mut v, how, run);
    }
    {
        let mut d = (fam.dec)();
        let run = feed_opts(d.as_mut(), &st.bytes, &mut |_| 1, 8);
        evaluate(&mut v, "one byte per read".into(), run);
    }
    {
        let mut d = (fam.dec)();
        let run = feed_opts(d.as_mut(), &st.bytes, &mut chunker_from_cuts(&c.cuts), 8);
        evaluate(&mut v, format!("reads of sizes from cuts {:?}", c.cuts), run);
    }
    v.class_if(resync_ok > 0 && resync_lost == 0, "resync:always");
    v.class_if(resync_lost > 0 && resync_ok > 0, "resync:depends-on-reads");
    v.class_if(resync_lost > 0 && resync_ok == 0, "resync:never");
    v
}

// ---------------------------------------------------------------------------------------------
// Large frames (around the 8 KiB and 64 KiB marks) delivered in many reads

pub const BIG_LENS: &[u32] = &[4095, 4096, 4097, 8191, 8192, 8193, 65535, 65536, 65537, 65538, 65600, 70001, 100000, 140000];
pub const BIG_CHUNKS: &[u32] = &[7, 64, 1000, 4096, 8192, 65536];

#[derive(Clone, Debug, Serialize, Deserialize)]
pub struct BigCase {
    pub pre: Vec<Item>,
    /// A message with a body; its last scalar is replaced by one that makes the frame `frame_len` long.
    pub template: Item,
    pub post: Vec<Item>,
    /// 0 bytes (raw families only), 1 one bare identifier, 2 quoted string with multi-byte
    /// characters, 3 record of numbers (length only approximate).
    pub style: u8,
    pub frame_len: u32,
    pub chunk: u32,
    pub cuts: Vec<u16>,
    /// Which length-prefixed part is made big: 0 the body (last scalar), 1 node, 2 lane, 3 host
    /// (commands and routed messages; falls back to the body where there is no such string).
    #[serde(default)]
    pub target: u8,
}

pub fn arb_big(fam: &Fam) -> BoxedStrategy<BigCase> {
    let mode = fam.sc_mode();
    let item = ((fam.msgs)(mode), any::<bool>()).prop_map(|(m, typed)| Item { m, typed });
    let template = item.clone().prop_filter("message with a body or a path", |it| {
        !it.m.scalars().is_empty() || matches!(it.m, Msg::Routed { .. } | Msg::CmdRegister { .. })
    });
    (
        proptest::collection::vec(item.clone(), 0..=2),
        template,
        proptest::collection::vec(item, 0..=2),
        0u8..4,
        proptest::sample::select(BIG_LENS),
        proptest::sample::select(BIG_CHUNKS),
        arb_cuts(),
        0u8..4,
    )
        .prop_map(|(pre, template, post, style, frame_len, chunk, cuts, target)| BigCase { pre, template, post, style, frame_len, chunk, cuts, target })
        // One evaluation delivers a stream of up to 140 KiB about ten times: thousands of shrink
        // steps would take the better part of an hour. The case is compact as it is (the big
        // body is described by style and frame_len, not stored).
        .no_shrink()
        .boxed()
}

fn big_body(style: u8, n: usize) -> Sc {
    match style {
        0 => Sc::Bytes((0..n).map(|i| (i * 31 % 251) as u8).collect()),
        1 => Sc::Recon(V::Text("a".repeat(n.max(1)))),
        2 => {
            // quoted (contains blanks), a two byte character every 97 characters, exactly n bytes with the quotes
            let want = n.saturating_sub(2).max(1);
            let mut s = String::with_capacity(want);
            let mut i = 0usize;
            while s.len() < want {
                i += 1;
                if i % 97 == 0 && s.len() + 2 <= want {
                    s.push('é');
                } else if i % 11 == 0 {
                    s.push(' ');
                } else {
                    s.push((b'a' + (i % 26) as u8) as char);
                }
            }
            if !s.contains(' ') {
                s.replace_range(0..1, " ");
            }
            Sc::Recon(V::Text(s))
        }
        _ => {
            let mut items = vec![];
            let mut total = 2usize;
            let mut i = 0i32;
            while total < n {
                let x = (i * 7919) % 100_000;
                total += x.to_string().len() + 1;
                items.push(I::Val(V::I32(x)));
                i += 1;
            }
            Sc::Recon(V::Record(vec![], items))
        }
    }
}

fn with_last_scalar(m: &Msg, body: &Sc) -> Msg {
    let total = m.scalars().len();
    let mut idx = 0usize;
    m.map_scalars(&mut |s| {
        idx += 1;
        Some(if idx == total { body.clone() } else { s.clone() })
    })
    .expect("harness: map_scalars")
}

pub fn check_big(fam: &Fam, c: &BigCase) -> Verdict {
    let mut v = Verdict::new();
    let style = if fam.sc_mode() == ScMode::Any { c.style % 4 } else { 1 + c.style % 3 };
    v.class(match style {
        0 => "big:bytes",
        1 => "big:bare-identifier",
        2 => "big:quoted-string",
        _ => "big:record",
    });
    v.class(intern(format!("frame-len:{}", c.frame_len)));
    // Which part grows: a node / lane / host string of exactly frame_len bytes, or the body.
    let name = |n: usize| -> String {
        let mut s = String::from("/");
        while s.len() < n {
            s.push((b'a' + (s.len() % 26) as u8) as char);
        }
        s
    };
    let named: Option<(Msg, &'static str)> = {
        let n = c.frame_len as usize;
        match (&c.template.m, c.target) {
            (Msg::Routed { origin, lane, env, .. }, 1) => Some((Msg::Routed { origin: *origin, node: name(n), lane: lane.clone(), env: env.clone() }, "big:node")),
            (Msg::Routed { origin, node, env, .. }, 2) => Some((Msg::Routed { origin: *origin, node: node.clone(), lane: name(n), env: env.clone() }, "big:lane")),
            (Msg::Routed { origin, env, .. }, 3) => Some((Msg::Routed { origin: *origin, node: name(n / 2), lane: name(n - n / 2), env: env.clone() }, "big:node+lane")),
            (Msg::CmdRegister { host, lane, id, .. }, 1) => Some((Msg::CmdRegister { host: host.clone(), node: name(n), lane: lane.clone(), id: *id }, "big:node")),
            (Msg::CmdRegister { host, node, id, .. }, 2) => Some((Msg::CmdRegister { host: host.clone(), node: node.clone(), lane: name(n), id: *id }, "big:lane")),
            (Msg::CmdRegister { node, lane, id, .. }, 3) => Some((Msg::CmdRegister { host: Some(name(n)), node: node.clone(), lane: lane.clone(), id: *id }, "big:host")),
            (Msg::CmdRegister { host, lane, id, .. }, _) => Some((Msg::CmdRegister { host: host.clone(), node: name(n), lane: lane.clone(), id: *id }, "big:node")),
            (Msg::CmdAddressed { host, lane, body, ow, .. }, 1) => Some((Msg::CmdAddressed { host: host.clone(), node: name(n), lane: lane.clone(), body: body.clone(), ow: *ow }, "big:node")),
            (Msg::CmdAddressed { host, node, body, ow, .. }, 2) => Some((Msg::CmdAddressed { host: host.clone(), node: node.clone(), lane: name(n), body: body.clone(), ow: *ow }, "big:lane")),
            (Msg::CmdAddressed { node, lane, body, ow, .. }, 3) => Some((Msg::CmdAddressed { host: Some(name(n)), node: node.clone(), lane: lane.clone(), body: body.clone(), ow: *ow }, "big:host")),
            (Msg::Routed { origin, lane, env, .. }, _) if c.template.m.scalars().is_empty() => Some((Msg::Routed { origin: *origin, node: name(n), lane: lane.clone(), env: env.clone() }, "big:node")),
            _ => None,
        }
    };
    let frame_of = |n: usize| -> (Item, usize) {
        let it = Item { m: with_last_scalar(&c.template.m, &big_body(style, n)), typed: c.template.typed };
        let mut dst = BytesMut::new();
        fam.encode(&it.m, it.typed, &mut dst);
        (it, dst.len())
    };
    // fit the body so that the frame has exactly the wanted length (styles 0-2)
    let target = c.frame_len as usize;
    let (big, flen) = match named {
        Some((m, class)) => {
            v.class(class);
            let it = Item { m, typed: c.template.typed };
            let mut dst = BytesMut::new();
            fam.encode(&it.m, it.typed, &mut dst);
            (it, dst.len())
        }
        None => {
            v.class("big:body");
            let (_, l1) = frame_of(64);
            let overhead = l1 - 64;
            frame_of(target.saturating_sub(overhead).max(8))
        }
    };
    v.class_if(flen == target, "big:exact-length");
    let mut items = c.pre.clone();
    let big_idx = items.len();
    items.push(big);
    items.extend(c.post.iter().cloned());
    let Some(st) = build(fam, &items) else {
        v.class("skipped:body-not-one-shot-parseable");
        return v;
    };
    v.nontrivial();
    let len = st.bytes.len();
    let n = st.expected.len();
    let bs = st.start(big_idx);
    let be = st.ends[big_idx];
    let chunk = if c.chunk < 64 && flen > 9000 { 64 } else { c.chunk as usize };
    v.class(intern(format!("reads-of:{}", chunk)));
    let mut plans: Vec<(String, Vec<usize>)> = vec![("whole stream in one read".into(), vec![])];
    plans.push((format!("reads of {} bytes", chunk), (1..=len / chunk).map(|i| i * chunk).filter(|p| *p < len).collect()));
    for p in [be - 1, be.saturating_sub(2), be + 1, bs + 4096, bs + 8192, bs + 65536, bs + 65537, bs + 65568, bs + 1] {
        if p > 0 && p < len {
            plans.push((format!("two reads split at {}", p), vec![p]));
        }
    }
    // random reads, scaled so that a frame takes a few hundred reads at most
    let scale = (flen / 300).max(1);
    let mut offs = vec![];
    let mut at = 0usize;
    let mut i = 0usize;
    while at < len {
        at += (1 + pick_index(c.cuts[i % c.cuts.len()], 12)) * scale;
        i += 1;
        if at < len {
            offs.push(at);
        }
    }
    plans.push((format!("random reads of {}..{} bytes", scale, 12 * scale), offs));
    let mut seen: Vec<String> = vec![];
    for (how, offs) in plans {
        let mut d = (fam.dec)();
        let run = feed(d.as_mut(), &st.bytes, &mut chunker_from_offsets(offs));
        if let Some((sig, detail)) = verify_prefix(fam, &st, n, true, &run) {
            if !seen.contains(&sig) {
                seen.push(sig.clone());
                let detail: String = detail.chars().take(600).collect();
                v.fail(sig, format!("[{}; stream of {} bytes, big frame {}..{} ({} bytes)] {}", how, len, bs, be, flen, detail));
            }
        }
    }
    v
}
