//! Generic operation lists for the agent simulation and their interpreter. The op list owns the
//! schedule: how many bytes each remote writes/reads, when the system is polled, when time advances.

use crate::exec::Sim;
use crate::remote::Req;
use proptest::prelude::*;
use serde::{Deserialize, Serialize};
use std::time::Duration;
use vcommon::pick_index;

pub const CAPS: [usize; 12] = [1, 2, 3, 5, 8, 13, 21, 34, 64, 128, 512, 4096];

#[derive(Clone, Debug, PartialEq, Eq, Serialize, Deserialize)]
pub enum Op {
    /// Attach a new remote (request channel capacity, response channel capacity).
    Attach { in_cap: usize, out_cap: usize },
    Link { r: u16, lane: u8 },
    Sync { r: u16, lane: u8 },
    Unlink { r: u16, lane: u8 },
    /// Command envelope with a Recon body.
    Cmd { r: u16, lane: u8, body: String },
    /// The remote writes at most n bytes of its outbox.
    Pump { r: u16, n: usize },
    /// The remote reads at most n bytes of responses.
    Read { r: u16, n: usize },
    /// Poll the system at most k times.
    Poll { k: usize },
    /// Deliver everything and run to a fixpoint.
    Settle,
    Advance { ms: u64 },
    /// The remote disconnects (drops both channel halves).
    Drop { r: u16 },
    /// Trigger the agent's stop signal.
    Stop,
}

impl Op {
    pub fn remote(&self) -> Option<u16> {
        match self {
            Op::Link { r, .. }
            | Op::Sync { r, .. }
            | Op::Unlink { r, .. }
            | Op::Cmd { r, .. }
            | Op::Pump { r, .. }
            | Op::Read { r, .. }
            | Op::Drop { r } => Some(*r),
            _ => None,
        }
    }
}

pub fn arb_cap() -> impl Strategy<Value = usize> {
    (0usize..CAPS.len()).prop_map(|i| CAPS[i])
}

pub fn arb_small_cap() -> impl Strategy<Value = usize> {
    prop_oneof![3 => (0usize..7).prop_map(|i| CAPS[i]), 1 => arb_cap()]
}

pub fn arb_nbytes() -> impl Strategy<Value = usize> {
    prop_oneof![
        4 => 1usize..16,
        2 => 16usize..80,
        1 => 80usize..600,
        1 => Just(usize::MAX),
    ]
}

/// Scheduling ops (no protocol content).
pub fn arb_sched_op() -> impl Strategy<Value = Op> {
    prop_oneof![
        4 => (any::<u16>(), arb_nbytes()).prop_map(|(r, n)| Op::Pump { r, n }),
        4 => (any::<u16>(), arb_nbytes()).prop_map(|(r, n)| Op::Read { r, n }),
        4 => (1usize..6).prop_map(|k| Op::Poll { k }),
        1 => Just(Op::Poll { k: 1000 }),
        1 => Just(Op::Settle),
        1 => (1u64..500).prop_map(|ms| Op::Advance { ms }),
    ]
}

/// Interpret one op. `lanes[lane % len]` names the lane. Ops naming a remote are skipped when
/// there is none; the index is mapped monotonically onto the current remotes.
pub async fn apply_op(sim: &mut Sim, lanes: &[&str], op: &Op) {
    let nrem = sim.remotes.len();
    let ridx = |r: u16| pick_index(r, nrem);
    let lane_name = |l: u8| lanes[(l as usize) % lanes.len()];
    match op {
        Op::Attach { in_cap, out_cap } => {
            sim.attach(*in_cap, *out_cap);
        }
        Op::Link { r, lane } if nrem > 0 => sim.remotes[ridx(*r)].send(lane_name(*lane), Req::Link),
        Op::Sync { r, lane } if nrem > 0 => sim.remotes[ridx(*r)].send(lane_name(*lane), Req::Sync),
        Op::Unlink { r, lane } if nrem > 0 => {
            sim.remotes[ridx(*r)].send(lane_name(*lane), Req::Unlink)
        }
        Op::Cmd { r, lane, body } if nrem > 0 => {
            sim.remotes[ridx(*r)].send(lane_name(*lane), Req::Command(body.as_bytes().to_vec()))
        }
        Op::Pump { r, n } if nrem > 0 => {
            sim.remotes[ridx(*r)].pump(*n);
        }
        Op::Read { r, n } if nrem > 0 => {
            sim.remotes[ridx(*r)].read(*n);
        }
        Op::Poll { k } => {
            sim.poll(*k);
        }
        Op::Settle => {
            sim.settle();
        }
        Op::Advance { ms } => {
            sim.advance(Duration::from_millis(*ms)).await;
        }
        Op::Drop { r } if nrem > 0 => sim.remotes[ridx(*r)].disconnect(),
        Op::Stop => sim.stop(),
        _ => {}
    }
}
