#!/bin/bash
# tools/confirm_seeded.sh <seed-name> <scratch worktree> <crate of the demo> <tests dir of that crate, relative> <test name> "<-p crates whose existing tests must pass>"
# Confirms one seeded change in a scratch worktree (never /repo): the patch applies to clean HEAD, the demonstration passes
# without it and fails with it, and the existing tests of the named crates pass with it (test_derive skipped: it fails on HEAD).
# Writes seeded/<name>/confirm_output.txt and the confirmed/commands fields of seeded/<name>/meta.json.
set -u
NAME=$1; WT=$2; CRATE=$3; TDIR=$4; TNAME=$5; EXISTING=$6
D=/verif/seeded/$NAME
export CARGO_TARGET_DIR=$WT/target CARGO_NET_OFFLINE=true
OUT=$D/confirm_output.txt; : > "$OUT"
cd "$WT" || exit 2
clean(){ git checkout -q -- . ; git clean -fdq -e target -e out -e Cargo.lock; }
run(){ echo "\$ $*" >> "$OUT"; "$@" >> "$OUT" 2>&1; local rc=$?; echo "[exit $rc]" >> "$OUT"; return $rc; }
clean
run git apply --check "$D/patch.diff"; APPLIES=$?
mkdir -p "$TDIR"; cp "$D/demo.rs" "$TDIR/$TNAME.rs"
run cargo test --offline -p "$CRATE" --test "$TNAME"; WITHOUT=$?
clean; git apply "$D/patch.diff"; mkdir -p "$TDIR"; cp "$D/demo.rs" "$TDIR/$TNAME.rs"
run cargo test --offline -p "$CRATE" --test "$TNAME"; WITH=$?
grep -q "error\[E\|could not compile" "$OUT" && COMPILE_ERR=1 || COMPILE_ERR=0
rm -f "$TDIR/$TNAME.rs"
run cargo test --offline --no-fail-fast $EXISTING -- --skip test_derive; EXIST=$?
clean
python3 - "$NAME" "$APPLIES" "$WITHOUT" "$WITH" "$EXIST" "$COMPILE_ERR" "$CRATE" "$TNAME" "$EXISTING" <<'EOF'
import json,sys,re,os
name,applies,without,with_,exist,cerr,crate,tname,existing=sys.argv[1:]
d=f'/verif/seeded/{name}'
notes=open(d+'/notes.md').read() if os.path.exists(d+'/notes.md') else ''
patch=open(d+'/patch.diff').read()
meta=json.load(open(d+'/meta.json')) if os.path.exists(d+'/meta.json') else {}
ok=(applies=='0' and without=='0' and with_!='0' and exist=='0' and cerr=='0')
meta.update({"name":name,"property":name.split('-')[0],
 "files_changed":sorted(set(re.findall(r'^\+\+\+ b/(\S+)',patch,re.M))),
 "patch_applies":applies=='0',"demo_passes_without_patch":without=='0',"demo_fails_with_patch":with_!='0' and cerr=='0',
 "existing_tests_pass_with_patch":exist=='0',
 "commands_run":[f"git apply --check seeded/{name}/patch.diff (clean scratch worktree at /repo HEAD)",
   f"cargo test --offline -p {crate} --test {tname}   (without the patch, then with it)",
   f"cargo test --offline --no-fail-fast {existing} -- --skip test_derive   (with the patch, demo removed)"],
 "confirmed":ok,"confirmation_notes":"tools/confirm_seeded.sh; full output in confirm_output.txt"})
json.dump(meta,open(d+'/meta.json','w'),indent=1)
print(name,'confirmed' if ok else 'NOT CONFIRMED',dict(applies=applies,without=without,with_=with_,existing=exist,compile_err=cerr))
EOF
