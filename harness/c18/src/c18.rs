//! C18 Routing is deterministic: patterns invert, ambiguity is detected.
//!
//! Statement (fixed): filling a route pattern with parameter values and matching the result against
//! the same pattern returns exactly those values; matching depends on the URI alone (same URI =>
//! same bindings, a parameter never binds an empty segment); whenever some URI is matched by two
//! patterns the ambiguity check reports them, so a server that accepted its routes resolves every
//! URI to at most one agent definition.
//!
//! Every verdict below is computed with the public API of the code under test only
//! (`RoutePattern::{parse_str, parameters, apply, unapply_str, unapply_route_uri, are_ambiguous}`,
//! `RouteUri::from_str`, `ServerBuilder::{add_route, enable_introspection, build}`). The local
//! model (`Pat`) and the local percent-decoder are used to *generate* inputs and to *name* the
//! signature of a failure, never to decide whether a case fails.
use futures::future::BoxFuture;
use proptest::prelude::*;
use serde::{Deserialize, Serialize};
use std::collections::{HashMap, HashSet};
use swimos_api::agent::{Agent, AgentConfig, AgentContext, AgentInitResult};
use swimos_server_app::{ServerBuilder, ServerBuilderError};
use swimos_utilities::routing::{RoutePattern, RouteUri};
use vcommon::{Ctx, Verdict};

// ---------------------------------------------------------------------------------------------
// Model used by the generators

#[derive(Clone, Debug, PartialEq, Eq, Serialize, Deserialize)]
pub enum Seg {
    /// Raw text of a literal segment, exactly as written in the pattern.
    Lit(String),
    /// Raw parameter name (without the leading ':').
    Param(String),
}

#[derive(Clone, Debug, PartialEq, Eq, Serialize, Deserialize)]
pub struct Pat {
    pub scheme: Option<String>,
    pub absolute: bool,
    pub segs: Vec<Seg>,
}

impl Pat {
    pub fn text(&self) -> String {
        let mut s = String::new();
        if let Some(sc) = &self.scheme {
            s.push_str(sc);
            s.push(':');
        }
        for (i, seg) in self.segs.iter().enumerate() {
            if i > 0 || self.absolute {
                s.push('/');
            }
            match seg {
                Seg::Lit(l) => s.push_str(l),
                Seg::Param(n) => {
                    s.push(':');
                    s.push_str(n);
                }
            }
        }
        s
    }

    fn param_names(&self) -> Vec<&str> {
        self.segs
            .iter()
            .filter_map(|s| match s {
                Seg::Param(n) => Some(n.as_str()),
                _ => None,
            })
            .collect()
    }

    fn has_escape_or_non_ascii(&self) -> bool {
        self.segs.iter().any(|s| {
            let t = match s {
                Seg::Lit(t) | Seg::Param(t) => t,
            };
            t.contains('%') || !t.is_ascii()
        })
    }
}

fn hexval(b: u8) -> Option<u8> {
    match b {
        b'0'..=b'9' => Some(b - b'0'),
        b'a'..=b'f' => Some(b - b'a' + 10),
        b'A'..=b'F' => Some(b - b'A' + 10),
        _ => None,
    }
}

/// Percent-decoding as in RFC 3986 (invalid escapes stay verbatim). Generator / diagnosis only.
fn pct_decode(s: &str) -> Vec<u8> {
    let b = s.as_bytes();
    let mut out = Vec::with_capacity(b.len());
    let mut i = 0;
    while i < b.len() {
        if b[i] == b'%' && i + 2 < b.len() {
            if let (Some(h), Some(l)) = (hexval(b[i + 1]), hexval(b[i + 2])) {
                out.push(h << 4 | l);
                i += 3;
                continue;
            }
        }
        out.push(b[i]);
        i += 1;
    }
    out
}

/// The characters `RouteUri` accepts unescaped inside a path segment (route_uri/parser: is_path_char).
fn is_uri_path_byte(b: u8) -> bool {
    b.is_ascii_alphanumeric() || b"$-_.+!*'(),:@&=;".contains(&b)
}

/// Write `bytes` as a literal segment: mode 0..=4 plain where the URI grammar allows it,
/// 5/6 upper-case escape, 7 lower-case escape. Bytes outside the path alphabet are always escaped.
fn enc_bytes(bytes: &[u8], modes: &[u8]) -> String {
    let mut s = String::new();
    for (i, b) in bytes.iter().enumerate() {
        let mode = if modes.is_empty() { 0 } else { modes[i % modes.len()] };
        let plain_ok = is_uri_path_byte(*b) && !(i == 0 && *b == b':');
        if plain_ok && mode <= 4 {
            s.push(*b as char);
        } else if mode == 7 {
            s.push_str(&format!("%{:02x}", b));
        } else {
            s.push_str(&format!("%{:02X}", b));
        }
    }
    s
}

fn valid_scheme(s: &str) -> bool {
    let mut it = s.chars();
    matches!(it.next(), Some(c) if c.is_ascii_alphabetic())
        && it.all(|c| c.is_ascii_alphanumeric() || c == '+' || c == '-' || c == '.')
}

/// Keep a generated pattern inside the grammar whose structure we know:
///  * raw parameter names unique (the parser rejects duplicates),
///  * a literal never starts with ':' (it would be a parameter) and is never empty,
///  * a scheme-less relative pattern whose first literal starts with a letter must not contain ':'
///    (the pattern parser reads everything before the first ':' as a scheme, whatever it contains).
fn normalize(mut p: Pat) -> Pat {
    let mut seen: HashSet<String> = HashSet::new();
    for seg in p.segs.iter_mut() {
        match seg {
            Seg::Param(n) => {
                *n = n.replace(['/', ':'], "_");
                if n.is_empty() {
                    n.push('p');
                }
                let mut k = 2;
                let base = n.clone();
                while !seen.insert(n.clone()) {
                    *n = format!("{}{}", base, k);
                    k += 1;
                }
            }
            Seg::Lit(l) => {
                *l = l.replace('/', "%2F");
                if l.is_empty() {
                    l.push('a');
                }
                if l.starts_with(':') {
                    *l = format!("%3A{}", &l[1..]);
                }
            }
        }
    }
    if p.segs.is_empty() {
        p.segs.push(Seg::Lit("a".into()));
    }
    if p.scheme.is_none() && !p.absolute {
        if let Some(Seg::Lit(l)) = p.segs.first_mut() {
            if l.chars().next().map(|c| c.is_ascii_alphabetic()).unwrap_or(false) && l.contains(':') {
                *l = l.replace(':', "%3A");
            }
        }
    }
    p
}

// ---------------------------------------------------------------------------------------------
// Strategies

const WORDS: &[&str] = &[
    "a", "b", "ab", "node", "lane", "meta:node", "meta:mesh", "x-1", "a.b", "é", "a/b", "a b", "100%", "€", "~", "A",
    "unit",
];
const BYTE_POOL: &[u8] = &[
    b'a', b'a', b'b', b'b', b'c', b'A', b'0', b'9', b'-', b'_', b'.', b'~', b':', b'@', b'+', b'!', b'$', b'&', b'=', b';',
    b',', b'\'', b'(', b')', b'*', 0x00, 0x20, 0x25, 0x2F, 0x3A, 0x3F, 0x23, 0x7F, 0x80, 0xFF, 0xC3, 0xA9,
];
const SCHEMES: &[&str] = &["swimos", "warp", "http", "a", "s+x", "a-b.c1", "Swimos"];
const NAMES: &[&str] = &["id", "a", "b", "x", "node_uri", "lane_name", "ab"];
const ODD_NAMES: &[&str] = &[
    "a%62", "%41", "%C3%A9", "%FF", "%2F", "%zz", "%", "%4", "a b", "naïve", "a?b", "a#b", "%61b", "i%64", "%69d", "é",
    "%c3%a9", "a%2", "%3A",
];
const NAME_CHARS: &[char] = &['a', 'b', 'A', '1', '%', ' ', '?', '#', 'é', '.', '-', '_', '~', '+', '@', '4', '6', '2'];
const VALUE_WORDS: &[&str] = &["x", "hello", "1", "ab", "a", "b", "node", "meta:node", "meta:mesh", "lane", "unit"];
const VALUE_ODD: &[&str] = &["%41", "%2F", "..", ".", "a/b", "a%62", "%", "%zz", "a b", "/", "?", "#", ":", "%25", "é", "%C3%A9"];
const VALUE_CHARS: &[char] = &[
    'a', 'b', 'Z', '0', '/', '%', '?', '#', ':', ' ', 'é', '€', '😀', '.', '~', '-', '_', '+', '&', '=', '\u{0}', '\\', '"',
    '\u{fffd}', '\n',
];
const ODD_LIT_CHARS: &[char] = &['a', 'b', ' ', 'é', '€', '?', '#', '%', 'z', '"', '<', '\\', '^', '|', '2', '0', 'A', '~'];
const QUERIES: &[&str] = &["", "a=b", "x/y?z", "%20"];
const FRAGS: &[&str] = &["", "frag", "a/b?c"];
const NOISE: &[&str] = &[
    "", "/", "a:", "/a b", "/%", "/a%zz", "//", "//a", "swimos://host/x", "/a?x#y", "/é", "/a/", "/a//b", "a_b:c", ":", "/:",
    "?", "#", "/a#", "swimos:", "swimos:/", "swimos:meta:mesh", "swimos:meta:node/x", "swimos:meta:node/x/lane/y", "/ab",
    "/a%62", "ab", "%", "a%6", "/%00", "/%ff/%FF",
];

fn modes() -> impl Strategy<Value = Vec<u8>> {
    prop::collection::vec(prop_oneof![7 => Just(0u8), 2 => Just(5u8), 1 => Just(7u8)], 0..=3)
}

fn escaping_modes() -> impl Strategy<Value = Vec<u8>> {
    prop::collection::vec(prop_oneof![2 => Just(0u8), 2 => Just(5u8), 1 => Just(7u8)], 1..=3)
}

fn lit_bytes() -> impl Strategy<Value = Vec<u8>> {
    prop_oneof![
        5 => prop::sample::select(WORDS).prop_map(|w| w.as_bytes().to_vec()),
        3 => prop::collection::vec(prop::sample::select(BYTE_POOL), 1..=3),
    ]
}

/// A literal segment the URI grammar can express (path characters and %HH escapes only).
fn lit() -> impl Strategy<Value = String> {
    (lit_bytes(), modes()).prop_map(|(b, m)| enc_bytes(&b, &m))
}

/// A literal the pattern parser accepts although no `RouteUri` path can contain it verbatim
/// (raw non-ASCII, spaces, '?', '#', stray '%'). Used where only parse-independent laws are asserted.
fn odd_lit() -> impl Strategy<Value = String> {
    prop::collection::vec(prop::sample::select(ODD_LIT_CHARS), 1..=4).prop_map(|c| c.into_iter().collect())
}

fn param_name() -> impl Strategy<Value = String> {
    prop_oneof![
        6 => prop::sample::select(NAMES).prop_map(str::to_string),
        2 => prop::collection::vec(prop::sample::select(NAME_CHARS), 1..=4).prop_map(|c| c.into_iter().collect()),
        2 => prop::sample::select(ODD_NAMES).prop_map(str::to_string),
    ]
}

fn seg(odd: bool) -> BoxedStrategy<Seg> {
    if odd {
        prop_oneof![
            10 => lit().prop_map(Seg::Lit),
            2 => odd_lit().prop_map(Seg::Lit),
            9 => param_name().prop_map(Seg::Param),
        ]
        .boxed()
    } else {
        prop_oneof![11 => lit().prop_map(Seg::Lit), 9 => param_name().prop_map(Seg::Param)].boxed()
    }
}

fn scheme_opt() -> impl Strategy<Value = Option<String>> {
    prop_oneof![
        11 => Just(None),
        9 => prop::sample::select(SCHEMES).prop_map(|s| Some(s.to_string())),
    ]
}

fn pat(odd: bool) -> impl Strategy<Value = Pat> {
    (scheme_opt(), prop::bool::weighted(0.8), prop::collection::vec(seg(odd), 1..=5))
        .prop_map(|(scheme, absolute, segs)| normalize(Pat { scheme, absolute, segs }))
}

fn value() -> impl Strategy<Value = String> {
    prop_oneof![
        4 => prop::sample::select(VALUE_WORDS).prop_map(str::to_string),
        3 => prop::collection::vec(prop::sample::select(VALUE_CHARS), 1..=5).prop_map(|c| c.into_iter().collect()),
        1 => prop::sample::select(VALUE_ODD).prop_map(str::to_string),
    ]
}

fn values() -> impl Strategy<Value = Vec<String>> {
    prop::collection::vec(value(), 6)
}

#[derive(Clone, Debug, Serialize, Deserialize)]
pub struct Deco {
    /// Re-encoding choices for the path of a synthesised URI (cyclic; empty = keep).
    recode: Vec<u8>,
    /// 0 keep, 1 "swimos", 2 the other pattern's scheme, 3 "zz" (only applied to scheme-less URIs).
    scheme: u8,
    query: Option<String>,
    fragment: Option<String>,
    /// additionally try the URI with this path segment emptied ("/a/b" -> "/a/")
    blank: Option<u8>,
}

fn deco() -> impl Strategy<Value = Deco> {
    (
        prop::collection::vec(0u8..8, 0..=6),
        0u8..4,
        prop::option::weighted(0.3, prop::sample::select(QUERIES).prop_map(str::to_string)),
        prop::option::weighted(0.3, prop::sample::select(FRAGS).prop_map(str::to_string)),
        prop::option::weighted(0.35, any::<u8>()),
    )
        .prop_map(|(recode, scheme, query, fragment, blank)| Deco { recode, scheme, query, fragment, blank })
}

fn noise() -> impl Strategy<Value = Vec<String>> {
    prop::collection::vec(prop::sample::select(NOISE).prop_map(str::to_string), 0..=2)
}

#[derive(Clone, Debug)]
enum Mut {
    Same,
    /// literal -> parameter with this name / parameter -> this literal
    Flip(String, String),
    /// same decoded literal, different spelling
    Recode(Vec<u8>),
    Diff(String),
}

fn mutation() -> impl Strategy<Value = Mut> {
    prop_oneof![
        9 => Just(Mut::Same),
        4 => (param_name(), lit()).prop_map(|(n, l)| Mut::Flip(n, l)),
        4 => escaping_modes().prop_map(Mut::Recode),
        3 => lit().prop_map(Mut::Diff),
    ]
}

#[derive(Clone, Debug)]
struct Variation {
    muts: Vec<Mut>,
    /// 0 same, 1 none, 2 other
    scheme: u8,
    other_scheme: String,
    flip_abs: bool,
    /// 0 same, 1 drop last, 2 append
    len: u8,
    extra: Seg,
}

fn variation() -> impl Strategy<Value = Variation> {
    (
        prop::collection::vec(mutation(), 6),
        prop_oneof![6 => Just(0u8), 2 => Just(1u8), 2 => Just(2u8)],
        prop::sample::select(SCHEMES).prop_map(str::to_string),
        prop::bool::weighted(0.08),
        prop_oneof![17 => Just(0u8), 1 => Just(1u8), 2 => Just(2u8)],
        seg(false),
    )
        .prop_map(|(muts, scheme, other_scheme, flip_abs, len, extra)| Variation {
            muts,
            scheme,
            other_scheme,
            flip_abs,
            len,
            extra,
        })
}

fn vary(p: &Pat, v: &Variation) -> Pat {
    let mut segs: Vec<Seg> = p
        .segs
        .iter()
        .enumerate()
        .map(|(i, s)| match (&v.muts[i % v.muts.len()], s) {
            (Mut::Same, s) => s.clone(),
            (Mut::Flip(n, _), Seg::Lit(_)) => Seg::Param(n.clone()),
            (Mut::Flip(_, l), Seg::Param(_)) => Seg::Lit(l.clone()),
            (Mut::Recode(m), Seg::Lit(l)) => Seg::Lit(enc_bytes(&pct_decode(l), m)),
            (Mut::Recode(_), Seg::Param(n)) => Seg::Param(n.clone()),
            (Mut::Diff(l), _) => Seg::Lit(l.clone()),
        })
        .collect();
    match v.len {
        1 if segs.len() > 1 => {
            segs.pop();
        }
        2 => segs.push(v.extra.clone()),
        _ => {}
    }
    let scheme = match v.scheme {
        0 => p.scheme.clone(),
        1 => None,
        _ => Some(v.other_scheme.clone()),
    };
    normalize(Pat {
        scheme,
        absolute: p.absolute ^ v.flip_abs,
        segs,
    })
}

/// A family of related patterns: the first is free, the others are variations of it (or free).
fn family(min: usize, max: usize, odd: bool) -> impl Strategy<Value = Vec<Pat>> {
    (
        pat(odd),
        prop::collection::vec(prop_oneof![8 => variation().prop_map(Some), 1 => Just(None)], (min - 1)..=(max - 1)),
        prop::collection::vec(pat(odd), max - 1),
    )
        .prop_map(|(base, vars, free)| {
            let mut out = vec![base.clone()];
            for (i, v) in vars.iter().enumerate() {
                out.push(match v {
                    Some(v) => vary(&base, v),
                    None => free[i].clone(),
                });
            }
            out
        })
}

// ---------------------------------------------------------------------------------------------
// Cases

#[derive(Clone, Debug, Serialize, Deserialize)]
struct RtCase {
    pat: Pat,
    values: Vec<String>,
    deco: Deco,
    noise: Vec<String>,
}

#[derive(Clone, Debug, Serialize, Deserialize)]
struct SetCase {
    pats: Vec<Pat>,
    values: Vec<String>,
    /// per segment position: bind the parameter to the other pattern's literal at that position
    use_other: Vec<bool>,
    deco: Deco,
    noise: Vec<String>,
}

#[derive(Clone, Debug, Serialize, Deserialize)]
struct ServerCase {
    set: SetCase,
    introspection: bool,
}

#[derive(Clone, Debug, Serialize, Deserialize)]
enum Fault {
    Empty,
    SlashOnly,
    SchemeOnly,
    SchemeSlashOnly,
    EmptySegment,
    TrailingSlash,
    EmptyParamName,
    ColonInParamName,
    DuplicateParam,
}

#[derive(Clone, Debug, Serialize, Deserialize)]
enum BadCase {
    Arbitrary { text: String, values: Vec<String>, uris: Vec<String> },
    Fault { pat: Pat, fault: Fault, pos: u16 },
}

// ---------------------------------------------------------------------------------------------
// URI synthesis (deterministic functions of the case)

fn is_hex(b: u8) -> bool {
    hexval(b).is_some()
}

/// Re-spell the path of a URI without changing what its segments decode to.
fn recode_path(path: &str, modes: &[u8]) -> String {
    if modes.is_empty() {
        return path.to_string();
    }
    let b = path.as_bytes();
    let mut out = String::new();
    let mut i = 0;
    let mut k = 0;
    while i < b.len() {
        let mode = modes[k % modes.len()];
        k += 1;
        if b[i] == b'%' && i + 2 < b.len() && is_hex(b[i + 1]) && is_hex(b[i + 2]) {
            let byte = hexval(b[i + 1]).unwrap() << 4 | hexval(b[i + 2]).unwrap();
            match mode {
                1 | 2 if is_uri_path_byte(byte) && byte != b':' => out.push(byte as char),
                3 => out.push_str(&format!("%{:02x}", byte)),
                4 => out.push_str(&format!("%{:02X}", byte)),
                _ => out.push_str(&path[i..i + 3]),
            }
            i += 3;
        } else if b[i] == b'/' || !b[i].is_ascii() {
            // keep separators; non-ASCII cannot occur in an applied route, copy bytes verbatim
            let ch = path[i..].chars().next().unwrap();
            out.push(ch);
            i += ch.len_utf8();
        } else {
            match mode {
                5 | 6 => out.push_str(&format!("%{:02X}", b[i])),
                7 => out.push_str(&format!("%{:02x}", b[i])),
                _ => out.push(b[i] as char),
            }
            i += 1;
        }
    }
    out
}

fn decorate(route: &str, scheme: Option<&str>, other_scheme: Option<&str>, d: &Deco) -> String {
    let (prefix, path) = match scheme {
        Some(s) if route.starts_with(s) && route[s.len()..].starts_with(':') => {
            (route[..s.len() + 1].to_string(), &route[s.len() + 1..])
        }
        _ => {
            let pre = match d.scheme {
                1 => "swimos:".to_string(),
                2 => other_scheme.map(|s| format!("{}:", s)).unwrap_or_default(),
                3 => "zz:".to_string(),
                _ => String::new(),
            };
            (pre, route)
        }
    };
    let mut out = prefix;
    out.push_str(&recode_path(path, &d.recode));
    if let Some(q) = &d.query {
        out.push('?');
        out.push_str(q);
    }
    if let Some(f) = &d.fragment {
        out.push('#');
        out.push_str(f);
    }
    out
}

/// The route with one of its path segments emptied: a URI in which a parameter position is empty.
fn blank_segment(route: &str, scheme: Option<&str>, which: u8) -> String {
    let (prefix, path) = match scheme {
        Some(s) if route.starts_with(s) && route[s.len()..].starts_with(':') => route.split_at(s.len() + 1),
        _ => ("", route),
    };
    let mut parts: Vec<&str> = path.split('/').collect();
    let idx = vcommon::pick_index((which as u16) << 8, parts.len());
    parts[idx] = "";
    format!("{}{}", prefix, parts.join("/"))
}

struct Side<'a> {
    pat: &'a RoutePattern,
    model: &'a Pat,
}

/// `a` filled so that (where possible) its parameters take the text of `b`'s literal at the same
/// segment position: the most likely URI to be matched by both.
fn fill(a: &Side, b: &Pat, values: &[String], use_other: &[bool]) -> Option<String> {
    let params: Vec<String> = a.pat.parameters().map(str::to_string).collect();
    let mut m: HashMap<String, String> = HashMap::new();
    let mut k = 0;
    for (i, seg) in a.model.segs.iter().enumerate() {
        if let Seg::Param(_) = seg {
            let Some(name) = params.get(k) else { break };
            k += 1;
            let mut val = values[i % values.len()].clone();
            if !use_other.is_empty() && use_other[i % use_other.len()] {
                if let Some(Seg::Lit(l)) = b.segs.get(i) {
                    if let Ok(s) = String::from_utf8(pct_decode(l)) {
                        if !s.is_empty() {
                            val = s;
                        }
                    }
                }
            }
            m.insert(name.clone(), val);
        }
    }
    for (j, name) in params.iter().enumerate() {
        m.entry(name.clone()).or_insert_with(|| values[j % values.len()].clone());
    }
    a.pat.apply(&m).ok()
}

fn witnesses(sides: &[Side], values: &[String], use_other: &[bool], d: &Deco, noise: &[String]) -> Vec<String> {
    let mut out: Vec<String> = vec![];
    let mut push = |s: String| {
        if !out.contains(&s) {
            out.push(s);
        }
    };
    for (i, a) in sides.iter().enumerate() {
        for (j, b) in sides.iter().enumerate() {
            if i == j && sides.len() > 1 {
                continue;
            }
            if let Some(route) = fill(a, b.model, values, use_other) {
                let dec = decorate(&route, a.pat.scheme_str(), b.pat.scheme_str(), d);
                if let Some(which) = d.blank {
                    push(blank_segment(&route, a.pat.scheme_str(), which));
                }
                push(route);
                push(dec);
            }
        }
    }
    for n in noise {
        push(n.clone());
    }
    out
}

// ---------------------------------------------------------------------------------------------
// Laws

type Bindings = HashMap<String, String>;

/// The per-URI laws: matching is a function of the URI (all entry points, repeated calls) and no
/// binding is empty. Returns the bindings if the URI matches.
fn probe(p: &RoutePattern, u: &str, v: &mut Verdict) -> Option<Bindings> {
    let r1 = p.unapply_str(u);
    let r2 = p.unapply_str(u);
    if r1 != r2 {
        v.fail(
            "determinism:unapply_str-twice",
            format!("pattern {:?}, uri {:?}: {:?} then {:?}", p.to_string(), u, r1, r2),
        );
    }
    match u.parse::<RouteUri>() {
        Ok(ru) => {
            let r3 = p.unapply_route_uri(&ru);
            if r3 != r1 {
                v.fail(
                    "determinism:unapply_str-vs-unapply_route_uri",
                    format!("pattern {:?}, uri {:?}: unapply_str {:?} but unapply_route_uri(parse) {:?}", p.to_string(), u, r1, r3),
                );
            }
            match RouteUri::try_from(u.to_string()) {
                Ok(ru2) => {
                    let r4 = p.unapply_route_uri(&ru2);
                    if r4 != r1 {
                        v.fail(
                            "determinism:second-parse-of-uri",
                            format!("pattern {:?}, uri {:?}: {:?} vs {:?} for two parses of the same text", p.to_string(), u, r1, r4),
                        );
                    }
                }
                Err(_) => v.fail(
                    "determinism:uri-parse-entry-points-disagree",
                    format!("uri {:?}: from_str accepts, try_from(String) rejects", u),
                ),
            }
        }
        Err(_) => {
            if r1.is_ok() {
                v.fail(
                    "determinism:matched-text-that-is-not-a-route-uri",
                    format!("pattern {:?} matched {:?} which RouteUri rejects", p.to_string(), u),
                );
            }
        }
    }
    match r1 {
        Ok(b) => {
            if let Some((k, _)) = b.iter().find(|(_, val)| val.is_empty()) {
                v.fail(
                    "empty-binding",
                    format!("pattern {:?}, uri {:?}: parameter {:?} bound to the empty string", p.to_string(), u, k),
                );
            }
            Some(b)
        }
        Err(_) => None,
    }
}

fn lossy_decoded(s: &str) -> String {
    String::from_utf8_lossy(&pct_decode(s)).to_string()
}

/// Name the cause of "both patterns match `u` but the pair is not reported ambiguous".
fn unreported_sig(a: &Pat, b: &Pat) -> &'static str {
    if a.segs.len() != b.segs.len() {
        return "ambiguity-unreported:segment-count";
    }
    let mut encoded_only = false;
    for (x, y) in a.segs.iter().zip(&b.segs) {
        if let (Seg::Lit(x), Seg::Lit(y)) = (x, y) {
            if x != y {
                if pct_decode(x) == pct_decode(y) {
                    encoded_only = true;
                } else {
                    return "ambiguity-unreported:other";
                }
            }
        }
    }
    if encoded_only {
        "ambiguity-unreported:literals-equal-after-percent-decoding"
    } else {
        "ambiguity-unreported:other"
    }
}

fn parse_valid(p: &Pat, v: &mut Verdict) -> Option<RoutePattern> {
    let text = p.text();
    match RoutePattern::parse_str(&text) {
        Ok(rp) => {
            let names: Vec<&str> = rp.parameters().collect();
            if names != p.param_names() || rp.scheme_str() != p.scheme.as_deref() || rp.has_absolute_path() != p.absolute {
                // the generator's idea of the structure is off: diagnosis labels may be imprecise
                v.class("model-mismatch");
            }
            Some(rp)
        }
        Err(e) => {
            v.fail(
                "parse:well-formed-pattern-rejected",
                format!("pattern {:?} (non-empty '/'-separated literals and uniquely named parameters) rejected: {}", text, e),
            );
            None
        }
    }
}

/// `route` = apply(p, m): does matching it against `p` give back exactly `m`? Returns the signature and
/// detail of the failure (the per-URI laws are recorded in `v` directly).
fn roundtrip_failure(
    p: &RoutePattern,
    params: &[String],
    m: &Bindings,
    route: &str,
    v: &mut Verdict,
) -> Option<(&'static str, String)> {
    let text = p.to_string();
    match probe(p, route, v) {
        None => {
            let sig = match route.parse::<RouteUri>() {
                Err(_) => "roundtrip:applied-route-is-not-a-route-uri",
                Ok(ru) => {
                    // an applied route has no query / fragment: scheme ':' path must cover all of it
                    let consumed = ru.scheme().map(|s| s.len() + 1).unwrap_or(0) + ru.path().len();
                    if consumed < route.len() {
                        "roundtrip:applied-route-cut-short-by-uri-parser"
                    } else {
                        "roundtrip:applied-route-does-not-match"
                    }
                }
            };
            Some((
                sig,
                format!("pattern {:?} applied to {:?} gives {:?} which does not match the pattern", text, m, route),
            ))
        }
        Some(b) if &b != m => {
            let decoded: Vec<String> = params.iter().map(|k| lossy_decoded(k)).collect();
            let renamed = decoded.iter().zip(params).any(|(d, k)| d != k);
            let distinct: HashSet<&String> = decoded.iter().collect();
            // is the difference fully explained by the names having been percent-decoded?
            let explained = renamed
                && b.iter().all(|(k, val)| {
                    params
                        .iter()
                        .zip(&decoded)
                        .any(|(raw, d)| d == k && m.get(raw) == Some(val))
                })
                && distinct.iter().all(|d| b.contains_key(*d));
            let sig = if !explained {
                "roundtrip:bindings-differ"
            } else if distinct.len() < params.len() {
                "roundtrip:parameter-names-collide-after-percent-decoding"
            } else {
                "roundtrip:parameter-name-percent-decoded"
            };
            Some((
                sig,
                format!("pattern {:?}: apply({:?}) = {:?}, unapply gives {:?}", text, m, route, b),
            ))
        }
        Some(_) => None,
    }
}

fn check_roundtrip(c: &RtCase) -> Verdict {
    let mut v = Verdict::new();
    let Some(p) = parse_valid(&c.pat, &mut v) else { return v };
    let text = c.pat.text();
    let params: Vec<String> = p.parameters().map(str::to_string).collect();
    let m: Bindings = params
        .iter()
        .enumerate()
        .map(|(i, k)| (k.clone(), c.values[i % c.values.len()].clone()))
        .collect();
    let needs_encoding = m
        .values()
        .any(|s| s.bytes().any(|b| !(b.is_ascii_alphanumeric() || b"-_.~".contains(&b))));
    match p.apply(&m) {
        Err(e) => v.fail(
            "roundtrip:apply-rejected-complete-map",
            format!("pattern {:?} with all parameters bound to non-empty values {:?}: {}", text, m, e),
        ),
        Ok(route) => {
            if let Some((sig, detail)) = roundtrip_failure(&p, &params, &m, &route, &mut v) {
                // apply leaves '~' unescaped (URL_ENCODE) but the RouteUri grammar has no '~': everything from
                // the first '~' on is silently dropped by the URI parser. That root cause is named only if
                // escaping the tildes by hand changes the outcome; whatever still fails then is reported
                // under its own name.
                let second = if route.contains('~') {
                    Some(roundtrip_failure(&p, &params, &m, &route.replace('~', "%7E"), &mut v))
                } else {
                    None
                };
                match second {
                    Some(second) if second.as_ref().map(|(s, _)| *s) != Some(sig) => {
                        v.fail(
                            "roundtrip:unescaped-tilde-in-applied-route-dropped-by-route-uri",
                            format!("{} ['~' is written verbatim by apply but is not a RouteUri path character]", detail),
                        );
                        if let Some((sig2, detail2)) = second {
                            v.fail(sig2, detail2);
                        }
                    }
                    _ => v.fail(sig, detail),
                }
            }
            // other spellings of the same route and unrelated texts: per-URI laws only
            let dec = decorate(&route, p.scheme_str(), None, &c.deco);
            if probe(&p, &dec, &mut v).is_some() {
                v.class("respelled-uri-matches");
            }
            if let Some(which) = c.deco.blank {
                if probe(&p, &blank_segment(&route, p.scheme_str(), which), &mut v).is_some() {
                    v.class("uri-with-emptied-segment-matches");
                }
            }
        }
    }
    for n in &c.noise {
        if probe(&p, n, &mut v).is_some() {
            v.class("noise-uri-matches");
        }
    }
    // incomplete / empty-valued maps must be refused gracefully (no assertion beyond "no panic")
    if let Some(first) = params.first() {
        let mut partial = m.clone();
        partial.remove(first);
        let _ = p.apply(&partial);
        partial.insert(first.clone(), String::new());
        let _ = p.apply(&partial);
    }
    let escaped = c.pat.has_escape_or_non_ascii();
    if !params.is_empty() && (escaped || needs_encoding) {
        v.nontrivial();
    }
    v.class_if(params.is_empty(), "no-parameters");
    v.class_if(params.len() >= 2, "multi-parameter");
    v.class_if(escaped, "escaped-or-non-ascii-segment");
    v.class_if(needs_encoding, "value-needs-encoding");
    v.class_if(c.pat.scheme.is_some(), "scheme");
    v.class_if(!c.pat.absolute, "relative");
    v.class_if(c.pat.param_names().iter().any(|n| lossy_decoded(n) != *n), "parameter-name-with-escape");
    v
}

struct Parsed {
    pats: Vec<RoutePattern>,
}

fn parse_all(models: &[Pat], v: &mut Verdict) -> Option<Parsed> {
    let mut pats = vec![];
    for m in models {
        pats.push(parse_valid(m, v)?);
    }
    Some(Parsed { pats })
}

/// Pairs and sets: any URI matched by two patterns => the pair is reported (in both argument
/// orders); in a set the plane check would accept, every URI matches at most one pattern.
fn check_set(c: &SetCase) -> Verdict {
    let mut v = Verdict::new();
    let Some(Parsed { pats }) = parse_all(&c.pats, &mut v) else { return v };
    let sides: Vec<Side> = pats.iter().zip(&c.pats).map(|(pat, model)| Side { pat, model }).collect();
    let uris = witnesses(&sides, &c.values, &c.use_other, &c.deco, &c.noise);
    let n = pats.len();
    // the acceptance rule of PlaneBuilder::build: no pair i<j is ambiguous
    let mut accepted = true;
    for i in 0..n {
        for j in (i + 1)..n {
            if RoutePattern::are_ambiguous(&pats[i], &pats[j]) {
                accepted = false;
            }
        }
    }
    let mut both = false;
    let mut single = false;
    let mut reported_sigs: HashSet<&'static str> = HashSet::new();
    for u in &uris {
        let matching: Vec<usize> = (0..n).filter(|i| probe(&pats[*i], u, &mut v).is_some()).collect();
        if matching.len() == 1 {
            single = true;
        }
        for (x, i) in matching.iter().enumerate() {
            for j in &matching[x + 1..] {
                both = true;
                let ij = RoutePattern::are_ambiguous(&pats[*i], &pats[*j]);
                let ji = RoutePattern::are_ambiguous(&pats[*j], &pats[*i]);
                if !(ij && ji) {
                    let sig = unreported_sig(&c.pats[*i], &c.pats[*j]);
                    if reported_sigs.insert(sig) {
                        v.fail(
                            sig,
                            format!(
                                "uri {:?} is matched by {:?} and by {:?} but are_ambiguous = {} / {} (reverse){}",
                                u,
                                pats[*i].to_string(),
                                pats[*j].to_string(),
                                ij,
                                ji,
                                if accepted { "; the set is pairwise unambiguous, so a plane with these routes is accepted" } else { "" }
                            ),
                        );
                    }
                }
            }
        }
        if accepted && matching.len() > 1 && reported_sigs.is_empty() {
            // cannot happen unless are_ambiguous is asymmetric or unstable (reported above otherwise)
            v.fail(
                "set-accepted-but-uri-resolves-twice",
                format!("uri {:?} matches routes {:?} of a pairwise-unambiguous set", u, matching),
            );
        }
    }
    let distinct_texts: HashSet<String> = c.pats.iter().map(|p| p.text()).collect();
    let same_len = (0..n).any(|i| (i + 1..n).any(|j| c.pats[i].segs.len() == c.pats[j].segs.len()));
    if n == 2 {
        if distinct_texts.len() == 2 && both {
            v.nontrivial();
        }
    } else if accepted && distinct_texts.len() >= 2 && same_len && single {
        v.nontrivial();
    }
    v.class_if(both, "some-uri-matched-by-two");
    v.class_if(single, "some-uri-matched-by-one");
    v.class_if(accepted, "set-accepted");
    v.class_if(!accepted, "set-rejected");
    v.class_if(!accepted && !both, "reported-ambiguous-without-witness");
    v.class_if(c.pats.iter().any(|p| p.has_escape_or_non_ascii()), "escaped-or-non-ascii-segment");
    v.class_if(distinct_texts.len() < n, "duplicate-pattern");
    v
}

// ---------------------------------------------------------------------------------------------
// Server level

struct DummyAgent;

impl Agent for DummyAgent {
    fn run(
        &self,
        _route: RouteUri,
        _route_params: HashMap<String, String>,
        _config: AgentConfig,
        _context: Box<dyn AgentContext + Send>,
    ) -> BoxFuture<'static, AgentInitResult> {
        panic!("never run")
    }
}

thread_local! {
    static RT: tokio::runtime::Runtime = tokio::runtime::Builder::new_current_thread()
        .build()
        .expect("runtime");
}

fn meta_model(text: &str) -> Pat {
    // the three introspection patterns are "swimos:" + relative segments
    let rest = text.strip_prefix("swimos:").unwrap_or(text);
    Pat {
        scheme: text.starts_with("swimos:").then(|| "swimos".to_string()),
        absolute: false,
        segs: rest
            .split('/')
            .map(|s| match s.strip_prefix(':') {
                Some(n) => Seg::Param(n.to_string()),
                None => Seg::Lit(s.to_string()),
            })
            .collect(),
    }
}

/// Route table of a running server: the plane's routes followed (with introspection) by the mesh,
/// node and lane meta routes (server/runtime/mod.rs: `plane.routes` then `register_introspection`).
fn check_server(c: &ServerCase) -> Verdict {
    let mut v = Verdict::new();
    let Some(Parsed { pats }) = parse_all(&c.set.pats, &mut v) else { return v };
    let mut builder = ServerBuilder::with_plane_name("plane");
    for p in &pats {
        builder = builder.add_route(p.clone(), DummyAgent);
    }
    if c.introspection {
        builder = builder.enable_introspection();
    }
    let result = RT.with(|rt| rt.block_on(builder.build()));
    let accepted = match &result {
        Err(ServerBuilderError::BadRoutes(_)) => false,
        Ok(_) => true,
        Err(_) => {
            v.class("build-failed-after-route-check");
            true
        }
    };
    drop(result);
    let mut table: Vec<(RoutePattern, Pat, &'static str)> =
        pats.iter().cloned().zip(c.set.pats.iter().cloned()).map(|(p, m)| (p, m, "user")).collect();
    if c.introspection {
        for (p, kind) in [
            (swimos_introspection::mesh_pattern(), "mesh"),
            (swimos_introspection::node_pattern(), "node"),
            (swimos_introspection::lane_pattern(), "lane"),
        ] {
            let model = meta_model(&p.to_string());
            if model.text() != p.to_string() {
                v.class("model-mismatch");
            }
            table.push((p, model, kind));
        }
    }
    let sides: Vec<Side> = table.iter().map(|(pat, model, _)| Side { pat, model }).collect();
    let uris = witnesses(&sides, &c.set.values, &c.set.use_other, &c.set.deco, &c.set.noise);
    let mut resolved = false;
    let mut twice = false;
    let mut reported: HashSet<String> = HashSet::new();
    if accepted {
        for u in &uris {
            let matching: Vec<usize> = (0..table.len()).filter(|i| probe(&table[*i].0, u, &mut v).is_some()).collect();
            if matching.len() == 1 {
                resolved = true;
            }
            if matching.len() > 1 {
                twice = true;
                let (i, j) = (matching[0], matching[1]);
                let ij = RoutePattern::are_ambiguous(&table[i].0, &table[j].0);
                let ji = RoutePattern::are_ambiguous(&table[j].0, &table[i].0);
                let sig = if !(ij && ji) {
                    unreported_sig(&table[i].1, &table[j].1).to_string()
                } else {
                    format!("server-accepted-ambiguous-routes:{}-vs-{}", table[i].2, table[j].2)
                };
                if reported.insert(sig.clone()) {
                    v.fail(
                        sig,
                        format!(
                            "server (introspection {}) accepted routes {:?}; uri {:?} is matched by {} route {:?} and by {} route {:?} (are_ambiguous = {})",
                            c.introspection,
                            pats.iter().map(|p| p.to_string()).collect::<Vec<_>>(),
                            u,
                            table[i].2,
                            table[i].0.to_string(),
                            table[j].2,
                            table[j].0.to_string(),
                            ij && ji
                        ),
                    );
                }
            }
        }
    }
    if accepted && resolved && table.len() >= 2 {
        v.nontrivial();
    }
    v.class_if(accepted, "server-accepted");
    v.class_if(!accepted, "server-rejected");
    v.class_if(c.introspection, "introspection");
    v.class_if(twice, "some-uri-matched-by-two");
    v.class_if(resolved, "some-uri-resolved");
    v
}

// ---------------------------------------------------------------------------------------------
// Malformed patterns

fn faulty_text(p: &Pat, fault: &Fault, pos: u16) -> Option<String> {
    let mut parts: Vec<String> = p
        .segs
        .iter()
        .map(|s| match s {
            Seg::Lit(l) => l.clone(),
            Seg::Param(n) => format!(":{}", n),
        })
        .collect();
    let render = |parts: &[String]| {
        let mut s = String::new();
        if let Some(sc) = &p.scheme {
            s.push_str(sc);
            s.push(':');
        }
        for (i, part) in parts.iter().enumerate() {
            if i > 0 || p.absolute {
                s.push('/');
            }
            s.push_str(part);
        }
        s
    };
    let scheme = p.scheme.clone().unwrap_or_else(|| "swimos".to_string());
    Some(match fault {
        Fault::Empty => String::new(),
        Fault::SlashOnly => "/".to_string(),
        Fault::SchemeOnly => format!("{}:", scheme),
        Fault::SchemeSlashOnly => format!("{}:/", scheme),
        Fault::TrailingSlash => format!("{}/", p.text()),
        Fault::EmptySegment => {
            // an empty segment somewhere (for a relative pattern not in front: that would only make it absolute)
            let lo = if p.absolute { 0 } else { 1 };
            let at = lo + vcommon::pick_index(pos, parts.len() + 1 - lo);
            parts.insert(at, String::new());
            render(&parts)
        }
        Fault::EmptyParamName => {
            let at = vcommon::pick_index(pos, parts.len() + 1);
            parts.insert(at, ":".to_string());
            render(&parts)
        }
        Fault::ColonInParamName => {
            let at = vcommon::pick_index(pos, parts.len() + 1);
            parts.insert(at, ":na:me".to_string());
            render(&parts)
        }
        Fault::DuplicateParam => {
            let names = p.param_names();
            if names.is_empty() {
                return None;
            }
            let name = names[vcommon::pick_index(pos, names.len())].to_string();
            let at = vcommon::pick_index(pos.wrapping_mul(31), parts.len() + 1);
            parts.insert(at, format!(":{}", name));
            render(&parts)
        }
    })
}

fn fault_sig(f: &Fault) -> &'static str {
    match f {
        Fault::Empty => "malformed-accepted:empty",
        Fault::SlashOnly => "malformed-accepted:slash-only",
        Fault::SchemeOnly => "malformed-accepted:scheme-without-path",
        Fault::SchemeSlashOnly => "malformed-accepted:scheme-and-slash-only",
        Fault::EmptySegment => "malformed-accepted:empty-segment",
        Fault::TrailingSlash => "malformed-accepted:trailing-slash",
        Fault::EmptyParamName => "malformed-accepted:empty-parameter-name",
        Fault::ColonInParamName => "malformed-accepted:colon-in-parameter-name",
        Fault::DuplicateParam => "malformed-accepted:duplicate-parameter-name",
    }
}

fn check_bad(c: &BadCase) -> Verdict {
    let mut v = Verdict::new();
    match c {
        BadCase::Fault { pat, fault, pos } => {
            let Some(text) = faulty_text(pat, fault, *pos) else {
                v.class("fault-not-applicable");
                return v;
            };
            match RoutePattern::parse_str(&text) {
                Err(_) => {}
                Ok(p) => {
                    let applied = p.apply(&HashMap::new());
                    let back = applied.as_ref().ok().map(|r| p.unapply_str(r).is_ok());
                    v.fail(
                        fault_sig(fault),
                        format!(
                            "malformed pattern {:?} accepted (segments {}, apply({{}}) = {:?}, matches its own route: {:?})",
                            text,
                            p.parameters().count(),
                            applied,
                            back
                        ),
                    );
                }
            }
            v.nontrivial();
            v.class(match fault {
                Fault::Empty | Fault::SlashOnly | Fault::SchemeOnly | Fault::SchemeSlashOnly => "fault-no-segments",
                Fault::EmptySegment | Fault::TrailingSlash => "fault-empty-segment",
                Fault::EmptyParamName | Fault::ColonInParamName => "fault-parameter-name",
                Fault::DuplicateParam => "fault-duplicate-parameter",
            });
        }
        BadCase::Arbitrary { text, values, uris } => {
            // arbitrary text: never panic; whatever parses obeys the per-URI laws and has unique names
            match RoutePattern::parse_str(text) {
                Err(_) => v.class("arbitrary-rejected"),
                Ok(p) => {
                    v.class("arbitrary-accepted");
                    let params: Vec<String> = p.parameters().map(str::to_string).collect();
                    let uniq: HashSet<&String> = params.iter().collect();
                    if uniq.len() != params.len() {
                        v.fail(
                            "malformed-accepted:duplicate-parameter-name",
                            format!("pattern {:?} accepted with parameters {:?}", text, params),
                        );
                    }
                    let m: Bindings = params
                        .iter()
                        .enumerate()
                        .map(|(i, k)| (k.clone(), values[i % values.len()].clone()))
                        .collect();
                    let _ = p.apply(&HashMap::new());
                    if let Ok(route) = p.apply(&m) {
                        if probe(&p, &route, &mut v).is_some() {
                            v.class("arbitrary-roundtrip-matches");
                        }
                    }
                    for u in uris {
                        probe(&p, u, &mut v);
                    }
                    let _ = RoutePattern::are_ambiguous(&p, &p);
                    if text.contains('/') && (text.contains(':') || text.contains('%')) {
                        v.nontrivial();
                    }
                }
            }
        }
    }
    v
}

fn arbitrary_text() -> impl Strategy<Value = String> {
    let alphabet: Vec<char> = "/:%aAb0 ?#é€\u{0}\u{fffd}😀-._~@2fF\\\"".chars().collect();
    prop_oneof![
        4 => prop::collection::vec(prop::sample::select(alphabet), 0..12).prop_map(|c| c.into_iter().collect::<String>()),
        1 => any::<String>(),
        1 => prop::collection::vec(any::<char>(), 0..8).prop_map(|c| c.into_iter().collect::<String>()),
        2 => (pat(true), any::<u16>(), prop::sample::select(vec!['/', ':', '%', ' ', 'é', '\u{0}'])).prop_map(|(p, at, ch)| {
            // a valid pattern with one character inserted or one removed
            let t = p.text();
            let mut chars: Vec<char> = t.chars().collect();
            let i = vcommon::pick_index(at, chars.len() + 1);
            if at & 1 == 0 || chars.is_empty() {
                chars.insert(i, ch);
            } else {
                chars.remove(i.min(chars.len() - 1));
            }
            chars.into_iter().collect()
        }),
    ]
}

fn bad_case() -> impl Strategy<Value = BadCase> {
    prop_oneof![
        3 => (arbitrary_text(), values(), prop::collection::vec(prop_oneof![arbitrary_text(), prop::sample::select(NOISE).prop_map(str::to_string)], 0..3))
            .prop_map(|(text, values, uris)| BadCase::Arbitrary { text, values, uris }),
        2 => (
            pat(true),
            prop_oneof![
                1 => Just(Fault::Empty),
                1 => Just(Fault::SlashOnly),
                2 => Just(Fault::SchemeOnly),
                1 => Just(Fault::SchemeSlashOnly),
                6 => Just(Fault::EmptySegment),
                4 => Just(Fault::TrailingSlash),
                5 => Just(Fault::EmptyParamName),
                4 => Just(Fault::ColonInParamName),
                8 => Just(Fault::DuplicateParam),
            ],
            any::<u16>()
        )
            .prop_map(|(pat, fault, pos)| BadCase::Fault { pat, fault, pos }),
    ]
}

// ---------------------------------------------------------------------------------------------

const META_LIKE: &[&str] = &[
    ":x",
    "swimos::x",
    "meta%3Amesh",
    "swimos:meta:mesh",
    "swimos:meta%3Amesh",
    "swimos:meta:node/:n",
    "swimos:meta%3Anode/:n",
    ":a/:b",
    "swimos:meta:node/:n/lane/:l",
    "meta%3Anode/:x",
    ":a/:b/lane/:c",
    "/:a/:b",
    "/meta:mesh",
    "warp:meta:mesh",
    "swimos:meta:node/:n/%6Cane/:l",
];

fn set_case(min: usize, max: usize, odd: bool) -> impl Strategy<Value = SetCase> {
    (
        family(min, max, odd),
        values(),
        prop::collection::vec(prop::bool::weighted(0.75), 5),
        deco(),
        noise(),
    )
        .prop_map(|(pats, values, use_other, deco, noise)| SetCase { pats, values, use_other, deco, noise })
}

fn server_case() -> impl Strategy<Value = ServerCase> {
    (
        set_case(1, 4, false),
        prop::collection::vec(prop::option::weighted(0.2, prop::sample::select(META_LIKE)), 4),
        any::<bool>(),
    )
        .prop_map(|(mut set, meta, introspection)| {
            for (i, m) in meta.iter().enumerate() {
                if let (Some(text), Some(slot)) = (m, set.pats.get_mut(i)) {
                    *slot = meta_like_model(text);
                }
            }
            ServerCase { set, introspection }
        })
}

fn meta_like_model(text: &str) -> Pat {
    let (scheme, rest) = match text.split_once(':') {
        Some((s, rest)) if !s.is_empty() && valid_scheme(s) && !s.contains('/') => (Some(s.to_string()), rest),
        _ => (None, text),
    };
    let absolute = rest.starts_with('/');
    let rest = rest.strip_prefix('/').unwrap_or(rest);
    Pat {
        scheme,
        absolute,
        segs: rest
            .split('/')
            .map(|s| match s.strip_prefix(':') {
                Some(n) => Seg::Param(n.to_string()),
                None => Seg::Lit(s.to_string()),
            })
            .collect(),
    }
}

pub fn run(ctx: &mut Ctx) {
    ctx.rule(
        "Patterns are drawn from a grammar ([scheme ':'] ['/'] segment *('/' segment); literal segments over the RouteUri path \
         alphabet and %HH escapes of arbitrary bytes incl. non-UTF-8, '/', '%', NUL, multi-byte UTF-8; parameter names incl. \
         spaces, '%', '?', '#', non-ASCII and %HH escapes), values over ASCII, reserved characters and non-ASCII. roundtrip: one \
         pattern + a complete value map; non-trivial = >=1 parameter and (an escaped/non-ASCII segment or a value that needs \
         percent-encoding). pairs: a pattern and a variation of it (per segment: same / literal<->parameter / same literal \
         re-spelt / other literal; scheme, absoluteness and length varied) with URIs synthesised by applying each pattern with \
         the other's literals as values, plus re-spelt URIs (escape <-> plain, hex case, scheme, query, fragment); non-trivial = \
         the two patterns differ textually AND some synthesised URI is matched by both. sets (3-5 patterns) and server (1-4 \
         routes through ServerBuilder, with and without introspection): non-trivial = the set/server accepted the routes, some \
         URI resolves to exactly one route (sets: and two distinct patterns have equally many segments). malformed: every \
         injected structural fault is non-trivial; arbitrary text is non-trivial when it parses and contains '/' and ':' or '%'. \
         Distinct by the Debug form of the case.",
    );
    ctx.assume(
        "The generator's grammar of well-formed patterns and of URI path characters is read off RoutePattern::parse and \
         route_uri/parser (is_path_char + %HH); patterns whose literals no RouteUri can contain verbatim (raw non-ASCII, space, \
         '?', '#', stray '%') and schemes outside ALPHA *(ALPHA/DIGIT/+/-/.) are only subjected to the per-URI and ambiguity laws, \
         not to the round trip.",
    );
    ctx.assume(
        "A server's route table is the accepted plane routes followed, when introspection is enabled, by \
         swimos_introspection::{mesh_pattern, node_pattern, lane_pattern} (server/runtime/mod.rs); resolution is \
         unapply_route_uri per route, so 'matches two table entries' is evaluated with unapply on the public patterns.",
    );

    let n = ctx.pick(400_000, 20_000_000);
    ctx.prop(
        "roundtrip",
        n,
        || (pat(false), values(), deco(), noise()).prop_map(|(pat, values, deco, noise)| RtCase { pat, values, deco, noise }),
        check_roundtrip,
    );
    let n = ctx.pick(400_000, 20_000_000);
    ctx.prop("pairs", n, || set_case(2, 2, true), check_set);
    let n = ctx.pick(120_000, 5_000_000);
    ctx.prop("sets", n, || set_case(3, 5, true), check_set);
    let n = ctx.pick(100_000, 2_000_000);
    ctx.prop("server", n, server_case, check_server);
    let n = ctx.pick(400_000, 10_000_000);
    ctx.prop("malformed", n, bad_case, check_bad);
}
